package lifecycle

// C06 — subscribed plugins get each event once, in index order, in one common order; every
// caller receives the result computed from its own request only.
//
// A case is a history (a list of steps executed in order against a fresh in-process
// adaptation): register a stub plugin (drawn two-digit index, drawn subscription mask),
// stop a plugin, fire one of the thirteen lifecycle requests, a burst of concurrent callers
// (optionally with registrations / stops / vetoes going on at the same time), arm a one-shot
// veto. Every handler appends to one in-process log; the oracle judges the log and the
// callers' results.

import (
	"context"
	"fmt"
	"os"
	"sort"
	"strings"
	"sync"
	"sync/atomic"
	"testing"
	"time"

	"github.com/containerd/nri/pkg/adaptation"
	"github.com/containerd/nri/pkg/api"
	"pgregory.net/rapid"

	"nriverif/ev"
	"nriverif/fx"
)

// C06Step is one action of a history.
//
//	reg   register a plugin with index Idx and subscription Mask (0 = the empty mask, sent as a
//	      literal 0 = "everything") and wait until the adaptation has listed it
//	stop  stop the plugin chosen by Sel (Sel mod number of plugins registered so far)
//	req   one lifecycle request for Event (1..13, api.Event numbering), fresh ids
//	burst Callers[i] is the list of events caller i fires back to back, all callers
//	      concurrently; Side steps (reg/stop/veto) run on one more goroutine at the same time
//	veto  arm plugin Sel: its next handler invocation for Event returns an error
//	slowreq  plugin Sel becomes slow for Event: the plugin request timeout is shortened to
//	      c06SlowTimeout for the duration of this step, one request for Event is fired, and
//	      the plugin's handler does not answer within the timeout (it returns normally, no
//	      error, long after). The runtime drops such a plugin; the request goes on.
//	restart  the runtime stops its Adaptation and starts the same object again; every plugin
//	      is forgotten by it (and is disconnected by the harness), later reg steps connect
//	      new ones
type C06Step struct {
	Op  string `json:"op"`
	Idx string `json:"idx,omitempty"`
	// veto: the form of the error the handler returns (see formErr): "" / plain, status with
	// ErrCode 1..16, wrap / bare with ErrSentinel
	ErrForm     string `json:"err_form,omitempty"`
	ErrCode     int    `json:"err_code,omitempty"`
	ErrSentinel string `json:"err_sentinel,omitempty"`
	// reg: the name the plugin registers under ("" = p<ordinal>); any non-empty string is a
	// legal name, among them look-alikes of "<index>-<name>"
	Name    string    `json:"name,omitempty"`
	Mask    int32     `json:"mask,omitempty"`
	Sel     int       `json:"sel,omitempty"`
	Event   int32     `json:"event,omitempty"`
	Callers [][]int32 `json:"callers,omitempty"`
	Side    []C06Step `json:"side,omitempty"`
}

type C06Case struct {
	Steps  []C06Step `json:"steps"`
	SpinUs int       `json:"spin_us,omitempty"` // handlers of "odd" (tag, plugin) pairs sleep this long: widening only
	// Stop() is called on the Adaptation before its first Start()
	PreStop bool `json:"pre_stop,omitempty"`
}

const c06MaxPlugins = 8

// c06SlowTimeout is the plugin request timeout while a slowreq step runs (healthy handlers
// answer in well under a millisecond); c06NormalTimeout is the package-wide setting of this
// test binary otherwise.
const (
	c06StallLimit    = 100 * time.Millisecond
	c06SlowTimeout   = 400 * time.Millisecond
	c06NormalTimeout = 30 * time.Second
)

// ---- generator ---------------------------------------------------------------------------

type c06GenState struct {
	masks     []int32 // effective masks of the plugins registered so far
	idxs      []string
	gone      []bool // stopped (or made slow) by an earlier step
	vetoEvent int32  // event of the most recent veto step (steers the next request)
	pool      []string
}

func (g *c06GenState) reg(t *rapid.T) C06Step {
	var idx string
	if rapid.IntRange(0, 3).Draw(t, "idx_pool") != 0 {
		idx = rapid.SampledFrom(g.pool).Draw(t, "idx")
	} else {
		idx = fmt.Sprintf("%02d", rapid.IntRange(0, 99).Draw(t, "idx_any"))
	}
	var mask int32
	switch rapid.IntRange(0, 9).Draw(t, "mask_kind") {
	case 0:
		mask = 0 // the empty mask
	case 1, 2, 3:
		mask = allMask
	case 4:
		mask = 1 << uint(rapid.IntRange(0, 12).Draw(t, "bit"))
	case 5, 6:
		mask = allMask &^ (1 << uint(rapid.IntRange(0, 12).Draw(t, "nobit")))
	default:
		mask = rapid.Int32Range(1, allMask).Draw(t, "mask")
	}
	eff := mask
	if eff == 0 {
		eff = allMask
	}
	name := g.name(t, idx)
	g.masks = append(g.masks, eff)
	g.idxs = append(g.idxs, idx)
	g.gone = append(g.gone, false)
	return C06Step{Op: "reg", Idx: idx, Mask: mask, Name: name}
}

// name draws the name a plugin registers under: mostly the default, otherwise look-alikes
// of the runtime's own "<index>-<name>" format and other unusual but legal names.
func (g *c06GenState) name(t *rapid.T, idx string) string {
	switch k := rapid.IntRange(0, 19).Draw(t, "name_kind"); {
	case k < 10:
		return ""
	case k < 13: // NN-x with NN from the case's index pool (below / equal / above the real index)
		nn := rapid.SampledFrom(g.pool).Draw(t, "name_nn")
		return nn + "-" + rapid.SampledFrom([]string{"tracer", "x", "p0", "a-b", "10-x"}).Draw(t, "name_base")
	case k < 14:
		return fmt.Sprintf("%02d-plugin", rapid.IntRange(0, 99).Draw(t, "name_nn_any"))
	case k < 15:
		return idx + "-same"
	case k < 16:
		return rapid.SampledFrom([]string{"1-x", "123-x", "-x", "x-10", "10", "00", "99-", "--", "a-b-c", "0a-x", " 10-x", "１０-x"}).Draw(t, "name_odd")
	case k < 17: // the full name of another plugin
		if n := len(g.idxs); n > 0 {
			j := rapid.IntRange(0, n-1).Draw(t, "name_of")
			return fmt.Sprintf("%s-p%d", g.idxs[j], j)
		}
		return "10-p0"
	case k < 19:
		return rapid.SampledFrom([]string{"my.plugin", "a/b", "../x", "My Plugin", "UPPER", "üñí", "p 1", "p0", "p1", "tab\there", "nri.sock"}).Draw(t, "name_chars")
	}
	return rapid.SampledFrom([]string{"", "10-", "99-"}).Draw(t, "long_prefix") + strings.Repeat("n", rapid.SampledFrom([]int{64, 300, 2000}).Draw(t, "name_len"))
}

func (g *c06GenState) restart() C06Step {
	for i := range g.gone {
		g.gone[i] = true
	}
	return C06Step{Op: "restart"}
}

func (g *c06GenState) live() int {
	n := 0
	for _, gone := range g.gone {
		if !gone {
			n++
		}
	}
	return n
}

func (g *c06GenState) event(t *rapid.T) int32 {
	if g.vetoEvent != 0 && rapid.IntRange(0, 9).Draw(t, "follow_veto") < 8 {
		e := g.vetoEvent
		g.vetoEvent = 0
		return e
	}
	return rapid.Int32Range(1, 13).Draw(t, "event")
}

func (g *c06GenState) veto(t *rapid.T) C06Step {
	s := C06Step{Op: "veto"}
	if len(g.masks) > 0 {
		s.Sel = rapid.IntRange(0, len(g.masks)-1).Draw(t, "veto_plugin")
		// mostly an event the plugin is subscribed to
		var subscribed []int32
		for e := int32(1); e <= 13; e++ {
			if maskHas(g.masks[s.Sel], e) {
				subscribed = append(subscribed, e)
			}
		}
		if len(subscribed) > 0 && rapid.IntRange(0, 9).Draw(t, "veto_subscribed") != 0 {
			s.Event = rapid.SampledFrom(subscribed).Draw(t, "veto_event")
		} else {
			s.Event = rapid.Int32Range(1, 13).Draw(t, "veto_event_any")
		}
	} else {
		s.Event = rapid.Int32Range(1, 13).Draw(t, "veto_event_any")
	}
	g.vetoEvent = s.Event
	switch k := rapid.IntRange(0, 9).Draw(t, "veto_form"); {
	case k < 3:
	case k < 7:
		s.ErrForm = "status"
		s.ErrCode = rapid.SampledFrom([]int{12, 1, 2, 3, 4, 5, 6, 7, 8, 9, 10, 11, 12, 13, 14, 15, 16}).Draw(t, "veto_code")
	case k < 9:
		s.ErrForm = "wrap"
		s.ErrSentinel = rapid.SampledFrom(c19SentinelNames).Draw(t, "veto_sentinel")
	default:
		s.ErrForm = "bare"
		s.ErrSentinel = rapid.SampledFrom(c19SentinelNames).Draw(t, "veto_sentinel")
	}
	return s
}

func (g *c06GenState) stop(t *rapid.T) C06Step {
	s := C06Step{Op: "stop"}
	if len(g.masks) > 0 {
		s.Sel = rapid.IntRange(0, len(g.masks)-1).Draw(t, "stop_plugin")
		g.gone[s.Sel] = true
	}
	return s
}

// slowreq picks a live plugin and an event it is subscribed to, preferably with another live
// subscriber of a higher index behind it.
func (g *c06GenState) slowreq(t *rapid.T) (C06Step, bool) {
	type pe struct {
		sel int
		ev  int32
	}
	var behind, any []pe
	for i := range g.masks {
		if g.gone[i] {
			continue
		}
		for e := int32(1); e <= 13; e++ {
			if !maskHas(g.masks[i], e) {
				continue
			}
			any = append(any, pe{i, e})
			for j := range g.masks {
				if j != i && !g.gone[j] && g.idxs[j] > g.idxs[i] && maskHas(g.masks[j], e) {
					behind = append(behind, pe{i, e})
					break
				}
			}
		}
	}
	pool := behind
	if len(pool) == 0 {
		pool = any
	}
	if len(pool) == 0 {
		return C06Step{}, false
	}
	c := pool[rapid.IntRange(0, len(pool)-1).Draw(t, "slow_choice")]
	g.gone[c.sel] = true
	return C06Step{Op: "slowreq", Sel: c.sel, Event: c.ev}, true
}

func (g *c06GenState) burst(t *rapid.T) C06Step {
	s := C06Step{Op: "burst"}
	k := rapid.IntRange(2, 4).Draw(t, "callers")
	same := rapid.IntRange(0, 9).Draw(t, "same_event") < 6
	var common int32
	if same {
		common = g.event(t)
	}
	for i := 0; i < k; i++ {
		m := rapid.IntRange(1, 4).Draw(t, "per_caller")
		evs := make([]int32, m)
		for j := range evs {
			if same {
				evs[j] = common
			} else {
				evs[j] = rapid.Int32Range(1, 13).Draw(t, "event")
			}
		}
		s.Callers = append(s.Callers, evs)
	}
	ns := rapid.SampledFrom([]int{0, 0, 1, 1, 2}).Draw(t, "side_steps")
	for i := 0; i < ns; i++ {
		switch op := rapid.IntRange(0, 4).Draw(t, "side_op"); {
		case op <= 1 && g.live() < c06MaxPlugins && len(g.masks) < 2*c06MaxPlugins:
			s.Side = append(s.Side, g.reg(t))
		case op <= 3:
			s.Side = append(s.Side, g.stop(t))
		default:
			s.Side = append(s.Side, g.veto(t))
		}
	}
	return s
}

func genC06(t *rapid.T) C06Case {
	c := C06Case{SpinUs: rapid.SampledFrom([]int{0, 0, 50, 200, 800}).Draw(t, "spin_us")}
	g := &c06GenState{}
	// a small pool of indices per case makes equal and neighbouring indices common
	np := rapid.IntRange(2, 6).Draw(t, "pool_size")
	for i := 0; i < np; i++ {
		g.pool = append(g.pool, rapid.SampledFrom([]string{"00", "01", "02", "09", "10", "11", "19", "20", "50", "90", "98", "99"}).Draw(t, "pool_idx"))
	}
	n := rapid.IntRange(3, 40).Draw(t, "steps")
	// most histories start with a few registrations so that the requests meet plugins
	pre := rapid.SampledFrom([]int{0, 1, 2, 2, 3, 3, 4}).Draw(t, "prelude")
	for i := 0; i < pre && len(c.Steps) < n; i++ {
		c.Steps = append(c.Steps, g.reg(t))
	}
	c.PreStop = rapid.IntRange(0, 9).Draw(t, "pre_stop") == 9
	restarts := rapid.SampledFrom([]int{0, 0, 0, 0, 0, 0, 1, 1, 2}).Draw(t, "restarts")
	regAfterRestart := 0
	// a few histories contain one slow plugin (each costs the shortened request timeout)
	wantSlow := rapid.IntRange(0, 7).Draw(t, "slow_plugin") == 7
	for len(c.Steps) < n {
		if wantSlow && len(g.masks) >= 2 && rapid.IntRange(0, 3).Draw(t, "slow_now") == 0 {
			if s, ok := g.slowreq(t); ok {
				c.Steps = append(c.Steps, s)
				wantSlow = false
				continue
			}
		}
		if regAfterRestart > 0 && len(g.masks) < 2*c06MaxPlugins {
			c.Steps = append(c.Steps, g.reg(t))
			regAfterRestart--
			continue
		}
		if restarts > 0 && len(c.Steps) >= 2 && rapid.IntRange(0, 7).Draw(t, "restart_now") == 0 {
			c.Steps = append(c.Steps, g.restart())
			restarts--
			regAfterRestart = rapid.IntRange(1, 3).Draw(t, "regs_after_restart")
			continue
		}
		op := rapid.IntRange(0, 19).Draw(t, "op")
		switch {
		case op < 3 && g.live() < c06MaxPlugins && len(g.masks) < 2*c06MaxPlugins:
			c.Steps = append(c.Steps, g.reg(t))
		case op < 5:
			c.Steps = append(c.Steps, g.stop(t))
		case op < 8:
			c.Steps = append(c.Steps, g.veto(t))
		case op < 12:
			c.Steps = append(c.Steps, g.burst(t))
		default:
			c.Steps = append(c.Steps, C06Step{Op: "req", Event: g.event(t)})
		}
	}
	return c
}

// ---- execution ---------------------------------------------------------------------------

// c06Entry is one handler invocation.
type c06Entry struct {
	Seq    int64  `json:"seq"`
	Plugin int    `json:"plugin"`
	Event  int32  `json:"event"`
	Tag    string `json:"tag"`
	Veto   string `json:"veto,omitempty"`      // the handler returned an error; this is its label
	Want   string `json:"veto_want,omitempty"` // what the caller's error must contain
	Form   string `json:"veto_form,omitempty"`
	Slow   bool   `json:"slow,omitempty"` // this invocation did not answer within the request timeout
}

type c06Plugin struct {
	Ord       int    `json:"ord"`
	Name      string `json:"name"`              // the harness's label (p<ordinal>), used in its contributions
	RegName   string `json:"reg_name"`          // the name the plugin registered under
	Dropped   bool   `json:"dropped,omitempty"` // forgotten by a restart of the runtime between StopStart and StopEnd
	Idx       string `json:"idx"`
	Mask      int32  `json:"mask"` // effective subscription (empty mask = all thirteen)
	WireZero  bool   `json:"wire_zero,omitempty"`
	RegStart  int64  `json:"reg_start"`
	Active    int64  `json:"active"`
	StopStart int64  `json:"stop_start,omitempty"`
	StopEnd   int64  `json:"stop_end,omitempty"`
	Slow      bool   `json:"slow,omitempty"` // did not answer a slowreq: dropped by the runtime between StopStart and StopEnd
	// the runtime closed the connection although the plugin was neither stopped nor slow
	ClosedByRuntime bool   `json:"closed_by_runtime,omitempty"`
	RegErr          string `json:"reg_err,omitempty"`
	RegMs           int    `json:"reg_ms,omitempty"` // wall clock of the registration
	Refused         bool   `json:"refused,omitempty"`
	TimedOut        bool   `json:"timed_out,omitempty"`

	fp *fx.Plugin
}

// c06Req is one lifecycle request and what its caller got back.
type c06Req struct {
	Tag    string `json:"tag"`
	Event  int32  `json:"event"`
	Caller int    `json:"caller"`
	Start  int64  `json:"start"`
	End    int64  `json:"end"`
	Err    string `json:"err,omitempty"`
	// provenance carried by the response
	Ann     map[string]string `json:"ann,omitempty"`      // create: adjustment annotations
	Upd     []string          `json:"upd,omitempty"`      // ids of updated third containers, in order
	UpdVal  []uint64          `json:"upd_val,omitempty"`  // their cpu shares
	ReqID   string            `json:"req_id,omitempty"`   // update: id of the trailing entry for the requested container
	ReqUni  map[string]string `json:"req_uni,omitempty"`  // update: its unified map
	HasResp bool              `json:"has_resp,omitempty"` // a create/update/stop response was returned
	// issued by a slowreq step (shortened request timeout); SlowPlugin did not answer it
	Short      bool   `json:"short_timeout,omitempty"`
	DurMs      int    `json:"duration_ms,omitempty"` // wall clock, slowreq only
	SlowPlugin string `json:"slow_plugin,omitempty"`
}

type c06Hist struct {
	RuntimeLog []string     `json:"runtime_log,omitempty"` // warnings and errors logged by nri during the case
	MaxStallMs int          `json:"max_stall_ms"`          // longest time a 2 ms ticker was kept from running
	Infra      string       `json:"infra,omitempty"`
	Restarts   int          `json:"restarts,omitempty"`
	Plugins    []*c06Plugin `json:"plugins"`
	Reqs       []*c06Req    `json:"requests"`
	Log        []c06Entry   `json:"log"`
}

var c06CaseCtr atomic.Int64

type c06Exec struct {
	rt     *lcRuntime
	caseNo int64
	ctr    atomic.Int64 // one sequence for log entries and for the marks around requests / registrations / stops
	reqN   atomic.Int64
	spin   time.Duration

	mu       sync.Mutex
	log      []c06Entry
	armed    map[[2]int]c06Veto
	infra    string
	restarts int
	slow     map[[2]int]bool // armed: the next invocation does not answer in time
	slowHit  map[[2]int]bool // … and it happened
	done     chan struct{}
	vetoN    int
	plugins  []*c06Plugin
	reqs     []*c06Req
}

func newC06Exec(c C06Case) (*c06Exec, error) {
	rt, err := newLCRuntime(c.PreStop)
	if err != nil {
		return nil, err
	}
	return &c06Exec{rt: rt, caseNo: c06CaseCtr.Add(1), spin: time.Duration(c.SpinUs) * time.Microsecond, armed: map[[2]int]c06Veto{},
		slow: map[[2]int]bool{}, slowHit: map[[2]int]bool{}, done: make(chan struct{})}, nil
}

func (x *c06Exec) close() {
	close(x.done)
	x.mu.Lock()
	ps := append([]*c06Plugin(nil), x.plugins...)
	x.mu.Unlock()
	for _, p := range ps {
		if p.fp != nil && p.fp.Stub != nil {
			p.fp.Stub.Stop()
		}
	}
	x.rt.Stop()
}

// c06Veto is an armed one-shot handler error.
type c06Veto struct {
	text, form, sentinel string
	code                 int
}

// enter is called first thing by every handler.
func (x *c06Exec) enter(ord int, e api.Event, tag string) error {
	x.mu.Lock()
	k := [2]int{ord, int(e)}
	v, vetoing := x.armed[k]
	var verr error
	var text, want, form string
	if vetoing {
		delete(x.armed, k)
		text = v.text
		verr, want = formErr(v.form, v.code, v.sentinel, v.text)
		form = formClass(v.form, v.code, v.sentinel)
	}
	hang := x.slow[k]
	if hang {
		delete(x.slow, k)
		x.slowHit[k] = true
	}
	x.log = append(x.log, c06Entry{Seq: x.ctr.Add(1), Plugin: ord, Event: int32(e), Tag: tag, Veto: text, Want: want, Form: form, Slow: hang})
	x.mu.Unlock()
	if hang { // no answer within the request timeout; a normal (empty-handed) return long after
		select {
		case <-x.done:
		case <-time.After(3 * c06SlowTimeout):
		}
		return nil
	}
	if x.spin > 0 && hashOdd(tag, ord) {
		time.Sleep(x.spin)
	}
	if vetoing {
		return verr
	}
	return nil
}

func c06Other(tag, name string, ord int) *api.ContainerUpdate {
	return &api.ContainerUpdate{ContainerId: "u-" + tag + "-" + name,
		Linux: &api.LinuxContainerUpdate{Resources: &api.LinuxResources{Cpu: &api.LinuxCPU{Shares: api.UInt64(uint64(ord + 1))}}}}
}

func validIdx(s string) bool {
	return len(s) == 2 && s[0] >= '0' && s[0] <= '9' && s[1] >= '0' && s[1] <= '9'
}

func (x *c06Exec) register(s C06Step) {
	if !validIdx(s.Idx) || s.Mask < 0 || s.Mask > allMask {
		return // not a registration the property quantifies over
	}
	x.mu.Lock()
	ord := len(x.plugins)
	p := &c06Plugin{Ord: ord, Name: fmt.Sprintf("p%d", ord), Idx: s.Idx, Mask: s.Mask}
	if s.Mask == 0 {
		p.Mask, p.WireZero = allMask, true
	}
	x.plugins = append(x.plugins, p)
	x.mu.Unlock()

	name := p.Name
	p.RegName = s.Name
	if p.RegName == "" {
		p.RegName = name
	}
	synced, closed := make(chan struct{}, 1), make(chan struct{}, 1)
	fp := &fx.Plugin{Name: p.RegName, Idx: s.Idx, Mask: api.EventMask(p.Mask)}
	fp.OnSynchronize = func(context.Context, []*api.PodSandbox, []*api.Container) ([]*api.ContainerUpdate, error) {
		select {
		case synced <- struct{}{}:
		default:
		}
		return nil, nil
	}
	fp.OnClose = func() {
		select {
		case closed <- struct{}{}:
		default:
		}
	}
	fp.OnCreate = func(_ context.Context, pod *api.PodSandbox, ct *api.Container) (*api.ContainerAdjustment, []*api.ContainerUpdate, error) {
		tag := tagOf(pod, ct)
		if err := x.enter(ord, api.Event_CREATE_CONTAINER, tag); err != nil {
			return nil, nil, err
		}
		return &api.ContainerAdjustment{Annotations: map[string]string{"lc." + name: tag}},
			[]*api.ContainerUpdate{c06Other(tag, name, ord)}, nil
	}
	fp.OnUpdate = func(_ context.Context, pod *api.PodSandbox, ct *api.Container, _ *api.LinuxResources) ([]*api.ContainerUpdate, error) {
		tag := tagOf(pod, ct)
		if err := x.enter(ord, api.Event_UPDATE_CONTAINER, tag); err != nil {
			return nil, err
		}
		own := &api.ContainerUpdate{ContainerId: tag,
			Linux: &api.LinuxContainerUpdate{Resources: &api.LinuxResources{Unified: map[string]string{"lc." + name: tag}}}}
		return []*api.ContainerUpdate{c06Other(tag, name, ord), own}, nil
	}
	fp.OnStop = func(_ context.Context, pod *api.PodSandbox, ct *api.Container) ([]*api.ContainerUpdate, error) {
		tag := tagOf(pod, ct)
		if err := x.enter(ord, api.Event_STOP_CONTAINER, tag); err != nil {
			return nil, err
		}
		return []*api.ContainerUpdate{c06Other(tag, name, ord)}, nil
	}
	fp.OnUpdatePod = func(_ context.Context, pod *api.PodSandbox, _, _ *api.LinuxResources) error {
		return x.enter(ord, api.Event_UPDATE_POD_SANDBOX, tagOf(pod, nil))
	}
	fp.OnEvent = func(_ context.Context, e api.Event, pod *api.PodSandbox, ct *api.Container) error {
		return x.enter(ord, e, tagOf(pod, ct))
	}
	p.fp = fp

	p.RegStart = x.ctr.Add(1)
	regT0 := time.Now()
	defer func() { p.RegMs = int(time.Since(regT0) / time.Millisecond) }()
	cn := connectAndWait(x.rt, fp, synced, closed, p.WireZero)
	p.RegErr, p.Refused, p.TimedOut = shortErr(cn.startErr), cn.refused, cn.timedOut
	if cn.startErr == nil && !cn.refused && !cn.timedOut {
		p.Active = x.ctr.Add(1)
	}
}

func (x *c06Exec) pick(sel int) *c06Plugin {
	x.mu.Lock()
	defer x.mu.Unlock()
	if len(x.plugins) == 0 {
		return nil
	}
	if sel < 0 {
		sel = -sel
	}
	return x.plugins[sel%len(x.plugins)]
}

func (x *c06Exec) stop(s C06Step) {
	p := x.pick(s.Sel)
	if p == nil || p.Active == 0 || p.StopStart != 0 {
		return
	}
	if p.fp.Closed.Load() > 0 { // already gone without our doing
		return
	}
	p.StopStart = x.ctr.Add(1)
	p.fp.Stub.Stop()
	p.StopEnd = x.ctr.Add(1)
}

func (x *c06Exec) veto(s C06Step) {
	p := x.pick(s.Sel)
	if p == nil || s.Event < 1 || s.Event > 13 {
		return
	}
	x.mu.Lock()
	x.vetoN++
	x.armed[[2]int{p.Ord, int(s.Event)}] = c06Veto{text: fmt.Sprintf("veto#%d by %s on %s", x.vetoN, p.Name, evName(s.Event)),
		form: s.ErrForm, code: s.ErrCode, sentinel: s.ErrSentinel}
	x.mu.Unlock()
}

// restart: the same Adaptation object is stopped and started again. It forgets its plugins
// (their connections stay open but they are not listed any more); the harness disconnects
// them afterwards. Top level only: nothing else is in flight.
func (x *c06Exec) restart() {
	x.mu.Lock()
	ps := append([]*c06Plugin(nil), x.plugins...)
	x.mu.Unlock()
	mark := x.ctr.Add(1)
	x.rt.A.Stop()
	end := x.ctr.Add(1)
	for _, p := range ps {
		if p.Active != 0 && p.StopStart == 0 {
			p.Dropped, p.StopStart, p.StopEnd = true, mark, end
		}
		if p.fp != nil && p.fp.Stub != nil {
			p.fp.Stub.Stop()
		}
	}
	if err := x.rt.A.Start(); err != nil {
		x.mu.Lock()
		x.infra = "restart: " + shortErr(err)
		x.mu.Unlock()
	}
	x.mu.Lock()
	x.restarts++
	x.mu.Unlock()
}

// slowreq: see C06Step. Runs alone (top level only), so nothing else is in flight while the
// package-wide request timeout is short.
func (x *c06Exec) slowreq(s C06Step) {
	if s.Event < 1 || s.Event > 13 {
		return
	}
	p := x.pick(s.Sel)
	armedSlow := false
	var k [2]int
	if p != nil && p.Active != 0 && p.StopStart == 0 && maskHas(p.Mask, s.Event) && p.fp.Closed.Load() == 0 {
		k = [2]int{p.Ord, int(s.Event)}
		x.mu.Lock()
		delete(x.armed, k) // slow, not vetoing
		x.slow[k] = true
		x.mu.Unlock()
		armedSlow = true
	}
	adaptation.SetPluginRequestTimeout(c06SlowTimeout)
	defer adaptation.SetPluginRequestTimeout(c06NormalTimeout)
	mark := x.ctr.Add(1)
	t0 := time.Now()
	r := x.request(0, s.Event)
	if r == nil {
		return
	}
	r.Short = true
	r.DurMs = int(time.Since(t0) / time.Millisecond)
	if !armedSlow {
		return
	}
	x.mu.Lock()
	hit := x.slowHit[k]
	delete(x.slow, k) // an earlier plugin vetoed the request: nobody was slow
	x.mu.Unlock()
	if hit {
		r.SlowPlugin = p.Name
		p.Slow, p.StopStart, p.StopEnd = true, mark, x.ctr.Add(1)
	}
}

func (x *c06Exec) request(caller int, e int32) *c06Req {
	if e < 1 || e > 13 {
		return nil
	}
	r := &c06Req{Tag: fmt.Sprintf("c%dr%d", x.caseNo, x.reqN.Add(1)), Event: e, Caller: caller}
	r.Start = x.ctr.Add(1)
	resp, err := fire(x.rt.A, e, r.Tag)
	r.End = x.ctr.Add(1)
	r.Err = shortErr(err)
	var ups []*api.ContainerUpdate
	switch v := resp.(type) {
	case *api.CreateContainerResponse:
		r.HasResp = true
		r.Ann = v.GetAdjust().GetAnnotations()
		ups = v.GetUpdate()
	case *api.UpdateContainerResponse:
		r.HasResp = true
		ups = v.GetUpdate()
		if n := len(ups); n > 0 { // the trailing entry is the requested container's (nil if untouched)
			if last := ups[n-1]; last != nil {
				r.ReqID = last.GetContainerId()
				r.ReqUni = last.GetLinux().GetResources().GetUnified()
			}
			ups = ups[:n-1]
		}
	case *api.StopContainerResponse:
		r.HasResp = true
		ups = v.GetUpdate()
	}
	for _, u := range ups {
		r.Upd = append(r.Upd, u.GetContainerId())
		r.UpdVal = append(r.UpdVal, u.GetLinux().GetResources().GetCpu().GetShares().GetValue())
	}
	x.mu.Lock()
	x.reqs = append(x.reqs, r)
	x.mu.Unlock()
	return r
}

func (x *c06Exec) step(s C06Step, top bool) {
	switch s.Op {
	case "reg":
		x.mu.Lock()
		n := len(x.plugins)
		x.mu.Unlock()
		if n < 4*c06MaxPlugins { // hand-written replay files cannot exhaust descriptors
			x.register(s)
		}
	case "stop":
		x.stop(s)
	case "veto":
		x.veto(s)
	case "slowreq":
		if top {
			x.slowreq(s)
		}
	case "restart":
		if top && x.restarts < 4 {
			x.restart()
		}
	case "req":
		if top {
			x.request(0, s.Event)
		}
	case "burst":
		if !top {
			return
		}
		var wg sync.WaitGroup
		for ci, evs := range s.Callers {
			wg.Add(1)
			go func(ci int, evs []int32) {
				defer wg.Done()
				for _, e := range evs {
					x.request(ci+1, e)
				}
			}(ci, evs)
		}
		if len(s.Side) > 0 {
			wg.Add(1)
			go func() {
				defer wg.Done()
				for _, ss := range s.Side {
					x.step(ss, false)
				}
			}()
		}
		wg.Wait()
	}
}

func (x *c06Exec) history() *c06Hist {
	x.mu.Lock()
	defer x.mu.Unlock()
	for _, p := range x.plugins {
		if p.fp != nil && p.Active != 0 && p.StopStart == 0 && p.fp.Closed.Load() > 0 {
			p.ClosedByRuntime = true
		}
	}
	h := &c06Hist{RuntimeLog: runtimeErrors.snapshot(), MaxStallMs: int(stallMax() / time.Millisecond), Infra: x.infra, Restarts: x.restarts, Plugins: x.plugins, Reqs: append([]*c06Req(nil), x.reqs...), Log: append([]c06Entry(nil), x.log...)}
	sort.Slice(h.Reqs, func(i, j int) bool { return h.Reqs[i].Start < h.Reqs[j].Start })
	return h
}

func runC06(c C06Case) ev.Outcome {
	runtimeErrors.reset()
	stallReset()
	x, err := newC06Exec(c)
	if err != nil {
		return ev.Outcome{Overloaded: true, Classes: []string{"infra:" + shortErr(err)}}
	}
	for _, s := range c.Steps {
		x.step(s, true)
	}
	h := x.history()
	x.close()
	return judgeC06(c, h)
}

// ---- oracle ------------------------------------------------------------------------------

const (
	stMustNot = iota // not registered yet / stopped before the request began
	stMust           // listed before the request began and not being stopped while it ran
	stRegistering
	stStopping
)

// c06State relates a plugin to a request by the sequence marks (one atomic counter orders
// marks and log entries: a smaller number was drawn earlier in real time).
func c06State(p *c06Plugin, r *c06Req) int {
	if p.Active == 0 { // registration did not complete (reported separately)
		return stRegistering
	}
	if r.End < p.RegStart {
		return stMustNot
	}
	if p.StopStart != 0 {
		if r.Start > p.StopEnd {
			return stMustNot
		}
		if r.End > p.StopStart {
			// the stop (or the drop by the runtime) overlaps the request, whether or not the
			// registration does too: the plugin may or may not be invoked, and its answer
			// may be lost with the connection
			return stStopping
		}
	}
	if r.Start < p.Active {
		return stRegistering
	}
	return stMust
}

func judgeC06(c C06Case, h *c06Hist) ev.Outcome {
	fail := func(format string, a ...any) ev.Outcome {
		o := ev.Failf(format, a...)
		o.History = h
		return o
	}
	out := ev.Outcome{}
	lenient := map[string]bool{}
	classes := map[string]bool{}

	if h.Infra != "" {
		return ev.Outcome{Overloaded: true, History: h, Classes: []string{"infra:" + h.Infra}}
	}
	// Evidence of an oversubscribed machine: the 2 ms ticker of the stall monitor was kept from
	// running for c06StallLimit or longer at least once while the case ran. It never decides
	// anything by itself; it only qualifies the two symptoms that load can produce although no
	// clause of the property is involved: a registration that does not complete (the stub's
	// fixed 5 s start / registration timers) and a plugin that loses its connection without
	// having been stopped or made slow by the history.
	loaded := time.Duration(h.MaxStallMs)*time.Millisecond >= c06StallLimit
	for _, p := range h.Plugins {
		if (p.RegErr != "" || p.Refused) && (loaded || p.RegMs >= 2000) {
			return ev.Outcome{Overloaded: true, History: h, Classes: []string{"registration-failed-under-load"}}
		}
		if p.ClosedByRuntime && loaded {
			return ev.Outcome{Overloaded: true, History: h, Classes: []string{"plugin-lost-connection-under-load"}}
		}
	}
	// registrations: every generated registration is well-formed (two-digit index, mask within
	// the thirteen events) and must be accepted
	firstStop := int64(0)
	for _, p := range h.Plugins {
		if p.TimedOut {
			return ev.Outcome{Overloaded: true, History: h, Classes: []string{"registration-watchdog"}}
		}
		if p.RegErr != "" {
			return fail("plugin %s (index %s, mask %#x) could not register: %s", p.Name, p.Idx, p.Mask, p.RegErr)
		}
		if p.Refused {
			return fail("plugin %s with valid index %s and valid subscription mask %#x (empty mask sent: %v) was turned away by the runtime", p.Name, p.Idx, p.Mask, p.WireZero)
		}
		if p.StopStart != 0 && !p.Slow && !p.Dropped && (firstStop == 0 || p.StopStart < firstStop) {
			firstStop = p.StopStart
		}
	}
	// while the request timeout was short a healthy plugin that lost its connection was most
	// likely dropped for being late on an overloaded machine: such a history is not judged
	for _, r := range h.Reqs {
		if !r.Short {
			continue
		}
		// every plugin that ran into the shortened timeout adds a full timeout to the request:
		// if the request took nearly two of them, a second (healthy) plugin may have been dropped
		if time.Duration(r.DurMs)*time.Millisecond >= 2*c06SlowTimeout-c06SlowTimeout/10 {
			return ev.Outcome{Overloaded: true, History: h, Classes: []string{"healthy-plugin-dropped-under-short-timeout"}}
		}
		for _, p := range h.Plugins {
			if p.ClosedByRuntime {
				return ev.Outcome{Overloaded: true, History: h, Classes: []string{"healthy-plugin-dropped-under-short-timeout"}}
			}
		}
		break
	}

	// entries logged by a plugin after its Stop began are not ordered with respect to the
	// adaptation any more (the handler goroutine may run after the adaptation gave up on the
	// closed connection): they are set aside
	reqByTag := map[string]*c06Req{}
	for _, r := range h.Reqs {
		reqByTag[r.Tag] = r
	}
	var entries []c06Entry
	byTag := map[string][]c06Entry{}
	for _, e := range h.Log {
		if e.Plugin < 0 || e.Plugin >= len(h.Plugins) {
			return fail("harness: log entry of unknown plugin %d", e.Plugin)
		}
		p := h.Plugins[e.Plugin]
		if p.StopStart != 0 && !p.Slow && e.Seq > p.StopStart {
			lenient["entry-after-stop-began"] = true
			continue
		}
		if reqByTag[e.Tag] == nil {
			return fail("plugin %s was invoked for %s with id %q, which no caller sent", p.Name, evName(e.Event), e.Tag)
		}
		entries = append(entries, e)
		byTag[e.Tag] = append(byTag[e.Tag], e)
	}

	nontrivial := false
	vetoedBy := map[int]bool{}
	vetoes, maxInvoked := 0, 0
	for ri, r := range h.Reqs {
		es := byTag[r.Tag]
		if len(es) > maxInvoked {
			maxInvoked = len(es)
		}
		for _, e := range es {
			if vetoedBy[e.Plugin] { // a plugin that vetoed an earlier request is still being invoked
				classes["vetoing-plugin-invoked-again"] = true
			}
		}
		seen := map[int]bool{}
		vetoAt, vetoUncertain := -1, false
		distinctIdx := map[string]bool{}
		for i, e := range es {
			p := h.Plugins[e.Plugin]
			if e.Event != r.Event {
				return fail("request %s is a %s but plugin %s was invoked for %s", r.Tag, evName(r.Event), p.Name, evName(e.Event))
			}
			if seen[p.Ord] {
				return fail("plugin %s was invoked twice for %s %s", p.Name, evName(r.Event), r.Tag)
			}
			seen[p.Ord] = true
			switch c06State(p, r) {
			case stMustNot:
				return fail("plugin %s was invoked for %s %s although it was not registered while the request ran (request marks %d..%d, plugin registering from %d, stopped %d..%d)",
					p.Name, evName(r.Event), r.Tag, r.Start, r.End, p.RegStart, p.StopStart, p.StopEnd)
			case stRegistering:
				lenient["registering"] = true
			case stStopping:
				lenient["stopping"] = true
			}
			if !maskHas(p.Mask, r.Event) {
				return fail("plugin %s (mask %#x) is not subscribed to %s but was invoked for %s", p.Name, p.Mask, evName(r.Event), r.Tag)
			}
			if i > 0 {
				if prev := h.Plugins[es[i-1].Plugin]; prev.Idx > p.Idx {
					return fail("%s %s: plugin %s (index %s) was invoked before plugin %s (index %s)", evName(r.Event), r.Tag, prev.Name, prev.Idx, p.Name, p.Idx)
				}
			}
			if vetoAt >= 0 {
				v := h.Plugins[es[vetoAt].Plugin]
				return fail("%s %s: plugin %s (index %s) was invoked after plugin %s (index %s) had vetoed the request", evName(r.Event), r.Tag, p.Name, p.Idx, v.Name, v.Idx)
			}
			if e.Veto != "" {
				if c06State(p, r) == stStopping {
					vetoUncertain = true // its answer may have been lost with the connection
				} else {
					vetoAt = i
				}
			}
			distinctIdx[p.Idx] = true
		}
		if vetoUncertain {
			lenient["veto-by-stopping-plugin"] = true
			continue
		}
		if vetoAt < 0 && r.Err != "" {
			// an error nobody (visibly) returned: after a Stop it may stem from the disconnected
			// plugin (its veto entry set aside, or a transport failure: C07's business)
			if firstStop != 0 && firstStop < r.End {
				lenient["error-after-a-stop"] = true
				continue
			}
			if r.SlowPlugin != "" {
				return fail("caller of %s %s received error %q although no plugin vetoed the request (plugin %s did not answer within the request timeout of %v and returned no error; invoked: %s)",
					evName(r.Event), r.Tag, r.Err, r.SlowPlugin, c06SlowTimeout, c06Names(h, es))
			}
			return fail("caller of %s %s received error %q although no plugin returned an error for it", evName(r.Event), r.Tag, r.Err)
		}
		if r.SlowPlugin != "" {
			classes["slow-plugin"] = true
			for _, e := range es {
				if q := h.Plugins[e.Plugin]; q.Name != r.SlowPlugin && c06State(q, r) == stMust {
					for _, sl := range h.Plugins {
						if sl.Name == r.SlowPlugin && q.Idx > sl.Idx {
							classes["slow-plugin-with-subscriber-behind"] = true
						}
					}
				}
			}
		}
		// completeness
		for _, p := range h.Plugins {
			if seen[p.Ord] || !maskHas(p.Mask, r.Event) {
				continue
			}
			switch c06State(p, r) {
			case stMust:
				if vetoAt >= 0 && p.Idx >= h.Plugins[es[vetoAt].Plugin].Idx {
					continue // ordered after (or level with) the vetoing plugin
				}
				return fail("plugin %s (index %s, mask %#x, listed since mark %d) is subscribed to %s but was not invoked for %s (marks %d..%d)",
					p.Name, p.Idx, p.Mask, p.Active, evName(r.Event), r.Tag, r.Start, r.End)
			case stRegistering:
				if p.RegStart < r.End {
					lenient["registering"] = true
				}
			case stStopping:
				lenient["stopping"] = true
			}
		}
		// what the caller got
		if vetoAt >= 0 {
			vetoes++
			vetoedBy[es[vetoAt].Plugin] = true
			v := es[vetoAt]
			classes["veto:"+v.Form] = true
			if !strings.Contains(r.Err, v.Want) || r.Err == "" {
				return fail("%s %s was vetoed by plugin %s with an error of form %s (%s), text %q, but its caller received error %q", evName(r.Event), r.Tag, h.Plugins[v.Plugin].Name, v.Form, v.Veto, v.Want, r.Err)
			}
		}
		if r.Err == "" {
			if msg := c06Provenance(h, r, es); msg != "" {
				return fail("%s", msg)
			}
		}
		// non-triviality
		if len(distinctIdx) >= 2 || vetoAt >= 0 {
			nontrivial = true
		}
		if len(distinctIdx) >= 2 {
			classes["request-seen-by-several-indices"] = true
		}
		if len(es) >= 2 && len(distinctIdx) < len(es) {
			classes["equal-indices-invoked"] = true
		}
		for rj, q := range h.Reqs {
			if rj != ri && q.Start < r.End && r.Start < q.End {
				nontrivial = true
				classes["requests-in-flight-together"] = true
				break
			}
		}
	}

	// one common order: the union of the per-plugin observation orders must be acyclic
	if msg := c06CommonOrder(h, entries); msg != "" {
		return fail("%s", msg)
	}
	// informational: requests whose invocations are not adjacent in the log (always 0 while
	// a whole request is processed under one lock; not required by the statement)
	if n := c06NonContiguous(entries); n > 0 {
		ev.Get("C06").AddExtra("noncontiguous_requests", n)
	}

	// classes
	np := len(h.Plugins)
	switch {
	case np >= 5:
		out.Classes = append(out.Classes, "plugins:5+")
	case np >= 3:
		out.Classes = append(out.Classes, "plugins:3-4")
	default:
		out.Classes = append(out.Classes, fmt.Sprintf("plugins:%d", np))
	}
	out.Classes = append(out.Classes, "masks:"+c06MaskClass(h.Plugins), "regorder:"+c06RegOrder(h.Plugins))
	maxCallers := 1
	var walk func(ss []C06Step)
	walk = func(ss []C06Step) {
		for _, s := range ss {
			if s.Op == "burst" {
				if len(s.Callers) > maxCallers {
					maxCallers = len(s.Callers)
				}
				for _, sd := range s.Side {
					classes["burst-with-"+sd.Op] = true
				}
			}
		}
	}
	walk(c.Steps)
	out.Classes = append(out.Classes, fmt.Sprintf("callers:%d", maxCallers))
	if vetoes > 0 {
		classes["vetoed"] = true
	}
	switch st := h.MaxStallMs; {
	case st >= 100:
		classes["stall:100ms+"] = true
	case st >= 50:
		classes["stall:50-100ms"] = true
	case st >= 10:
		classes["stall:10-50ms"] = true
	default:
		classes["stall:<10ms"] = true
	}
	if c.PreStop {
		classes["runtime-stopped-before-first-start"] = true
	}
	if h.Restarts > 0 {
		classes["runtime-restarted"] = true
		for _, p := range h.Plugins {
			if p.Dropped {
				classes["runtime-restarted-with-plugins"] = true
			}
		}
	}
	for _, p := range h.Plugins {
		if k := c06NameClass(p, h.Plugins); k != "" {
			classes["name:"+k] = true
		}
		if p.WireZero {
			classes["empty-mask"] = true
		}
		if p.StopStart != 0 {
			classes["plugin-stopped"] = true
		}
	}
	switch {
	case maxInvoked >= 4:
		classes["max-invoked:4+"] = true
	case maxInvoked >= 2:
		classes["max-invoked:2-3"] = true
	default:
		classes[fmt.Sprintf("max-invoked:%d", maxInvoked)] = true
	}
	for k := range lenient {
		out.Lenient = append(out.Lenient, k)
		classes["lenient:"+k] = true
	}
	ks := make([]string, 0, len(classes))
	for k := range classes {
		ks = append(ks, k)
	}
	sort.Strings(ks)
	sort.Strings(out.Lenient)
	out.Classes = append(out.Classes, ks...)
	out.NonTrivial = nontrivial
	return out
}

// c06Provenance checks that a successful create/update/stop response consists of exactly
// the contributions the invoked plugins returned for this very request (every contribution
// names the request tag and its plugin). A plugin that was being stopped while the request
// ran may be missing (its answer may have been lost).
func c06Provenance(h *c06Hist, r *c06Req, es []c06Entry) string {
	kind := api.Event(r.Event)
	if kind != api.Event_CREATE_CONTAINER && kind != api.Event_UPDATE_CONTAINER && kind != api.Event_STOP_CONTAINER {
		return ""
	}
	if !r.HasResp {
		return fmt.Sprintf("%s %s returned neither a response nor an error", evName(r.Event), r.Tag)
	}
	byName := map[string]*c06Plugin{}
	optional := map[string]bool{}
	var want []string // names that must appear, in invocation order
	for _, e := range es {
		p := h.Plugins[e.Plugin]
		byName[p.Name] = p
		if c06State(p, r) == stStopping {
			optional[p.Name] = true
		} else {
			want = append(want, p.Name)
		}
	}
	// a plugin being stopped while the request ran may have answered although its log entry
	// was set aside (logged after Stop began)
	for _, p := range h.Plugins {
		if c06State(p, r) == stStopping && maskHas(p.Mask, r.Event) && byName[p.Name] == nil {
			byName[p.Name] = p
			optional[p.Name] = true
		}
	}
	where := fmt.Sprintf("response to %s %s (invoked: %s)", evName(r.Event), r.Tag, c06Names(h, es))
	checkMap := func(what string, m map[string]string) string {
		for k, v := range m {
			name := strings.TrimPrefix(k, "lc.")
			if name == k || byName[name] == nil {
				return fmt.Sprintf("%s: %s carries %q=%q, which none of the plugins invoked for this request returned", where, what, k, v)
			}
			if v != r.Tag {
				return fmt.Sprintf("%s: %s entry %q carries the tag %q of another request", where, what, k, v)
			}
		}
		for _, n := range want {
			if _, ok := m["lc."+n]; !ok {
				return fmt.Sprintf("%s: %s lacks the contribution of plugin %s (have %v)", where, what, n, m)
			}
		}
		return ""
	}
	if kind == api.Event_CREATE_CONTAINER {
		if msg := checkMap("adjustment annotations", r.Ann); msg != "" {
			return msg
		}
	}
	if kind == api.Event_UPDATE_CONTAINER {
		if r.ReqID != "" && r.ReqID != r.Tag {
			return fmt.Sprintf("%s: trailing update is for container %q, requested was %q", where, r.ReqID, r.Tag)
		}
		if msg := checkMap("the requested container's unified resources", r.ReqUni); msg != "" {
			return msg
		}
	}
	var got []string
	for i, id := range r.Upd {
		parts := strings.Split(id, "-")
		if len(parts) != 3 || parts[0] != "u" {
			return fmt.Sprintf("%s: update for unknown container %q", where, id)
		}
		p := byName[parts[2]]
		if p == nil {
			return fmt.Sprintf("%s: update %q comes from a plugin that was not invoked for this request", where, id)
		}
		if parts[1] != r.Tag {
			return fmt.Sprintf("%s: update %q belongs to another request", where, id)
		}
		if r.UpdVal[i] != uint64(p.Ord+1) {
			return fmt.Sprintf("%s: update %q carries cpu shares %d, plugin %s returned %d", where, id, r.UpdVal[i], p.Name, p.Ord+1)
		}
		if !optional[p.Name] {
			got = append(got, p.Name)
		}
	}
	if strings.Join(got, ",") != strings.Join(want, ",") {
		return fmt.Sprintf("%s: collected updates come from [%s], expected [%s] (order of invocation)", where, strings.Join(got, ","), strings.Join(want, ","))
	}
	return ""
}

func c06Names(h *c06Hist, es []c06Entry) string {
	var s []string
	for _, e := range es {
		p := h.Plugins[e.Plugin]
		s = append(s, p.Idx+"-"+p.Name)
	}
	return strings.Join(s, " ")
}

// c06CommonOrder: each plugin observes the requests in log order; there must be one total
// order of requests of which every plugin's observation sequence is a subsequence.
func c06CommonOrder(h *c06Hist, entries []c06Entry) string {
	perPlugin := map[int][]string{}
	for _, e := range entries {
		perPlugin[e.Plugin] = append(perPlugin[e.Plugin], e.Tag)
	}
	succ := map[string]map[string]bool{}
	indeg := map[string]int{}
	for _, seq := range perPlugin {
		for i, t := range seq {
			if _, ok := indeg[t]; !ok {
				indeg[t] = 0
			}
			if i > 0 && seq[i-1] != t {
				if succ[seq[i-1]] == nil {
					succ[seq[i-1]] = map[string]bool{}
				}
				if !succ[seq[i-1]][t] {
					succ[seq[i-1]][t] = true
					indeg[t]++
				}
			}
		}
	}
	var ready []string
	for t, d := range indeg {
		if d == 0 {
			ready = append(ready, t)
		}
	}
	done := 0
	for len(ready) > 0 {
		t := ready[len(ready)-1]
		ready = ready[:len(ready)-1]
		done++
		for s := range succ[t] {
			if indeg[s]--; indeg[s] == 0 {
				ready = append(ready, s)
			}
		}
	}
	if done == len(indeg) {
		return ""
	}
	// find a two-plugin witness for the message
	pos := map[int]map[string]int{}
	for p, seq := range perPlugin {
		pos[p] = map[string]int{}
		for i, t := range seq {
			pos[p][t] = i
		}
	}
	ords := make([]int, 0, len(perPlugin))
	for p := range perPlugin {
		ords = append(ords, p)
	}
	sort.Ints(ords)
	for _, a := range ords {
		for _, b := range ords {
			if a >= b {
				continue
			}
			seq := perPlugin[a]
			for i := 0; i < len(seq); i++ {
				for j := i + 1; j < len(seq); j++ {
					pi, ok1 := pos[b][seq[i]]
					pj, ok2 := pos[b][seq[j]]
					if ok1 && ok2 && pi > pj {
						return fmt.Sprintf("plugins observed the requests in different orders: plugin %s saw %s before %s, plugin %s saw %s before %s",
							h.Plugins[a].Name, seq[i], seq[j], h.Plugins[b].Name, seq[j], seq[i])
					}
				}
			}
		}
	}
	return "plugins observed the requests in orders that cannot be merged into one common order (cycle over more than two plugins)"
}

func c06NonContiguous(entries []c06Entry) int {
	closed := map[string]bool{}
	bad := map[string]bool{}
	last := ""
	for _, e := range entries {
		if e.Tag != last {
			if closed[e.Tag] {
				bad[e.Tag] = true
			}
			if last != "" {
				closed[last] = true
			}
			last = e.Tag
		}
	}
	return len(bad)
}

// c06NameClass classifies the registered name of a plugin against the runtime's own
// "<index>-<name>" format ("" for the default name).
func c06NameClass(p *c06Plugin, all []*c06Plugin) string {
	n := p.RegName
	if n == p.Name {
		return ""
	}
	if len(n) >= 4 && validIdx(n[:2]) && n[2] == '-' {
		nn := n[:2]
		switch {
		case nn == p.Idx:
			return "index-prefix-equal"
		}
		lo, hi := nn, p.Idx
		if lo > hi {
			lo, hi = hi, lo
		}
		for _, q := range all {
			if q != p && q.Idx > lo && q.Idx < hi {
				return "index-prefix-straddling-another-plugin"
			}
		}
		if nn < p.Idx {
			return "index-prefix-below"
		}
		return "index-prefix-above"
	}
	if len(n) >= 64 {
		return "long"
	}
	return "other-unusual"
}

func c06MaskClass(ps []*c06Plugin) string {
	if len(ps) == 0 {
		return "none"
	}
	all, single := 0, 0
	for _, p := range ps {
		switch {
		case p.Mask == allMask:
			all++
		case p.Mask&(p.Mask-1) == 0:
			single++
		}
	}
	switch {
	case all == len(ps):
		return "all"
	case single == len(ps):
		return "single"
	}
	return "mixed"
}

// c06RegOrder compares registration order with index order.
func c06RegOrder(ps []*c06Plugin) string {
	if len(ps) < 2 {
		return "single"
	}
	up, down := false, false
	for i := 1; i < len(ps); i++ {
		switch {
		case ps[i-1].Idx < ps[i].Idx:
			up = true
		case ps[i-1].Idx > ps[i].Idx:
			down = true
		}
	}
	switch {
	case up && down:
		return "mixed"
	case up:
		return "sorted"
	case down:
		return "reversed"
	}
	return "equal"
}

// ---- tests -------------------------------------------------------------------------------

func TestProp_C06(t *testing.T) { ev.Run(t, "C06", genC06, runC06) }

// c06SweepCase builds the history "register one plugin per mask, fire all thirteen events".
func c06SweepCase(masks []int32) C06Case {
	c := C06Case{}
	for i, m := range masks {
		// indices spread over the range, neighbours in the batch in descending order
		c.Steps = append(c.Steps, C06Step{Op: "reg", Idx: fmt.Sprintf("%02d", (97-11*i+int(m))%100), Mask: m})
	}
	for e := int32(1); e <= 13; e++ {
		c.Steps = append(c.Steps, C06Step{Op: "req", Event: e})
	}
	return c
}

// TestExh_C06 sweeps the subscription masks: the thorough tier enumerates the empty mask and
// all 8191 non-empty ones (split over the shards), the quick tier a fixed sample. Every
// mask is registered by its own plugin (eight plugins per adaptation), all thirteen events
// are fired and the ordinary C06 oracle compares deliveries with the masks.
func TestExh_C06(t *testing.T) {
	if os.Getenv("VERIF_REPLAY") != "" {
		t.Skip("replay runs TestProp_C06 only")
	}
	r := ev.Get("C06")
	defer r.Flush()
	var masks []int32
	if ev.Thorough() {
		for m := int32(0); m <= allMask; m++ {
			masks = append(masks, m)
		}
	} else {
		seen := map[int32]bool{}
		add := func(m int32) {
			if !seen[m] {
				seen[m] = true
				masks = append(masks, m)
			}
		}
		add(0)
		add(allMask)
		for b := uint(0); b < 13; b++ {
			add(1 << b)
			add(allMask &^ (1 << b))
		}
		for m := int32(3); m < allMask && len(masks) < 200; m += 47 {
			add(m)
		}
	}
	const batch = 8
	si, sn := ev.Shard()
	swept := 0
	for b := 0; b*batch < len(masks); b++ {
		if b%sn != si {
			continue
		}
		lo, hi := b*batch, (b+1)*batch
		if hi > len(masks) {
			hi = len(masks)
		}
		c := c06SweepCase(masks[lo:hi])
		raw := ev.Snapshot(c)
		r.Journal(raw)
		o := runC06(c)
		r.ClearJournal()
		o.Classes = append([]string{"mask-sweep"}, o.Classes...)
		r.Record(raw, o)
		if o.Fail != "" {
			t.Fatalf("C06 mask sweep: %s", o.Fail)
		}
		if !o.Overloaded {
			swept += hi - lo
		}
	}
	r.AddExtra("exhaustive_masks", swept)
	r.SetExtra("exhaustive", false) // only the mask sub-domain is enumerated, and only in the thorough tier
	if ev.Thorough() {
		r.SetExtra("exhaustive_subdomain", "thorough tier: the empty mask and all 8191 non-empty subscription masks, one plugin per mask, all thirteen events fired (exhaustive_masks = 8192 when every shard completed)")
	} else {
		r.SetExtra("exhaustive_subdomain", "quick tier: fixed sample of masks (empty, full, 13 single, 13 all-but-one, stride 47); the complete enumeration runs in the thorough tier")
	}
}
