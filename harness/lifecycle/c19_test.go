package lifecycle

// C19 — unsolicited updates reach the runtime's update callback exactly once, unchanged; the
// callback's failed list (or error) comes back unchanged; the callback never overlaps the
// processing of another request or another unsolicited update; an unstarted stub reports
// ErrNoService instead of blocking.
//
// A case is a plan: 1..4 stub plugins, 1..4 updater goroutines (not plugin handlers) each
// issuing a list of Stub.UpdateContainers calls, 0..4 runtime caller goroutines firing
// lifecycle requests, calls on a never-started stub, and for every call the result the
// runtime's UpdateFn is to return. A plugin may also issue updates at the edges of its
// session: from inside its Configure handler (it is registered by then, its Start() is still
// waiting), from inside its Synchronize handler, from another goroutine while Configure is
// being held (Start() in progress), concurrently with Stop(), and after Stop() returned.
// Plugins marked late register while the updaters and callers are running.

import (
	"context"
	"errors"
	"fmt"
	"io"
	"net"
	"os"
	"sort"
	"strings"
	"sync"
	"sync/atomic"
	"syscall"
	"testing"
	"time"

	"github.com/containerd/nri/pkg/adaptation"
	"github.com/containerd/nri/pkg/api"
	"github.com/containerd/nri/pkg/stub"
	"github.com/containerd/ttrpc"
	"google.golang.org/grpc/codes"
	"google.golang.org/grpc/status"
	"google.golang.org/protobuf/proto"
	"pgregory.net/rapid"

	"nriverif/ev"
	"nriverif/fx"
	"nriverif/gen"
)

type C19Upd struct {
	ID      string              `json:"id"`
	Res     *api.LinuxResources `json:"res,omitempty"`
	NoLinux bool                `json:"no_linux,omitempty"` // the update has no linux section at all
	Ignore  bool                `json:"ignore_failure,omitempty"`
}

// C19Call is one Stub.UpdateContainers call and what UpdateFn answers to it.
type C19Call struct {
	Updates     []C19Upd `json:"updates"`
	Fail        []int    `json:"fail,omitempty"`          // positions of Updates returned as failed, in this order
	Err         string   `json:"err,omitempty"`           // text of the error UpdateFn returns (see ErrForm)
	FailWithErr bool     `json:"fail_with_err,omitempty"` // … together with the failed list
	// ErrForm: "" = no error unless Err is set (then plain); plain = errors.New(Err);
	// status = status.Error(codes.Code(ErrCode), Err), ErrCode 1..16; wrap =
	// fmt.Errorf("<Err>: %w", sentinel); bare = the sentinel itself
	ErrForm     string `json:"err_form,omitempty"`
	ErrCode     int    `json:"err_code,omitempty"`
	ErrSentinel string `json:"err_sentinel,omitempty"`
}

// the errors a transport would produce; coming from the runtime's callback they are just
// the callback's error
var c19Sentinels = map[string]error{
	"context.DeadlineExceeded": context.DeadlineExceeded,
	"context.Canceled":         context.Canceled,
	"io.EOF":                   io.EOF,
	"io.ErrUnexpectedEOF":      io.ErrUnexpectedEOF,
	"io.ErrClosedPipe":         io.ErrClosedPipe,
	"ttrpc.ErrClosed":          ttrpc.ErrClosed,
	"ttrpc.ErrServerClosed":    ttrpc.ErrServerClosed,
	"ttrpc.ErrProtocol":        ttrpc.ErrProtocol,
	"ttrpc.ErrStreamClosed":    ttrpc.ErrStreamClosed,
	"ttrpc.Oversized":          ttrpc.OversizedMessageError(5 << 20),
	"proto.Error":              proto.Error,
	"net.ErrClosed":            net.ErrClosed,
	"os.ErrDeadlineExceeded":   os.ErrDeadlineExceeded,
	"syscall.EPIPE":            syscall.EPIPE,
	"syscall.ECONNRESET":       syscall.ECONNRESET,
	"syscall.ENOMEM":           syscall.ENOMEM,
}

var c19SentinelNames = []string{
	"ttrpc.Oversized", "context.DeadlineExceeded", "ttrpc.ErrClosed", "io.ErrUnexpectedEOF", "proto.Error", "context.Canceled",
	"io.EOF", "ttrpc.ErrProtocol", "ttrpc.ErrServerClosed", "ttrpc.ErrStreamClosed", "io.ErrClosedPipe", "net.ErrClosed",
	"os.ErrDeadlineExceeded", "syscall.EPIPE", "syscall.ECONNRESET", "syscall.ENOMEM",
}

var c19ErrTexts = []string{
	"", "not enough exclusive CPUs", "update failed: no such container", "rpc error: code = Unknown desc = nested",
	"ünïcödé ✗", "%s %d", "EOF", "ttrpc: closed", "context deadline exceeded", "unexpected EOF",
	"message length 5242880 exceed maximum message size of 4194304", "proto: cannot parse invalid wire-format data",
	"resource exhausted", "ttrpc: oversized message",
}

// callbackErr builds the error UpdateFn returns for the call (nil if none) and the status
// message the plugin must be shown.
func (c C19Call) callbackErr() (error, string) {
	if c.ErrForm == "" && c.Err == "" {
		return nil, ""
	}
	return formErr(c.ErrForm, c.ErrCode, c.ErrSentinel, c.Err)
}

// formErr builds an error of the given form and the text its receiver must be shown:
// status = status.Error(code, text); wrap = fmt.Errorf("<text>: %w", sentinel); bare = the
// sentinel itself; anything else = errors.New(text).
func formErr(form string, code int, sentinel, text string) (error, string) {
	switch form {
	case "status":
		c := codes.Code(code)
		if c == codes.OK || c > codes.Unauthenticated {
			c = codes.Unknown
		}
		return status.Error(c, text), text
	case "wrap":
		if s, ok := c19Sentinels[sentinel]; ok {
			e := fmt.Errorf("%s: %w", text, s)
			return e, e.Error()
		}
	case "bare":
		if s, ok := c19Sentinels[sentinel]; ok {
			return s, s.Error()
		}
	}
	return errors.New(text), text
}

func formClass(form string, code int, sentinel string) string {
	switch form {
	case "status":
		c := codes.Code(code)
		if c == codes.OK || c > codes.Unauthenticated {
			c = codes.Unknown
		}
		return "status:" + c.String()
	case "wrap", "bare":
		if _, ok := c19Sentinels[sentinel]; ok {
			return form + ":" + sentinel
		}
	}
	return "plain"
}

func (c C19Call) errClass() string {
	switch c.ErrForm {
	case "status":
		code := codes.Code(c.ErrCode)
		if code == codes.OK || code > codes.Unauthenticated {
			code = codes.Unknown
		}
		return "callback-error:status:" + code.String()
	case "wrap", "bare":
		if _, ok := c19Sentinels[c.ErrSentinel]; ok {
			return "callback-error:" + c.ErrForm + ":" + c.ErrSentinel
		}
	}
	return "callback-error:plain"
}

type C19Updater struct {
	Plugin int       `json:"plugin"` // index into the plugins that are not late (mod)
	Calls  []C19Call `json:"calls"`
}

// C19Plugin is one stub plugin and the update calls it issues at the edges of its session.
type C19Plugin struct {
	Idx  string `json:"idx"`
	Mask int32  `json:"mask,omitempty"` // subscription, 0 = everything
	Late bool   `json:"late,omitempty"` // registers during the concurrent phase instead of before it
	// calls issued from inside the Configure handler (the plugin is registered, Start() waits)
	InConfigure []C19Call `json:"in_configure,omitempty"`
	// calls issued from inside the Synchronize handler
	InSync []C19Call `json:"in_synchronize,omitempty"`
	// calls issued from another goroutine while the Configure handler is held back
	DuringStart []C19Call `json:"during_start,omitempty"`
	// after everything else: one call racing Stop() (Stop follows after the delay), then
	// calls after Stop() returned
	RaceStop        *C19Call  `json:"race_stop,omitempty"`
	RaceStopDelayUs int       `json:"race_stop_delay_us,omitempty"`
	AfterStop       []C19Call `json:"after_stop,omitempty"`
}

// C19FailedStart is a stub whose Start() fails after its connection was set up, followed by
// update calls on that (not started, not registered) stub.
//
//	badidx  the runtime rejects the registration: Idx is not two digits (the runtime keeps
//	        a rejected plugin's connection open)
//	cfgerr  the plugin's own Configure handler fails
//	busy    Start's context expires after CtxMs while the runtime's accept loop is busy
//	        synchronizing another plugin (held back with BlockPluginSync); the calls are
//	        issued while the runtime is still busy
type C19FailedStart struct {
	Mode  string    `json:"mode"`
	Idx   string    `json:"idx,omitempty"`
	CtxMs int       `json:"ctx_ms,omitempty"`
	Calls []C19Call `json:"calls"`
}

// C19Abandon is the "abandoned while queued" shape. Plugin 0 is the holder's plugin, plugin
// 1 is A (not subscribed to the holder's event), the others follow. A first holder occupies
// the runtime for a while: a lifecycle request for Event relayed through the subscribed
// plugins (their handlers take the case's handler time each), or an update of plugin 0 (the
// case's UpdateFn time). QueueDelayMs after it began A issues Call, which has to queue;
// StopDelayMs later A's stub is stopped, so the runtime sees A's request cancelled while it
// is still waiting; OthersDelayMs later Others are issued, one per further plugin, while the
// first holder is still at work.
type C19Abandon struct {
	Holder        string    `json:"holder"` // request | update
	Event         int32     `json:"event,omitempty"`
	HolderCall    C19Call   `json:"holder_call"`
	QueueDelayMs  int       `json:"queue_delay_ms"`
	StopDelayMs   int       `json:"stop_delay_ms"`
	OthersDelayMs int       `json:"others_delay_ms"`
	Call          C19Call   `json:"call"`
	Others        []C19Call `json:"others"`
}

// C19Launched is a pre-installed plugin: an executable <Idx>-lp<n> in the Adaptation's plugin
// path, launched by Adaptation.Start() over a pre-connected socket pair. Once it is
// configured it issues Calls from its main goroutine, DelaysMs[i] before call i.
type C19Launched struct {
	Idx      string    `json:"idx"`
	Calls    []C19Call `json:"calls"`
	DelaysMs []int     `json:"delays_ms,omitempty"`
}

// C19Across is the "calls that never stop" shape: plugin 0 loses its connection and restarts
// the same stub (Stop, Start) Rounds times while an updater goroutine of the plugin keeps
// issuing BgCall every GapUs; after every completed restart (Start returned nil, the plugin
// is synchronized and listed) Call is issued and must go through.
type C19Across struct {
	Rounds int     `json:"rounds"`
	GapUs  int     `json:"gap_us,omitempty"`
	Call   C19Call `json:"call"`
	BgCall C19Call `json:"bg_call"`
}

type C19Case struct {
	Across *C19Across `json:"across,omitempty"`
	// pre-installed plugins (only in cases without restarts: a restart launches them anew)
	Launched []C19Launched `json:"launched,omitempty"`
	// the runtime's life cycle before the plan runs: Stop() before the first Start(), and
	// Restarts stop/start cycles of the same Adaptation object, each preceded by a session of
	// one plugin issuing SessionCall if RestartSessions is set
	PreStop         bool    `json:"pre_stop,omitempty"`
	Restarts        int     `json:"restarts,omitempty"`
	RestartSessions bool    `json:"restart_sessions,omitempty"`
	SessionCall     C19Call `json:"session_call,omitempty"`

	Abandon *C19Abandon `json:"abandon,omitempty"`
	Plugins []C19Plugin `json:"plugins"`
	// executed one after the other once the up-front plugins have registered
	FailedStarts []C19FailedStart `json:"failed_starts,omitempty"`
	Updaters     []C19Updater     `json:"updaters"`
	Callers      [][]int32        `json:"callers,omitempty"`   // lifecycle events per runtime caller goroutine
	Unstarted    []C19Call        `json:"unstarted,omitempty"` // calls on a stub that was never started
	SpinUpdUs    int              `json:"spin_update_us,omitempty"`
	SpinHdlUs    int              `json:"spin_handler_us,omitempty"`
	// what UpdateFn answers to an empty update list (those calls carry no tag):
	// 0 nothing, 1 one marker update as failed, 2 an error
	EmptyMode int `json:"empty_mode,omitempty"`
	// RequestTimeoutMs > 0: the plugin request timeout (adaptation.SetPluginRequestTimeout) is
	// set to this value while the updaters and callers run ("queue" shapes: updates wait for
	// the adaptation lock longer than the timeout although nobody exceeds it)
	RequestTimeoutMs int `json:"request_timeout_ms,omitempty"`
	// the updaters start this long after the callers
	UpdaterDelayUs int `json:"updater_delay_us,omitempty"`
}

const (
	c19EmptyErr    = "no updates given"
	c19EmptyMarker = "empty-list-marker"
)

// ---- generator ---------------------------------------------------------------------------

func genC19Upd() *rapid.Generator[C19Upd] {
	return rapid.Custom(func(t *rapid.T) C19Upd {
		u := C19Upd{ID: rapid.StringMatching(`[a-z0-9]{1,6}`).Draw(t, "id"), Ignore: rapid.Bool().Draw(t, "ignore")}
		switch rapid.IntRange(0, 9).Draw(t, "shape") {
		case 0:
			u.NoLinux = true
		case 1, 2:
			u.Res = &api.LinuxResources{Cpu: &api.LinuxCPU{Shares: api.UInt64(rapid.Uint64Range(0, 4096).Draw(t, "shares"))}}
		default:
			u.Res = gen.NRIResources().Draw(t, "res")
		}
		return u
	})
}

func genC19Call(allowEmpty bool) *rapid.Generator[C19Call] {
	return rapid.Custom(func(t *rapid.T) C19Call {
		lo := 1
		if allowEmpty && rapid.IntRange(0, 7).Draw(t, "empty") == 0 {
			return C19Call{Updates: []C19Upd{}}
		}
		c := C19Call{Updates: rapid.SliceOfN(genC19Upd(), lo, 6).Draw(t, "updates")}
		n := len(c.Updates)
		switch rapid.IntRange(0, 9).Draw(t, "failed") {
		case 0, 1, 2: // nothing failed
		case 3: // everything failed, in order
			for i := 0; i < n; i++ {
				c.Fail = append(c.Fail, i)
			}
		default: // a drawn sub-list in drawn order
			c.Fail = rapid.SliceOfNDistinct(rapid.IntRange(0, n-1), 1, n, rapid.ID[int]).Draw(t, "fail")
		}
		if rapid.IntRange(0, 2).Draw(t, "err") == 0 {
			c.Err = rapid.OneOf(
				rapid.StringMatching(`[a-zA-Z0-9][a-zA-Z0-9 _.:/=-]{0,30}`),
				rapid.SampledFrom(c19ErrTexts),
			).Draw(t, "err_text")
			switch k := rapid.IntRange(0, 9).Draw(t, "err_form"); {
			case k < 3:
				c.ErrForm = "plain"
			case k < 7:
				c.ErrForm = "status"
				c.ErrCode = rapid.SampledFrom([]int{8, 1, 2, 3, 4, 5, 6, 7, 8, 9, 10, 11, 12, 13, 14, 15, 16}).Draw(t, "err_code")
			case k < 9:
				c.ErrForm = "wrap"
				c.ErrSentinel = rapid.SampledFrom(c19SentinelNames).Draw(t, "err_sentinel")
			default:
				c.ErrForm = "bare"
				c.ErrSentinel = rapid.SampledFrom(c19SentinelNames).Draw(t, "err_sentinel")
			}
			c.FailWithErr = rapid.Bool().Draw(t, "fail_with_err")
		}
		return c
	})
}

// genC19Queue draws a case in which an update has to wait for the adaptation lock for longer
// than the (shortened) plugin request timeout while every single party stays well within it:
// "updates": k plugins update at the same moment and UpdateFn takes hold ms, so the last
// one waits (k-1)*hold >= timeout+150 ms; "request": a lifecycle request is relayed through
// k plugins whose handlers take hold ms each (k*hold >= timeout+150 ms) and updates are
// issued 30 ms after it began.
func genC19Queue(t *rapid.T) C19Case {
	timeout := rapid.SampledFrom([]int{300, 400, 500}).Draw(t, "timeout_ms")
	maxHold := timeout * 6 / 10
	if maxHold > 250 {
		maxHold = 250
	}
	hold := rapid.IntRange(150, maxHold).Draw(t, "hold_ms")
	need := (timeout + 150 + hold - 1) / hold
	c := C19Case{RequestTimeoutMs: timeout, EmptyMode: rapid.IntRange(0, 2).Draw(t, "empty_mode")}
	if rapid.Bool().Draw(t, "queue_behind_updates") {
		k := need + 1
		c.SpinUpdUs = hold * 1000
		for i := 0; i < k; i++ {
			c.Plugins = append(c.Plugins, C19Plugin{Idx: fmt.Sprintf("%02d", rapid.IntRange(0, 99).Draw(t, "idx"))})
			c.Updaters = append(c.Updaters, C19Updater{Plugin: i, Calls: []C19Call{genC19Call(false).Draw(t, "call")}})
		}
		return c
	}
	k := need
	if k < 3 {
		k = 3
	}
	c.SpinHdlUs = hold * 1000
	c.UpdaterDelayUs = 30000
	for i := 0; i < k; i++ {
		c.Plugins = append(c.Plugins, C19Plugin{Idx: fmt.Sprintf("%02d", rapid.IntRange(0, 99).Draw(t, "idx"))})
	}
	c.Callers = [][]int32{{rapid.SampledFrom([]int32{4, 4, 8, 10, 1, 6, 12}).Draw(t, "event")}}
	nu := rapid.IntRange(1, 2).Draw(t, "updaters")
	for i := 0; i < nu; i++ {
		c.Updaters = append(c.Updaters, C19Updater{Plugin: rapid.IntRange(0, k-1).Draw(t, "updater_plugin"), Calls: []C19Call{genC19Call(false).Draw(t, "call")}})
	}
	return c
}

// genC19Abandon draws an "abandoned while queued" case (see C19Abandon).
func genC19Abandon(t *rapid.T) C19Case {
	ab := &C19Abandon{
		QueueDelayMs:  rapid.IntRange(15, 40).Draw(t, "queue_delay_ms"),
		StopDelayMs:   rapid.IntRange(15, 50).Draw(t, "stop_delay_ms"),
		OthersDelayMs: rapid.IntRange(15, 50).Draw(t, "others_delay_ms"),
		Call:          genC19Call(false).Draw(t, "abandoned_call"),
		HolderCall:    genC19Call(false).Draw(t, "holder_call"),
	}
	c := C19Case{Abandon: ab, EmptyMode: rapid.IntRange(0, 2).Draw(t, "empty_mode")}
	k := rapid.IntRange(3, 4).Draw(t, "plugins")
	for i := 0; i < k; i++ {
		p := C19Plugin{Idx: fmt.Sprintf("%02d", rapid.IntRange(0, 99).Draw(t, "idx"))}
		if i == 1 {
			p.Mask = 1 << 2 // RemovePodSandbox only: never part of the holder's request
		}
		c.Plugins = append(c.Plugins, p)
	}
	ab.Others = rapid.SliceOfN(genC19Call(false), 1, 2).Draw(t, "other_calls")
	if rapid.Bool().Draw(t, "holder_is_request") {
		ab.Holder = "request"
		ab.Event = rapid.SampledFrom([]int32{4, 8, 10, 1, 6, 12, 13}).Draw(t, "event")
		// k-1 handlers in a row: at least 2 x 150 ms against at most 140 ms of delays
		c.SpinHdlUs = rapid.IntRange(150, 250).Draw(t, "hold_ms") * 1000
	} else {
		ab.Holder = "update"
		c.SpinUpdUs = rapid.IntRange(300, 400).Draw(t, "hold_ms") * 1000
	}
	return c
}

// c19Flood builds a "flood" case: n update calls of ONE plugin (plugin 0) are pending at
// the same time, released together 20 ms after a first holder took the adaptation lock —
// a lifecycle request relayed through both plugins whose handlers take holdMs each
// (byRequest), or otherwise simply the first of the updates, UpdateFn taking holdMs per call.
func c19Flood(n int, byRequest bool, holdMs int, event int32, idx [2]string, calls []C19Call) C19Case {
	c := C19Case{Plugins: []C19Plugin{{Idx: idx[0]}, {Idx: idx[1]}}}
	if byRequest {
		c.Callers = [][]int32{{event}}
		c.SpinHdlUs = holdMs * 1000
		c.UpdaterDelayUs = 20000
	} else {
		c.SpinUpdUs = holdMs * 1000
	}
	for i := 0; i < n; i++ {
		c.Updaters = append(c.Updaters, C19Updater{Plugin: 0, Calls: []C19Call{calls[i%len(calls)]}})
	}
	return c
}

func genC19Flood(t *rapid.T) C19Case {
	n := rapid.SampledFrom([]int{17, 17, 18, 20, 24, 32, 40}).Draw(t, "pending")
	byRequest := rapid.Bool().Draw(t, "behind_request")
	hold := rapid.IntRange(100, 200).Draw(t, "hold_ms")
	if !byRequest {
		hold = rapid.IntRange(10, 30).Draw(t, "hold_ms_update")
	}
	idx := [2]string{fmt.Sprintf("%02d", rapid.IntRange(0, 99).Draw(t, "idx")), fmt.Sprintf("%02d", rapid.IntRange(0, 99).Draw(t, "idx"))}
	calls := rapid.SliceOfN(genC19Call(false), 1, 4).Draw(t, "calls")
	return c19Flood(n, byRequest, hold, rapid.SampledFrom([]int32{4, 8, 10, 1, 6, 12}).Draw(t, "event"), idx, calls)
}

func c19AcrossCase(rounds, gapUs int, idx string, call, bg C19Call, second bool) C19Case {
	c := C19Case{Across: &C19Across{Rounds: rounds, GapUs: gapUs, Call: call, BgCall: bg}, Plugins: []C19Plugin{{Idx: idx}}}
	if second {
		c.Plugins = append(c.Plugins, C19Plugin{Idx: "50"})
	}
	return c
}

func genC19Across(t *rapid.T) C19Case {
	return c19AcrossCase(rapid.IntRange(10, 20).Draw(t, "rounds"), rapid.SampledFrom([]int{0, 0, 50, 200, 1000}).Draw(t, "gap_us"),
		fmt.Sprintf("%02d", rapid.IntRange(0, 99).Draw(t, "idx")), genC19Call(false).Draw(t, "call"), genC19Call(false).Draw(t, "bg_call"),
		rapid.Bool().Draw(t, "second_plugin"))
}

func genC19(t *rapid.T) C19Case {
	switch rapid.IntRange(0, 24).Draw(t, "shape") {
	case 18, 19:
		return genC19Across(t)
	case 20:
		return genC19Flood(t)
	case 24:
		return genC19Queue(t)
	case 21, 22, 23:
		return genC19Abandon(t)
	}
	c := C19Case{
		SpinUpdUs: rapid.SampledFrom([]int{0, 100, 500, 500, 1000, 2000}).Draw(t, "spin_update_us"),
		SpinHdlUs: rapid.SampledFrom([]int{0, 100, 500, 500, 1000, 2000}).Draw(t, "spin_handler_us"),
		EmptyMode: rapid.IntRange(0, 2).Draw(t, "empty_mode"),
	}
	np := rapid.IntRange(1, 4).Draw(t, "plugins")
	early := 0
	for i := 0; i < np; i++ {
		p := C19Plugin{Idx: fmt.Sprintf("%02d", rapid.IntRange(0, 99).Draw(t, "idx"))}
		if i > 0 && rapid.IntRange(0, 9).Draw(t, "late") < 3 {
			p.Late = true
		} else {
			early++
		}
		if rapid.IntRange(0, 9).Draw(t, "in_configure") < 3 {
			p.InConfigure = rapid.SliceOfN(genC19Call(true), 1, 2).Draw(t, "in_configure_calls")
		}
		if rapid.IntRange(0, 9).Draw(t, "in_sync") < 3 {
			p.InSync = rapid.SliceOfN(genC19Call(true), 1, 2).Draw(t, "in_sync_calls")
		}
		if rapid.IntRange(0, 9).Draw(t, "during_start") < 3 {
			p.DuringStart = rapid.SliceOfN(genC19Call(false), 1, 2).Draw(t, "during_start_calls")
		}
		if rapid.IntRange(0, 9).Draw(t, "race_stop") < 2 {
			call := genC19Call(false).Draw(t, "race_stop_call")
			p.RaceStop = &call
			p.RaceStopDelayUs = rapid.SampledFrom([]int{0, 0, 50, 200, 1000}).Draw(t, "race_stop_delay_us")
		}
		if rapid.IntRange(0, 9).Draw(t, "after_stop") < 2 {
			p.AfterStop = rapid.SliceOfN(genC19Call(false), 1, 2).Draw(t, "after_stop_calls")
		}
		c.Plugins = append(c.Plugins, p)
	}
	nu := rapid.IntRange(1, 4).Draw(t, "updaters")
	for i := 0; i < nu; i++ {
		c.Updaters = append(c.Updaters, C19Updater{
			Plugin: rapid.IntRange(0, early-1).Draw(t, "updater_plugin"),
			Calls:  rapid.SliceOfN(genC19Call(true), 1, 4).Draw(t, "calls"),
		})
	}
	nc := rapid.SampledFrom([]int{0, 1, 2, 2, 3, 4}).Draw(t, "callers")
	for i := 0; i < nc; i++ {
		c.Callers = append(c.Callers, rapid.SliceOfN(rapid.Int32Range(1, 13), 1, 5).Draw(t, "events"))
	}
	if rapid.IntRange(0, 2).Draw(t, "unstarted") == 0 {
		c.Unstarted = rapid.SliceOfN(genC19Call(true), 1, 2).Draw(t, "unstarted_calls")
	}
	c.PreStop = rapid.IntRange(0, 9).Draw(t, "pre_stop") == 9
	c.Restarts = rapid.SampledFrom([]int{0, 0, 0, 0, 0, 1, 1, 2}).Draw(t, "restarts")
	if c.Restarts > 0 {
		c.RestartSessions = rapid.Bool().Draw(t, "restart_sessions")
		if c.RestartSessions {
			c.SessionCall = genC19Call(false).Draw(t, "session_call")
		}
	}
	if c.Restarts == 0 && rapid.IntRange(0, 9).Draw(t, "launched") < 2 {
		nl := rapid.IntRange(1, 2).Draw(t, "launched_plugins")
		for i := 0; i < nl; i++ {
			l := C19Launched{Idx: fmt.Sprintf("%02d", rapid.IntRange(0, 99).Draw(t, "launched_idx")),
				Calls: rapid.SliceOfN(genC19Call(false), 1, 3).Draw(t, "launched_calls")}
			for range l.Calls {
				l.DelaysMs = append(l.DelaysMs, rapid.SampledFrom([]int{0, 0, 5, 20, 50}).Draw(t, "launched_delay_ms"))
			}
			c.Launched = append(c.Launched, l)
		}
	}
	nf := rapid.SampledFrom([]int{0, 0, 0, 1, 1, 2}).Draw(t, "failed_starts")
	for i := 0; i < nf; i++ {
		fs := C19FailedStart{Calls: rapid.SliceOfN(genC19Call(false), 1, 2).Draw(t, "failed_start_calls")}
		switch k := rapid.IntRange(0, 9).Draw(t, "failed_start_mode"); {
		case k < 5:
			fs.Mode = "badidx"
			fs.Idx = rapid.SampledFrom([]string{"x1", "1x", "1", "123", "-1", "ab", "0 ", "٠١"}).Draw(t, "bad_idx")
		case k < 7:
			fs.Mode = "cfgerr"
		default:
			fs.Mode = "busy"
			fs.CtxMs = rapid.SampledFrom([]int{50, 100, 200, 300}).Draw(t, "ctx_ms")
		}
		c.FailedStarts = append(c.FailedStarts, fs)
	}
	return c
}

// ---- execution ---------------------------------------------------------------------------

func c19Build(tag string, us []C19Upd) []*api.ContainerUpdate {
	out := make([]*api.ContainerUpdate, 0, len(us))
	for _, u := range us {
		m := &api.ContainerUpdate{ContainerId: tag + "/" + u.ID, IgnoreFailure: u.Ignore}
		if !u.NoLinux {
			m.Linux = &api.LinuxContainerUpdate{}
			if u.Res != nil {
				m.Linux.Resources = proto.Clone(u.Res).(*api.LinuxResources)
			}
		}
		out = append(out, m)
	}
	return out
}

func c19Failed(tag string, c C19Call) []*api.ContainerUpdate {
	var sel []C19Upd
	for _, i := range c.Fail {
		if i >= 0 && i < len(c.Updates) {
			sel = append(sel, c.Updates[i])
		}
	}
	return c19Build(tag, sel)
}

// c19Seen is one invocation of the runtime's UpdateFn.
type c19Seen struct {
	Seq  int64                  `json:"seq"`
	Tag  string                 `json:"tag"`
	N    int                    `json:"n"`
	Args []*api.ContainerUpdate `json:"-"`
	IDs  []string               `json:"ids,omitempty"`
}

// c19Issued is one Stub.UpdateContainers call as the issuing goroutine saw it.
type c19Issued struct {
	Tag       string   `json:"tag,omitempty"` // "" for empty lists
	Kind      string   `json:"kind"`          // updater | unstarted | configure | synchronize | starting | racestop | afterstop
	Where     string   `json:"where"`
	Mode      string   `json:"mode,omitempty"` // failedstart: how Start() failed
	Plugin    string   `json:"plugin"`
	Start     int64    `json:"start"`
	End       int64    `json:"end"`
	N         int      `json:"n"`
	Err       string   `json:"err,omitempty"`
	ErrMsg    string   `json:"err_msg,omitempty"`
	FailedIDs []string `json:"failed_ids,omitempty"`
	Panic     string   `json:"panic,omitempty"`
	Blocked   bool     `json:"blocked,omitempty"`
	NoService bool     `json:"no_service,omitempty"`

	call   C19Call
	sent   []*api.ContainerUpdate
	failed []*api.ContainerUpdate
	err    error
}

type c19Span struct {
	Tag   string `json:"tag"`
	Start int64  `json:"start"`
	End   int64  `json:"end"`
	Err   string `json:"err,omitempty"`
}

type c19Reg struct {
	Name     string `json:"name"`
	Idx      string `json:"idx"`
	Late     bool   `json:"late,omitempty"`
	StartErr string `json:"start_err,omitempty"`
	Refused  bool   `json:"refused,omitempty"`
	TimedOut bool   `json:"timed_out,omitempty"`
}

type c19FS struct {
	Mode     string `json:"mode"`
	StartErr string `json:"start_err,omitempty"`
	Started  bool   `json:"started,omitempty"` // Start() succeeded against expectation: not judged
	Skipped  string `json:"skipped,omitempty"`
}

// c19AbMarks are the sequence marks of an abandon shape.
type c19AbMarks struct {
	HolderStart int64   `json:"holder_start"`
	HolderEnd   int64   `json:"holder_end"`
	Queued      int64   `json:"queued"`
	StopBegin   int64   `json:"stop_begin"`
	StopEnd     int64   `json:"stop_end"`
	Others      []int64 `json:"others"`
}

// c19AcrossMarks: round i stopped the stub at StopBegin[i] and was registered again at Ready[i].
type c19AcrossMarks struct {
	StopBegin []int64 `json:"stop_begin"`
	Ready     []int64 `json:"ready"`
	End       int64   `json:"end"`
}

type c19Hist struct {
	Across          *c19AcrossMarks `json:"across,omitempty"`
	LaunchedTrouble string          `json:"launched_trouble,omitempty"`
	Abandon         *c19AbMarks     `json:"abandon,omitempty"`
	FailedStarts    []c19FS         `json:"failed_starts,omitempty"`
	Plugins         []*c19Reg       `json:"plugins"`
	Seen            []c19Seen       `json:"update_fn_calls"`
	Issued          []*c19Issued    `json:"issued"`
	Requests        []c19Span       `json:"requests"`
	Overlaps        []string        `json:"overlaps,omitempty"`
	Handlers        int             `json:"handler_invocations"`
}

var c19CaseCtr atomic.Int64

type c19Exec struct {
	c   C19Case
	rt  *lcRuntime
	no  int64
	ctr atomic.Int64

	mu              sync.Mutex
	plans           map[string]C19Call
	seen            []c19Seen
	issued          []*c19Issued
	spans           []c19Span
	overlaps        []string
	inUpdate        int
	acMarks         *c19AcrossMarks
	probeTag        string
	probeHits       int
	fstarts         []c19FS
	launchedTrouble string
	abMarks         *c19AbMarks
	extra           []*fx.Plugin // helper and failed-start plugins, stopped at the end
	inHandler       int
	handlers        int
	curUpd          string
	curHdl          string
}

func (x *c19Exec) updateFn(_ context.Context, u []*api.ContainerUpdate) ([]*api.ContainerUpdate, error) {
	tag := ""
	if len(u) > 0 {
		tag, _, _ = strings.Cut(u[0].GetContainerId(), "/")
	}
	rec := c19Seen{Tag: tag, N: len(u)}
	for _, m := range u {
		rec.Args = append(rec.Args, proto.Clone(m).(*api.ContainerUpdate))
		rec.IDs = append(rec.IDs, m.GetContainerId())
	}
	x.mu.Lock()
	rec.Seq = x.ctr.Add(1)
	if x.inHandler > 0 {
		x.overlaps = append(x.overlaps, fmt.Sprintf("UpdateFn for %q was entered (mark %d) while plugin handler %s was running", tag, rec.Seq, x.curHdl))
	}
	if x.inUpdate > 0 {
		x.overlaps = append(x.overlaps, fmt.Sprintf("UpdateFn for %q was entered (mark %d) while UpdateFn for %q was running", tag, rec.Seq, x.curUpd))
	}
	x.inUpdate++
	x.curUpd = tag
	x.seen = append(x.seen, rec)
	plan, planned := x.plans[tag]
	x.mu.Unlock()

	if x.c.SpinUpdUs > 0 {
		time.Sleep(time.Duration(x.c.SpinUpdUs) * time.Microsecond)
	}

	x.mu.Lock()
	x.inUpdate--
	x.mu.Unlock()

	if len(u) == 0 {
		switch x.c.EmptyMode {
		case 1:
			return []*api.ContainerUpdate{{ContainerId: c19EmptyMarker}}, nil
		case 2:
			return nil, errors.New(c19EmptyErr)
		}
		return nil, nil
	}
	if !planned {
		return nil, nil
	}
	failed := c19Failed(tag, plan)
	err, _ := plan.callbackErr()
	if err != nil && !plan.FailWithErr {
		failed = nil
	}
	return failed, err
}

// handler brackets every lifecycle handler of every plugin.
func (x *c19Exec) handler(name, what, tag string) {
	x.mu.Lock()
	x.handlers++
	if x.inUpdate > 0 {
		x.overlaps = append(x.overlaps, fmt.Sprintf("handler %s/%s for %s was entered (mark %d) while UpdateFn for %q was running", name, what, tag, x.ctr.Add(1), x.curUpd))
	}
	x.inHandler++
	x.curHdl = name + "/" + what + " for " + tag
	probing := x.probeTag != "" && tag == x.probeTag
	if probing {
		x.probeHits++
	}
	x.mu.Unlock()
	if x.c.SpinHdlUs > 0 && !probing {
		time.Sleep(time.Duration(x.c.SpinHdlUs) * time.Microsecond)
	}
	x.mu.Lock()
	x.inHandler--
	x.mu.Unlock()
}

const (
	kUpdater     = "updater"
	kUnstarted   = "unstarted"
	kConfigure   = "configure"
	kSync        = "synchronize"
	kStarting    = "starting"
	kRaceStop    = "racestop"
	kAfterStop   = "afterstop"
	kFailedStart = "failedstart"
	kAbandoned   = "abandoned"
	kLaunched    = "launched"
	kAcross      = "across"
)

// c19Live is a connected plugin.
type c19Live struct {
	spec   C19Plugin
	reg    *c19Reg
	p      *fx.Plugin
	ok     bool
	synced chan struct{}
}

func (x *c19Exec) newPlugin(i int, spec C19Plugin) (*c19Live, chan struct{}, chan struct{}) {
	name := fmt.Sprintf("q%d", i)
	synced, closed := make(chan struct{}, 1), make(chan struct{}, 1)
	p := &fx.Plugin{Name: name, Idx: spec.Idx}
	l := &c19Live{spec: spec, p: p, reg: &c19Reg{Name: name, Idx: spec.Idx, Late: spec.Late}}
	p.OnConfigure = func(context.Context, string, string, string) (api.EventMask, error) {
		// the plugin has registered; its Start() is waiting for this handler to return
		for ci, call := range spec.InConfigure {
			x.issue(p.Stub, name, kConfigure, fmt.Sprintf("g%dc%d", i, ci), call, (i+ci)%2 == 0)
		}
		if len(spec.DuringStart) > 0 {
			done := make(chan struct{})
			go func() { // another goroutine, while this handler holds Configure (and thereby Start) back
				defer close(done)
				for ci, call := range spec.DuringStart {
					x.issue(p.Stub, name, kStarting, fmt.Sprintf("d%dc%d", i, ci), call, false)
				}
			}()
			<-done // every call has its own watchdog
		}
		return api.EventMask(spec.Mask), nil
	}
	p.OnSynchronize = func(context.Context, []*api.PodSandbox, []*api.Container) ([]*api.ContainerUpdate, error) {
		select {
		case synced <- struct{}{}:
		default:
		}
		for ci, call := range spec.InSync {
			x.issue(p.Stub, name, kSync, fmt.Sprintf("y%dc%d", i, ci), call, (i+ci)%2 == 1)
		}
		return nil, nil
	}
	p.OnClose = func() {
		select {
		case closed <- struct{}{}:
		default:
		}
	}
	p.OnCreate = func(_ context.Context, pod *api.PodSandbox, ct *api.Container) (*api.ContainerAdjustment, []*api.ContainerUpdate, error) {
		x.handler(name, "CreateContainer", tagOf(pod, ct))
		return nil, nil, nil
	}
	p.OnUpdate = func(_ context.Context, pod *api.PodSandbox, ct *api.Container, _ *api.LinuxResources) ([]*api.ContainerUpdate, error) {
		x.handler(name, "UpdateContainer", tagOf(pod, ct))
		return nil, nil
	}
	p.OnStop = func(_ context.Context, pod *api.PodSandbox, ct *api.Container) ([]*api.ContainerUpdate, error) {
		x.handler(name, "StopContainer", tagOf(pod, ct))
		return nil, nil
	}
	p.OnUpdatePod = func(_ context.Context, pod *api.PodSandbox, _, _ *api.LinuxResources) error {
		x.handler(name, "UpdatePodSandbox", tagOf(pod, nil))
		return nil
	}
	p.OnEvent = func(_ context.Context, e api.Event, pod *api.PodSandbox, ct *api.Container) error {
		x.handler(name, evName(int32(e)), tagOf(pod, ct))
		return nil
	}
	return l, synced, closed
}

func (x *c19Exec) connect(i int, spec C19Plugin) *c19Live {
	l, synced, closed := x.newPlugin(i, spec)
	l.synced = synced
	cn := connectAndWait(x.rt, l.p, synced, closed, false)
	l.reg.StartErr, l.reg.Refused, l.reg.TimedOut = shortErr(cn.startErr), cn.refused, cn.timedOut
	l.ok = cn.startErr == nil && !cn.refused && !cn.timedOut
	return l
}

// failedStart runs one C19FailedStart; it returns false if the fixture broke.
func (x *c19Exec) failedStart(fi int, fs C19FailedStart) bool {
	rec := c19FS{Mode: fs.Mode}
	defer func() {
		x.mu.Lock()
		x.fstarts = append(x.fstarts, rec)
		x.mu.Unlock()
	}()
	l, _, _ := x.newPlugin(200+fi, C19Plugin{Idx: "60"})
	ctx := context.Background()
	var unblock func() bool
	switch fs.Mode {
	case "badidx":
		if validIdx(fs.Idx) || fs.Idx == "" {
			rec.Skipped = "index is valid"
			return true
		}
		l.p.Idx = fs.Idx
	case "cfgerr":
		l.p.OnConfigure = func(context.Context, string, string, string) (api.EventMask, error) {
			return 0, errors.New("configuration refused by the plugin")
		}
	case "busy":
		if fs.CtxMs < 10 || fs.CtxMs > 2000 {
			rec.Skipped = "context timeout out of range"
			return true
		}
		// keep the accept loop busy: a helper plugin gets configured, then its
		// synchronization waits for the block to be lifted
		b := x.rt.A.BlockPluginSync()
		h, synced, closed := x.newPlugin(100+fi, C19Plugin{Idx: "55"})
		entered := make(chan struct{})
		h.p.OnConfigure = func(context.Context, string, string, string) (api.EventMask, error) {
			close(entered)
			return 0, nil
		}
		x.extra = append(x.extra, h.p)
		res := make(chan connection, 1)
		go func() { res <- connectAndWait(x.rt, h.p, synced, closed, false) }()
		unblock = func() bool {
			b.Unblock()
			cn := <-res
			return cn.startErr == nil && !cn.refused && !cn.timedOut
		}
		select {
		case <-entered:
		case <-time.After(20 * time.Second):
			unblock()
			rec.Skipped = "helper plugin was not configured"
			return false
		}
		var cancel context.CancelFunc
		ctx, cancel = context.WithTimeout(ctx, time.Duration(fs.CtxMs)*time.Millisecond)
		defer cancel()
	default:
		rec.Skipped = "unknown mode"
		return true
	}
	x.extra = append(x.extra, l.p)
	if err := l.p.NewStub(x.rt.Socket, nil); err != nil {
		rec.Skipped = "stub: " + shortErr(err)
		if unblock != nil {
			unblock()
		}
		return false
	}
	err := l.p.Stub.Start(ctx)
	rec.StartErr = shortErr(err)
	if err == nil {
		rec.Started = true // not this property's finding; no calls
	} else {
		for ci, call := range fs.Calls {
			x.issueMode(l.p.Stub, l.p.Name, kFailedStart, fs.Mode, fmt.Sprintf("f%dc%d", fi, ci), call, false)
		}
	}
	if unblock != nil {
		ok := unblock()
		// a call that ran into the watchdog while the runtime was busy: give it a moment now
		// that the runtime is idle, so that the history shows whether it reaches the callback
		prefix := fmt.Sprintf("k%df%dc", x.no, fi)
		deadline := time.Now().Add(2 * time.Second)
		for time.Now().Before(deadline) {
			x.mu.Lock()
			blocked, arrived := false, false
			for _, is := range x.issued {
				if is.Kind == kFailedStart && is.Blocked && strings.HasPrefix(is.Tag, prefix) {
					blocked = true
				}
			}
			for _, sn := range x.seen {
				if strings.HasPrefix(sn.Tag, prefix) {
					arrived = true
				}
			}
			x.mu.Unlock()
			if !blocked || arrived {
				break
			}
			time.Sleep(5 * time.Millisecond)
		}
		return ok
	}
	return true
}

func (x *c19Exec) issue(s stub.Stub, plugin, kind, where string, call C19Call, nilForEmpty bool) {
	x.issueMode(s, plugin, kind, "", where, call, nilForEmpty)
}

// issueMode performs one UpdateContainers call on s. Every kind but the plain updaters' runs
// under a 10 s watchdog (the call is abandoned, not cancelled, when it trips).
func (x *c19Exec) issueMode(s stub.Stub, plugin, kind, mode, where string, call C19Call, nilForEmpty bool) {
	is := &c19Issued{Kind: kind, Mode: mode, Where: where, Plugin: plugin, N: len(call.Updates), call: call}
	if len(call.Updates) > 0 {
		is.Tag = fmt.Sprintf("k%d%s", x.no, where)
	}
	is.sent = c19Build(is.Tag, call.Updates)
	arg := make([]*api.ContainerUpdate, len(is.sent))
	for i, m := range is.sent {
		arg[i] = proto.Clone(m).(*api.ContainerUpdate)
	}
	if len(arg) == 0 && nilForEmpty {
		arg = nil // nil and empty lists are both "no updates"
	}
	x.mu.Lock()
	if is.Tag != "" && kind != kUnstarted && kind != kFailedStart {
		x.plans[is.Tag] = call
	}
	x.issued = append(x.issued, is)
	x.mu.Unlock()

	type result struct {
		failed []*api.ContainerUpdate
		err    error
		pan    string
	}
	ch := make(chan result, 1)
	is.Start = x.ctr.Add(1)
	go func() {
		var r result
		defer func() {
			if p := recover(); p != nil {
				r.pan = fmt.Sprint(p)
			}
			ch <- r
		}()
		r.failed, r.err = s.UpdateContainers(arg)
	}()
	var r result
	if kind == kUpdater {
		r = <-ch
	} else {
		select {
		case r = <-ch:
		case <-time.After(10 * time.Second):
			is.End = x.ctr.Add(1)
			is.Blocked = true
			return
		}
	}
	is.End = x.ctr.Add(1)
	is.failed, is.err, is.Panic = r.failed, r.err, r.pan
	is.Err = shortErr(r.err)
	if r.err != nil {
		is.ErrMsg = status.Convert(r.err).Message()
		is.NoService = errors.Is(r.err, stub.ErrNoService)
	}
	for _, m := range r.failed {
		is.FailedIDs = append(is.FailedIDs, m.GetContainerId())
	}
}

// runC19 executes the plan. Verdicts that hinge on time are confirmed by re-executing the
// same case: a tripped 10 s watchdog is a violation only if it trips in three executions in
// a row; a call made while Start() was in progress (from the Configure handler, or beside
// it) that was not delivered is a violation only if that happens twice in a row — on a
// healthy tree it takes the stub's own 5 s start timer firing during a millisecond
// operation. If a re-execution passes, the case counts as overloaded.
func runC19(c C19Case) ev.Outcome {
	// a verdict that took several executions (tens of seconds) to confirm is remembered for
	// the identical case: rapid re-runs the final failing case once more to report it
	key := string(ev.Snapshot(c))
	c19Confirmed.Lock()
	o, ok := c19Confirmed.m[key]
	c19Confirmed.Unlock()
	if ok {
		return o
	}
	for attempt := 1; ; attempt++ {
		var need int
		o, need = runC19Once(c)
		if o.Fail == "" {
			if attempt > 1 {
				return ev.Outcome{Overloaded: true, Classes: []string{"time-clause-not-confirmed"}, History: o.History}
			}
			return o
		}
		if attempt >= need {
			if need > 1 {
				c19Confirmed.Lock()
				c19Confirmed.m[key] = o
				c19Confirmed.Unlock()
			}
			return o
		}
	}
}

var c19Confirmed = struct {
	sync.Mutex
	m map[string]ev.Outcome
}{m: map[string]ev.Outcome{}}

func runC19Once(c C19Case) (ev.Outcome, int) {
	if len(c.Plugins) == 0 || len(c.Plugins) > 8 {
		return ev.Outcome{Excluded: "plugin-count-out-of-domain"}, 1
	}
	var earlyIdx []int
	for i, p := range c.Plugins {
		if !validIdx(p.Idx) {
			return ev.Outcome{Excluded: "invalid-index"}, 1
		}
		if !p.Late {
			earlyIdx = append(earlyIdx, i)
		}
	}
	if len(earlyIdx) == 0 {
		return ev.Outcome{Excluded: "no-plugin-registered-up-front"}, 1
	}
	x := &c19Exec{c: c, no: c19CaseCtr.Add(1), plans: map[string]C19Call{}}
	// pre-installed plugins: installed into the plugin path before the Adaptation starts
	type launched struct {
		name   string
		issued []*c19Issued
	}
	var lps []launched
	setup := func(dir string) error {
		if c.Restarts > 0 {
			return nil
		}
		for li, l := range c.Launched {
			if !validIdx(l.Idx) || li >= 4 {
				continue
			}
			lp := launched{name: fmt.Sprintf("%s-lp%d", l.Idx, li)}
			var plan lpPlan
			for ci, call := range l.Calls {
				if len(call.Updates) == 0 || ci >= 8 {
					continue
				}
				is := &c19Issued{Kind: kLaunched, Where: fmt.Sprintf("l%dc%d", li, ci), Plugin: lp.name, N: len(call.Updates), call: call}
				is.Tag = fmt.Sprintf("k%d%s", x.no, is.Where)
				is.sent = c19Build(is.Tag, call.Updates)
				req, err := proto.Marshal(&api.UpdateContainersRequest{Update: is.sent})
				if err != nil {
					return err
				}
				d := 0
				if ci < len(l.DelaysMs) && l.DelaysMs[ci] > 0 && l.DelaysMs[ci] <= 1000 {
					d = l.DelaysMs[ci]
				}
				plan.Calls = append(plan.Calls, lpCall{Tag: is.Tag, DelayMs: d, Req: req})
				x.plans[is.Tag] = call
				lp.issued = append(lp.issued, is)
			}
			if err := installLaunched(dir, lp.name, plan); err != nil {
				return err
			}
			lps = append(lps, lp)
		}
		return nil
	}
	rt, err := newLCRuntimeOpts(lcOpts{preStop: c.PreStop, updateFn: x.updateFn, setup: setup})
	if err != nil {
		return ev.Outcome{Overloaded: true, Classes: []string{"infra:" + shortErr(err)}}, 1
	}
	x.rt = rt

	// the runtime's own life cycle: the same Adaptation object is stopped and started again,
	// optionally with a session (one plugin, one update) before each stop
	var sessions []*c19Live
	for i := 0; i < c.Restarts && i < 2; i++ {
		if c.RestartSessions {
			l := x.connect(300+i, C19Plugin{Idx: fmt.Sprintf("4%d", i)})
			sessions = append(sessions, l)
			if l.ok {
				x.issue(l.p.Stub, l.p.Name, kUpdater, fmt.Sprintf("w%d", i), c.SessionCall, false)
			}
		}
		err := rt.Restart()
		for _, l := range sessions {
			if l.p.Stub != nil {
				l.p.Stub.Stop() // Stop() left the connection open; the plugin is not listed any more
			}
		}
		if err != nil {
			rt.Stop()
			return ev.Outcome{Overloaded: true, Classes: []string{"infra:restart: " + shortErr(err)}}, 1
		}
	}

	live := make([]*c19Live, len(c.Plugins))
	// phase 1: the plugins that register up front, one after the other
	// (a registration that fails ends the execution early: the verdict is a violation found
	// by the oracle below or "infrastructure", and nothing later could change that)
	broken := false
	for _, i := range earlyIdx {
		live[i] = x.connect(i, c.Plugins[i])
		if !live[i].ok {
			broken = true
			break
		}
	}
	// the never-started stub
	idle, _, _ := x.newPlugin(len(c.Plugins), C19Plugin{Idx: "50"})
	if err := idle.p.NewStub(rt.Socket, nil); err != nil {
		rt.Stop()
		return ev.Outcome{Overloaded: true, Classes: []string{"infra:" + shortErr(err)}}, 1
	}

	// stubs whose Start() fails late, and updates on them
	for fi, fs := range c.FailedStarts {
		if broken {
			break
		}
		if !x.failedStart(fi, fs) {
			broken = true
		}
	}

	// phase 2: updaters, runtime callers, the unstarted stub and late registrations together
	short := c.RequestTimeoutMs >= 100 && c.RequestTimeoutMs <= 30000 && !broken
	if short {
		adaptation.SetPluginRequestTimeout(time.Duration(c.RequestTimeoutMs) * time.Millisecond)
	}
	restore := func() {
		if short {
			adaptation.SetPluginRequestTimeout(30 * time.Second)
		}
	}
	start := make(chan struct{})
	var wg sync.WaitGroup
	updaters, callers, unstarted := c.Updaters, c.Callers, c.Unstarted
	if broken {
		updaters, callers, unstarted = nil, nil, nil
	}
	for ui, u := range updaters {
		wg.Add(1)
		go func(ui int, u C19Updater) {
			defer wg.Done()
			<-start
			if c.UpdaterDelayUs > 0 && c.UpdaterDelayUs <= 1000000 {
				time.Sleep(time.Duration(c.UpdaterDelayUs) * time.Microsecond)
			}
			pi := u.Plugin
			if pi < 0 {
				pi = -pi
			}
			l := live[earlyIdx[pi%len(earlyIdx)]]
			for ci, call := range u.Calls {
				x.issue(l.p.Stub, l.p.Name, kUpdater, fmt.Sprintf("u%dc%d", ui, ci), call, (ui+ci)%2 == 0)
			}
		}(ui, u)
	}
	for ci, evs := range callers {
		wg.Add(1)
		go func(ci int, evs []int32) {
			defer wg.Done()
			<-start
			for ri, e := range evs {
				if e < 1 || e > 13 {
					continue
				}
				sp := c19Span{Tag: fmt.Sprintf("k%dr%d-%d", x.no, ci, ri)}
				sp.Start = x.ctr.Add(1)
				_, err := fire(rt.A, e, sp.Tag)
				sp.End = x.ctr.Add(1)
				sp.Err = shortErr(err)
				x.mu.Lock()
				x.spans = append(x.spans, sp)
				x.mu.Unlock()
			}
		}(ci, evs)
	}
	if len(unstarted) > 0 {
		wg.Add(1)
		go func() {
			defer wg.Done()
			<-start
			for ci, call := range unstarted {
				x.issue(idle.p.Stub, idle.p.Name, kUnstarted, fmt.Sprintf("n%d", ci), call, ci%2 == 0)
			}
		}()
	}
	if ac := c.Across; ac != nil && !broken {
		l := live[earlyIdx[0]]
		rounds := ac.Rounds
		if rounds < 1 {
			rounds = 1
		}
		if rounds > 30 {
			rounds = 30
		}
		marks := &c19AcrossMarks{}
		x.acMarks = marks
		stopBg := make(chan struct{})
		wg.Add(2)
		go func() { // the plugin's updater goroutine: it never stops updating
			defer wg.Done()
			<-start
			for i := 0; i < 400; i++ {
				select {
				case <-stopBg:
					return
				default:
				}
				x.issue(l.p.Stub, l.p.Name, kAcross, fmt.Sprintf("v%d", i), ac.BgCall, false)
				if ac.GapUs > 0 && ac.GapUs <= 100000 {
					time.Sleep(time.Duration(ac.GapUs) * time.Microsecond)
				}
			}
		}()
		go func() { // the plugin loses its connection and restarts its stub, again and again
			defer wg.Done()
			defer close(stopBg)
			<-start
			for r := 0; r < rounds; r++ {
				for len(l.synced) > 0 {
					<-l.synced
				}
				sb := x.ctr.Add(1)
				l.p.Stub.Stop()
				if err := l.p.Stub.Start(context.Background()); err != nil {
					x.mu.Lock()
					x.launchedTrouble = "restart of the stub failed: " + shortErr(err)
					x.mu.Unlock()
					return
				}
				select {
				case <-l.synced:
				case <-time.After(20 * time.Second):
					x.mu.Lock()
					x.launchedTrouble = "restarted stub was not synchronized"
					x.mu.Unlock()
					return
				}
				b := rt.A.BlockPluginSync()
				b.Unblock()
				x.mu.Lock()
				marks.StopBegin = append(marks.StopBegin, sb)
				marks.Ready = append(marks.Ready, x.ctr.Add(1))
				x.mu.Unlock()
				// the restarted plugin is registered: its update must go through
				x.issue(l.p.Stub, l.p.Name, kUpdater, fmt.Sprintf("t%d", r), ac.Call, false)
				if ac.GapUs > 0 && ac.GapUs <= 100000 {
					time.Sleep(time.Duration(ac.GapUs) * time.Microsecond)
				}
			}
			x.mu.Lock()
			marks.End = x.ctr.Add(1)
			x.mu.Unlock()
		}()
	}
	if ab := c.Abandon; ab != nil && !broken && len(earlyIdx) >= 3 {
		holder, a, others := live[earlyIdx[0]], live[earlyIdx[1]], earlyIdx[2:]
		marks := &c19AbMarks{Others: make([]int64, len(ab.Others))}
		x.abMarks = marks
		ms := func(n int) time.Duration {
			if n < 0 || n > 2000 {
				n = 0
			}
			return time.Duration(n) * time.Millisecond
		}
		wg.Add(2)
		go func() { // the first holder
			defer wg.Done()
			<-start
			marks.HolderStart = x.ctr.Add(1)
			if ab.Holder == "update" {
				x.issue(holder.p.Stub, holder.p.Name, kUpdater, "h0", ab.HolderCall, false)
			} else if ab.Event >= 1 && ab.Event <= 13 {
				sp := c19Span{Tag: fmt.Sprintf("k%dhold", x.no)}
				sp.Start = x.ctr.Add(1)
				_, err := fire(rt.A, ab.Event, sp.Tag)
				sp.End = x.ctr.Add(1)
				sp.Err = shortErr(err)
				x.mu.Lock()
				x.spans = append(x.spans, sp)
				x.mu.Unlock()
			}
			marks.HolderEnd = x.ctr.Add(1)
		}()
		go func() { // plugin A: queue an update, then go away
			defer wg.Done()
			<-start
			time.Sleep(ms(ab.QueueDelayMs))
			done := make(chan struct{})
			marks.Queued = x.ctr.Add(1)
			go func() {
				defer close(done)
				x.issue(a.p.Stub, a.p.Name, kAbandoned, "b0", ab.Call, false)
			}()
			time.Sleep(ms(ab.StopDelayMs))
			marks.StopBegin = x.ctr.Add(1)
			a.p.Stub.Stop()
			marks.StopEnd = x.ctr.Add(1)
			<-done
		}()
		for oi, call := range ab.Others {
			wg.Add(1)
			go func(oi int, call C19Call) { // further plugins update while the holder is still at work
				defer wg.Done()
				<-start
				time.Sleep(ms(ab.QueueDelayMs) + ms(ab.StopDelayMs) + ms(ab.OthersDelayMs))
				l := live[others[oi%len(others)]]
				marks.Others[oi] = x.ctr.Add(1)
				x.issue(l.p.Stub, l.p.Name, kUpdater, fmt.Sprintf("o%d", oi), call, false)
			}(oi, call)
		}
	}
	wg.Add(1)
	go func() {
		defer wg.Done()
		<-start
		for i, p := range c.Plugins {
			if p.Late && !broken {
				live[i] = x.connect(i, p)
				if !live[i].ok {
					return
				}
			}
		}
	}()
	close(start)
	done := make(chan struct{})
	go func() { wg.Wait(); close(done) }()
	select {
	case <-done:
	case <-time.After(120 * time.Second):
		// not a clause of this property (the calls that must not block have their own
		// watchdogs): inconclusive. The goroutines are abandoned.
		restore()
		return ev.Outcome{Overloaded: true, Classes: []string{"watchdog"}}, 1
	}
	restore()
	// collect what the pre-installed plugins were answered
	for _, lp := range lps {
		res, err := readLaunched(rt.Dir, lp.name, 20*time.Second)
		if err != nil || res.StartErr != "" || len(res.Answers) != len(lp.issued) {
			broken = true
			x.mu.Lock()
			x.launchedTrouble = fmt.Sprintf("%s: %v %+v", lp.name, err, res)
			x.mu.Unlock()
			continue
		}
		for i, is := range lp.issued {
			a := res.Answers[i]
			var rpl api.UpdateContainersResponse
			if err := proto.Unmarshal(a.Failed, &rpl); err == nil {
				is.failed = rpl.Failed
			}
			is.Panic, is.Err, is.ErrMsg, is.NoService = a.Panic, a.Err, a.ErrMsg, a.NoService
			if len(is.Err) > 300 {
				is.Err = is.Err[:300]
			}
			if a.Err != "" {
				is.err = errors.New(a.Err)
			}
			for _, m := range is.failed {
				is.FailedIDs = append(is.FailedIDs, m.GetContainerId())
			}
			x.mu.Lock()
			x.issued = append(x.issued, is)
			x.mu.Unlock()
		}
	}
	// a healthy plugin that lost its connection while the request timeout was short was most
	// likely dropped for being late on an overloaded machine (its handler may then have run
	// outside the request): such an execution is not judged
	if short {
		// the stubs learn of a lost connection asynchronously; the runtime's list is what
		// counts: one more request (normal timeout again) must reach every plugin
		expect := 0
		for _, l := range live {
			if l != nil && l.ok {
				expect++
			}
		}
		x.mu.Lock()
		x.probeTag = fmt.Sprintf("k%dprobe", x.no)
		x.mu.Unlock()
		_, perr := fire(rt.A, 1, x.probeTag)
		x.mu.Lock()
		hits := x.probeHits
		x.mu.Unlock()
		for _, l := range live {
			if l != nil && l.ok && (l.p.Closed.Load() > 0 || hits != expect || perr != nil) {
				for _, l := range live {
					if l != nil && l.p.Stub != nil {
						l.p.Stub.Stop()
					}
				}
				rt.Stop()
				return ev.Outcome{Overloaded: true, Classes: []string{"healthy-plugin-dropped-under-short-timeout"}}, 1
			}
		}
	}

	// phase 3: nothing else is in flight any more; updates racing Stop() and after Stop()
	for _, l := range live {
		if l != nil && !l.ok {
			broken = true
		}
	}
	for i, l := range live {
		if l == nil || broken {
			continue
		}
		if call := l.spec.RaceStop; call != nil {
			var rw sync.WaitGroup
			rw.Add(1)
			go func() {
				defer rw.Done()
				x.issue(l.p.Stub, l.p.Name, kRaceStop, fmt.Sprintf("s%d", i), *call, false)
			}()
			if l.spec.RaceStopDelayUs > 0 {
				time.Sleep(time.Duration(l.spec.RaceStopDelayUs) * time.Microsecond)
			}
			l.p.Stub.Stop()
			rw.Wait()
		}
		if len(l.spec.AfterStop) > 0 {
			l.p.Stub.Stop()
			for ci, call := range l.spec.AfterStop {
				x.issue(l.p.Stub, l.p.Name, kAfterStop, fmt.Sprintf("a%dc%d", i, ci), call, false)
			}
		}
	}
	for _, l := range live {
		if l != nil && l.p.Stub != nil {
			l.p.Stub.Stop()
		}
	}
	for _, p := range x.extra {
		if p.Stub != nil {
			p.Stub.Stop()
		}
	}
	rt.Stop()

	x.mu.Lock()
	if m := x.acMarks; m != nil {
		// an updater call that began after a restart had completed and ended before the next
		// loss of the connection is an ordinary update of a registered plugin
		for _, is := range x.issued {
			if is.Kind != kAcross || is.Blocked {
				continue
			}
			for i, ready := range m.Ready {
				next := m.End
				if i+1 < len(m.StopBegin) {
					next = m.StopBegin[i+1]
				}
				if next != 0 && ready < is.Start && is.End < next {
					is.Kind = kUpdater
					is.Mode = "between-restarts"
				}
			}
		}
	}
	h := &c19Hist{Across: x.acMarks, LaunchedTrouble: x.launchedTrouble, FailedStarts: x.fstarts, Abandon: x.abMarks, Seen: x.seen, Issued: x.issued, Requests: x.spans, Overlaps: x.overlaps, Handlers: x.handlers}
	x.mu.Unlock()
	for _, l := range live {
		if l != nil {
			h.Plugins = append(h.Plugins, l.reg)
		}
	}
	return judgeC19(c, h)
}

// ---- oracle ------------------------------------------------------------------------------

func c19EqualLists(a, b []*api.ContainerUpdate) (bool, string) {
	if len(a) != len(b) {
		return false, fmt.Sprintf("%d elements instead of %d", len(b), len(a))
	}
	for i := range a {
		if !proto.Equal(a[i], b[i]) {
			return false, fmt.Sprintf("element %d differs:\n want %v\n got  %v", i, a[i], b[i])
		}
	}
	return true, ""
}

var c19KindText = map[string]string{
	kUpdater:     "from a goroutine of the running plugin",
	kConfigure:   "from inside the plugin's Configure handler",
	kSync:        "from inside the plugin's Synchronize handler",
	kStarting:    "from another goroutine while the plugin's Start() was waiting for Configure to return",
	kRaceStop:    "concurrently with Stop()",
	kAfterStop:   "after Stop() returned",
	kUnstarted:   "on a never-started stub",
	kFailedStart: "on a stub whose Start() had failed",
	kAcross:      "by the plugin's updater goroutine while the plugin was losing its connection and restarting its stub",
	kLaunched:    "by a pre-installed plugin (launched by the runtime) from its main goroutine",
	kAbandoned:   "while the runtime was occupied, the plugin being stopped while the call was queued",
}

// c19Strict judges a call that must have been delivered: (1) exactly once, unchanged,
// (2) the callback's answer came back unchanged. Returns "" or the verdict.
func c19Strict(is *c19Issued, ss []c19Seen, classes map[string]bool) string {
	what := fmt.Sprintf("update call %s (%d updates, plugin %s, issued %s)", is.Tag, is.N, is.Plugin, c19KindText[is.Kind])
	if len(ss) != 1 {
		return fmt.Sprintf("%s reached the runtime's UpdateFn %d times instead of once (the plugin received failed=%v err=%q)", what, len(ss), is.FailedIDs, is.Err)
	}
	if ok, why := c19EqualLists(is.sent, ss[0].Args); !ok {
		return fmt.Sprintf("%s: UpdateFn did not receive the updates the plugin sent: %s", what, why)
	}
	call := is.call
	if cbErr, wantMsg := call.callbackErr(); cbErr != nil {
		classes["callback-error"] = true
		classes[call.errClass()] = true
		if is.N >= 2 {
			classes["callback-error-on-multi-update-call"] = true
		}
		if is.err == nil {
			return fmt.Sprintf("%s: UpdateFn failed with %q (%s) but the plugin received no error (failed list %v)", what, wantMsg, call.errClass(), is.FailedIDs)
		}
		if is.ErrMsg != wantMsg {
			return fmt.Sprintf("%s: UpdateFn failed with %q (%s) but the plugin received %q (message %q)", what, wantMsg, call.errClass(), is.Err, is.ErrMsg)
		}
		if len(is.failed) != 0 {
			if ok, why := c19EqualLists(c19Failed(is.Tag, call), is.failed); !ok {
				return fmt.Sprintf("%s: together with the error the plugin received a failed list UpdateFn did not return: %s", what, why)
			}
		}
		return ""
	}
	if is.err != nil {
		return fmt.Sprintf("%s: UpdateFn succeeded but the plugin received error %q", what, is.Err)
	}
	want := c19Failed(is.Tag, call)
	if ok, why := c19EqualLists(want, is.failed); !ok {
		return fmt.Sprintf("%s: UpdateFn returned %d failed updates, the plugin received something else: %s", what, len(want), why)
	}
	switch {
	case len(want) == 0:
		classes["failed:none"] = true
	case len(want) == is.N:
		classes["failed:all"] = true
	default:
		classes["failed:some"] = true
	}
	if is.N >= 2 {
		classes["multi-update-call"] = true
	}
	return ""
}

// judgeC19 returns the outcome and, for a failure, how many executions in a row must fail
// before it is reported (1 = at once; see runC19).
func judgeC19(c C19Case, h *c19Hist) (ev.Outcome, int) {
	const (
		atOnce   = 1
		starting = 2 // depends on the stub's start timer not firing
		watchdog = 3
	)
	fail := func(need int, format string, a ...any) (ev.Outcome, int) {
		o := ev.Failf(format, a...)
		o.History = h
		return o, need
	}
	classes := map[string]bool{}
	// (3) mutual exclusion
	if len(h.Overlaps) > 0 {
		return fail(atOnce, "%s", h.Overlaps[0])
	}
	seenByTag := map[string][]c19Seen{}
	emptySeen := 0
	for _, s := range h.Seen {
		if s.N == 0 {
			emptySeen++
			continue
		}
		seenByTag[s.Tag] = append(seenByTag[s.Tag], s)
	}
	emptyIssued := 0
	issuedTags := map[string]bool{}
	for _, is := range h.Issued {
		if is.Tag != "" {
			issuedTags[is.Tag] = true
		}
		if is.Panic != "" {
			return fail(atOnce, "UpdateContainers (call %s, issued %s) panicked: %s", is.Where, c19KindText[is.Kind], is.Panic)
		}
		if is.Kind == kFailedStart && len(seenByTag[is.Tag]) > 0 {
			return fail(atOnce, "an update sent on a stub whose Start() had failed (%s) reached the runtime's UpdateFn %d times (%s; returned within the watchdog: %v, err %q)", is.Mode, len(seenByTag[is.Tag]), is.Tag, !is.Blocked, is.Err)
		}
		if is.Blocked {
			return fail(watchdog, "UpdateContainers (call %s, plugin %s) issued %s did not return within 10 s", is.Where, is.Plugin, c19KindText[is.Kind])
		}
		ss := seenByTag[is.Tag]
		switch is.Kind {
		case kUnstarted:
			// (4) no service instead of blocking
			classes["unstarted-stub"] = true
			if !is.NoService {
				return fail(atOnce, "UpdateContainers on a never-started stub returned (%v, %q) instead of stub.ErrNoService", is.FailedIDs, is.Err)
			}
			if len(is.failed) != 0 {
				return fail(atOnce, "UpdateContainers on a never-started stub returned a failed list %v", is.FailedIDs)
			}
			if is.Tag != "" && len(ss) > 0 {
				return fail(atOnce, "an update sent on a never-started stub reached the runtime's UpdateFn (%s)", is.Tag)
			}
			continue
		case kFailedStart:
			// not started, not registered: an error, promptly (checked above), and the
			// runtime's callback is never reached
			classes["failed-start"] = true
			classes["failed-start:"+is.Mode] = true
			if is.err == nil {
				return fail(atOnce, "UpdateContainers on a stub whose Start() had failed (%s) returned success (failed list %v) instead of an error", is.Mode, is.FailedIDs)
			}
			if len(ss) > 0 {
				return fail(atOnce, "an update sent on a stub whose Start() had failed (%s) reached the runtime's UpdateFn %d times (%s; the call returned %q)", is.Mode, len(ss), is.Tag, is.Err)
			}
			if len(is.failed) != 0 {
				return fail(atOnce, "UpdateContainers on a stub whose Start() had failed (%s) returned a failed list %v", is.Mode, is.FailedIDs)
			}
			continue
		case kRaceStop, kAfterStop, kAbandoned, kAcross:
			// the session is going or gone: the call must come back (checked above); it may
			// have been delivered or not, but not twice, and a success must be a real one
			classes[is.Kind] = true
			if len(ss) > 1 {
				return fail(atOnce, "update call %s issued %s reached the runtime's UpdateFn %d times", is.Tag, c19KindText[is.Kind], len(ss))
			}
			if is.Kind == kAbandoned {
				if len(ss) == 1 {
					classes["abandoned:callback-ran"] = true
				} else {
					classes["abandoned:callback-not-run-by-the-end"] = true
				}
			}
			if is.Kind == kAfterStop && (is.err == nil || len(ss) > 0) {
				return fail(atOnce, "update call %s issued after Stop() had returned was not refused: err=%q, reached UpdateFn %d times", is.Tag, is.Err, len(ss))
			}
			switch {
			case is.err == nil:
				classes[is.Kind+":delivered"] = true
				if msg := c19Strict(is, ss, classes); msg != "" {
					return fail(atOnce, "%s", msg)
				}
			case is.NoService:
				classes[is.Kind+":no-service"] = true
			default:
				classes[is.Kind+":error"] = true
			}
			continue
		case kStarting:
			// Start() in progress: either "no service" or a regular delivery, never blocking
			classes["during-start"] = true
			if is.NoService {
				classes["during-start:no-service"] = true
				if len(ss) > 0 || len(is.failed) != 0 {
					return fail(atOnce, "update call %s issued %s returned ErrNoService but reached UpdateFn %d times (failed list %v)", is.Tag, c19KindText[is.Kind], len(ss), is.FailedIDs)
				}
				continue
			}
			classes["during-start:delivered"] = true
		case kLaunched:
			classes["launched-plugin"] = true
		case kConfigure:
			classes["in-configure"] = true
		case kSync:
			classes["in-synchronize"] = true
		}
		// a registered plugin's update: delivered exactly once, answered unchanged
		timeClause := atOnce
		if is.Kind == kConfigure || is.Kind == kStarting {
			timeClause = starting
		}
		if is.N == 0 {
			// untagged: judged by count below, and by the case-wide answer
			emptyIssued++
			classes["empty-list"] = true
			switch c.EmptyMode {
			case 0:
				if is.err != nil || len(is.failed) != 0 {
					return fail(timeClause, "empty update list (call %s, issued %s): UpdateFn returned (nil, nil) but the plugin received (%v, %q)", is.Where, c19KindText[is.Kind], is.FailedIDs, is.Err)
				}
			case 1:
				if is.err != nil || len(is.failed) != 1 || !proto.Equal(is.failed[0], &api.ContainerUpdate{ContainerId: c19EmptyMarker}) {
					return fail(timeClause, "empty update list (call %s, issued %s): UpdateFn returned one failed marker update but the plugin received (%v, %q)", is.Where, c19KindText[is.Kind], is.FailedIDs, is.Err)
				}
			case 2:
				if is.err == nil || is.ErrMsg != c19EmptyErr {
					return fail(timeClause, "empty update list (call %s, issued %s): UpdateFn failed with %q but the plugin received error %q (message %q)", is.Where, c19KindText[is.Kind], c19EmptyErr, is.Err, is.ErrMsg)
				}
			}
			continue
		}
		if msg := c19Strict(is, ss, classes); msg != "" {
			return fail(timeClause, "%s", msg)
		}
	}
	for tag, ss := range seenByTag {
		if !issuedTags[tag] {
			return fail(atOnce, "the runtime's UpdateFn was called with updates nobody sent (first container id %q)", ss[0].IDs[0])
		}
	}
	if emptySeen != emptyIssued {
		return fail(atOnce, "%d empty update lists were sent, UpdateFn was called %d times with an empty list", emptyIssued, emptySeen)
	}
	if c.PreStop {
		classes["runtime-stopped-before-first-start"] = true
	}
	if c.Restarts > 0 {
		classes["runtime-restarted"] = true
		if c.RestartSessions {
			classes["runtime-restarted-between-sessions"] = true
		}
	}
	if m := h.Across; m != nil {
		classes["across-shape"] = true
		if len(m.Ready) >= 10 {
			classes["across:10+restarts"] = true
		}
		for _, is := range h.Issued {
			if is.Mode == "between-restarts" {
				classes["across:updater-call-between-restarts"] = true
			}
			if is.Kind == kAcross && is.err != nil {
				classes["across:updater-call-failed-during-restart"] = true
			}
		}
	}
	if m := h.Abandon; m != nil {
		classes["abandon-shape"] = true
		inOrder := m.HolderStart < m.Queued && m.Queued < m.StopBegin && m.StopEnd < m.HolderEnd
		for _, o := range m.Others {
			if o < m.StopEnd || o > m.HolderEnd {
				inOrder = false
			}
		}
		if inOrder { // by the marks, everything happened within the first holder's turn
			classes["abandoned-while-queued"] = true
			classes["abandoned-while-queued:holder-"+c.Abandon.Holder] = true
		}
	}
	for _, f := range h.FailedStarts {
		if f.Started {
			classes["failed-start:start-succeeded:"+f.Mode] = true
		}
	}
	if h.LaunchedTrouble != "" {
		return ev.Outcome{Overloaded: true, History: h, Classes: []string{"infra:launched-plugin-did-not-report"}}, 1
	}
	// every registration of this property is well-formed; one that did not complete although
	// no clause above was violated is not this property's finding
	for _, p := range h.Plugins {
		if p.StartErr != "" || p.Refused || p.TimedOut {
			return ev.Outcome{Overloaded: true, History: h, Classes: []string{"infra:registration-failed"}}, 1
		}
		if p.Late {
			classes["late-registration"] = true
		}
	}

	// non-triviality: an update call in flight together with another one or with a request
	out := ev.Outcome{}
	type span struct{ s, e int64 }
	var ups, reqs []span
	for _, is := range h.Issued {
		if is.Kind != kUnstarted {
			ups = append(ups, span{is.Start, is.End})
		}
	}
	for _, r := range h.Requests {
		reqs = append(reqs, span{r.Start, r.End})
		if r.Err != "" {
			classes["request-error"] = true // not this property's business
		}
	}
	uu, ur := 0, 0
	for i, a := range ups {
		for j, b := range ups {
			if i < j && a.s < b.e && b.s < a.e {
				uu++
			}
		}
		for _, b := range reqs {
			if a.s < b.e && b.s < a.e {
				ur++
			}
		}
	}
	if uu > 0 {
		classes["overlap:update-update"] = true
	}
	if ur > 0 {
		classes["overlap:update-request"] = true
	}
	// the largest number of update calls of one plugin pending at the same moment (by the
	// issuers' marks)
	maxPending := 0
	byPlugin := map[string][][2]int64{}
	for _, is := range h.Issued {
		if is.Kind == kUpdater && is.Start != 0 {
			byPlugin[is.Plugin] = append(byPlugin[is.Plugin], [2]int64{is.Start, is.End})
		}
	}
	for _, iv := range byPlugin {
		for _, a := range iv { // the maximum is attained at some interval's start
			n := 0
			for _, b := range iv {
				if b[0] <= a[0] && a[0] < b[1] {
					n++
				}
			}
			if n > maxPending {
				maxPending = n
			}
		}
	}
	switch {
	case maxPending >= 33:
		classes["pending-updates-of-one-plugin:33+"] = true
		fallthrough
	case maxPending >= 17:
		classes["pending-updates-of-one-plugin:17+"] = true
	case maxPending >= 5:
		classes["pending-updates-of-one-plugin:5-16"] = true
	}
	if c.RequestTimeoutMs > 0 {
		// how long did an update wait (issuer's marks cannot tell; use the plan): class only
		if c.UpdaterDelayUs > 0 {
			classes["lock-wait-over-timeout:behind-request"] = true
		} else {
			classes["lock-wait-over-timeout:behind-updates"] = true
		}
		classes["lock-wait-over-timeout"] = true
	}
	out.NonTrivial = len(ups) >= 2 && (uu > 0 || ur > 0)
	out.Classes = append(out.Classes, fmt.Sprintf("plugins:%d", len(c.Plugins)), fmt.Sprintf("updaters:%d", len(c.Updaters)), fmt.Sprintf("callers:%d", len(c.Callers)))
	if h.Handlers > 0 {
		classes["handlers-ran"] = true
	}
	ks := make([]string, 0, len(classes))
	for k := range classes {
		ks = append(ks, k)
	}
	sort.Strings(ks)
	out.Classes = append(out.Classes, ks...)
	return out, 1
}

func TestProp_C19(t *testing.T) { ev.Run(t, "C19", genC19, runC19) }

// TestExh_C19 is a directed sweep of the flood shape: 17, 24 and 40 update calls of one
// plugin pending together, behind a held request and behind the plugin's own first update.
func TestExh_C19(t *testing.T) {
	if os.Getenv("VERIF_REPLAY") != "" {
		t.Skip("replay runs TestProp_C19 only")
	}
	r := ev.Get("C19")
	defer r.Flush()
	calls := []C19Call{
		{Updates: []C19Upd{{ID: "a"}, {ID: "b", Ignore: true}}, Fail: []int{1}},
		{Updates: []C19Upd{{ID: "c", NoLinux: true}}},
		{Updates: []C19Upd{{ID: "d"}, {ID: "e"}, {ID: "f"}}, Err: "not enough exclusive CPUs", ErrForm: "status", ErrCode: 8},
	}
	for i, gap := range []int{0, 100, 1000} {
		c := c19AcrossCase(20, gap, "10", calls[0], calls[i%len(calls)], i == 1)
		raw := ev.Snapshot(c)
		r.Journal(raw)
		o := runC19(c)
		r.ClearJournal()
		o.Classes = append([]string{"across-sweep"}, o.Classes...)
		r.Record(raw, o)
		if o.Fail != "" {
			t.Fatalf("C19 across sweep (gap %d us): %s", gap, o.Fail)
		}
	}
	for _, n := range []int{17, 24, 40} {
		for _, byRequest := range []bool{true, false} {
			hold := 20
			if byRequest {
				hold = 150
			}
			c := c19Flood(n, byRequest, hold, 4, [2]string{"10", "20"}, calls)
			raw := ev.Snapshot(c)
			r.Journal(raw)
			o := runC19(c)
			r.ClearJournal()
			o.Classes = append([]string{"flood-sweep"}, o.Classes...)
			r.Record(raw, o)
			if o.Fail != "" {
				t.Fatalf("C19 flood sweep (%d pending, behind request %v): %s", n, byRequest, o.Fail)
			}
		}
	}
}
