package stubx16

import (
	"context"
	"errors"
	"fmt"
	"net"
	"os"
	"sync"
	"sync/atomic"
	"syscall"
	"time"

	"github.com/containerd/nri/pkg/api"
	"github.com/containerd/nri/pkg/net/multiplex"
	"github.com/containerd/ttrpc"
	"google.golang.org/grpc/codes"
	"google.golang.org/grpc/status"

	"nriverif/fx"
)

// Directions of a link.
const (
	s2r = 0 // stub -> runtime
	r2s = 1 // runtime -> stub
)

var dirNames = [2]string{"s2r", "r2s"}

// socketpair returns the two ends of a connected AF_UNIX stream socket pair as net.Conns.
func socketpair() (net.Conn, net.Conn, error) {
	fds, err := syscall.Socketpair(syscall.AF_UNIX, syscall.SOCK_STREAM|syscall.SOCK_CLOEXEC, 0)
	if err != nil {
		return nil, nil, err
	}
	mk := func(fd int) (net.Conn, error) {
		f := os.NewFile(uintptr(fd), "sp")
		defer f.Close()
		return net.FileConn(f)
	}
	a, err := mk(fds[0])
	if err != nil {
		syscall.Close(fds[1])
		return nil, nil, err
	}
	b, err := mk(fds[1])
	if err != nil {
		a.Close()
		return nil, nil, err
	}
	return a, b, nil
}

// link is one proxied connection: the stub holds the far end of `in` (a unix socketpair, or,
// for the synchronous transport, a net.Pipe: unbuffered, a Write returns only when the
// harness has read the bytes, and a close in the middle of it is a short write), the runtime
// (the adaptation's socket, or a raw peer) the far end of `out`. One goroutine per direction
// copies and counts bytes; the stub->runtime stream is read in chunks of the scripted sizes;
// when the budget of a direction is used up, or on command, both sides are closed (after
// `hold`, during which nothing is read any more). Reading the stub->runtime stream can be
// stalled and resumed. The link remembers who closed first.
type link struct {
	n      int
	in     net.Conn
	out    net.Conn
	bytes  [2]atomic.Int64
	budget [2]int64 // < 0: unlimited
	chunks []int    // read sizes of the stub->runtime pump (cyclic); empty: 64 KiB
	hold   time.Duration

	mu       sync.Mutex
	closedBy string // "" = open, "stub", "runtime", "proxy"
	closedAt time.Time
	closedC  chan struct{}
	gate     chan struct{} // non-nil while the stub->runtime pump is stalled
	peer     *refuser      // the raw runtime peer behind `out`, if any
	stubEnd  net.Conn      // the end the stub holds (handed out by the dialer / WithConnection)
	wg       sync.WaitGroup
}

type linkOpts struct {
	cutDir int // -1: none
	k      int64
	chunks []int
	hold   time.Duration
}

func newLink(n int, in, out net.Conn, o linkOpts) *link {
	l := &link{n: n, in: in, out: out, closedC: make(chan struct{}), chunks: o.chunks, hold: o.hold}
	l.budget = [2]int64{-1, -1}
	if o.cutDir == s2r || o.cutDir == r2s {
		l.budget[o.cutDir] = o.k
	}
	if o.cutDir >= 0 && o.k == 0 {
		l.shut("proxy")
		return l
	}
	l.wg.Add(2)
	go l.pump(s2r, in, out, "stub", "runtime")
	go l.pump(r2s, out, in, "runtime", "stub")
	return l
}

// stall makes the runtime end stop reading what the stub sends (a read that is already
// parked still takes one chunk); unstall resumes.
func (l *link) stall() {
	l.mu.Lock()
	if l.gate == nil {
		l.gate = make(chan struct{})
	}
	l.mu.Unlock()
}

func (l *link) unstall() {
	l.mu.Lock()
	if l.gate != nil {
		close(l.gate)
		l.gate = nil
	}
	l.mu.Unlock()
}

// passGate blocks while the link is stalled; false = the link was closed meanwhile.
func (l *link) passGate() bool {
	for {
		l.mu.Lock()
		g := l.gate
		l.mu.Unlock()
		if g == nil {
			return true
		}
		select {
		case <-g:
		case <-l.closedC:
			return false
		}
	}
}

// shut closes both sides; the first caller's attribution wins.
func (l *link) shut(by string) {
	l.mu.Lock()
	if l.closedBy == "" {
		l.closedBy = by
		l.closedAt = time.Now()
		close(l.closedC)
	}
	l.mu.Unlock()
	l.in.Close()
	l.out.Close()
}

func (l *link) who() string {
	l.mu.Lock()
	defer l.mu.Unlock()
	return l.closedBy
}

func (l *link) pump(dir int, src, dst net.Conn, srcOwner, dstOwner string) {
	defer l.wg.Done()
	buf := make([]byte, 64<<10)
	for i := 0; ; i++ {
		if dir == s2r && !l.passGate() {
			return
		}
		size := len(buf)
		if dir == s2r && len(l.chunks) > 0 {
			if c := l.chunks[i%len(l.chunks)]; c > 0 && c < size {
				size = c
			}
		}
		bud := l.budget[dir]
		if bud >= 0 {
			// never take more than the budget out of the sender's hands: on the synchronous
			// transport the bytes not read are the ones the sender's Write did not get rid of
			if rem := bud - l.bytes[dir].Load(); rem < int64(size) {
				size = int(rem)
			}
		}
		n, err := src.Read(buf[:size])
		if n > 0 {
			// counted before they are handed on: a reader of the counters never sees fewer
			// bytes than the peer may already have received
			total := l.bytes[dir].Add(int64(n))
			_, werr := dst.Write(buf[:n])
			if bud >= 0 && total >= bud {
				if l.hold > 0 {
					select {
					case <-time.After(l.hold):
					case <-l.closedC:
					}
				}
				l.shut("proxy")
				return
			}
			if werr != nil {
				l.shut(dstOwner)
				return
			}
		}
		if err != nil {
			l.shut(srcOwner)
			return
		}
	}
}

func (l *link) status() string {
	w := l.who()
	if w == "" {
		w = "open"
	}
	return fmt.Sprintf("#%d %s s2r=%d r2s=%d", l.n, w, l.bytes[s2r].Load(), l.bytes[r2s].Load())
}

// Send is one extra request a raw runtime peer sends to the stub in a session. At: "after-sync"
// (right after its Configure / Synchronize), "after-probe" (after the first probe that reached
// the plugin), "before-end" (just before the harness stops the stub or drops the connection).
// Req: "shutdown", "configure" (a second Configure), "synchronize" (another Synchronize),
// "unknown-event" (StateChange with an event number that does not exist), "unknown-method" (a
// call of a method the plugin service does not have).
type Send struct {
	At  string `json:"at"`
	Req string `json:"req"`
}

// rawMode says how the raw runtime peer behaves.
type rawMode struct {
	accept        bool          // answer RegisterPlugin with success (otherwise with an error)
	closeAfter    bool          // close the connection `delay` after answering
	delay         time.Duration //
	silent        bool          // never answer RegisterPlugin at all, keep the connection open
	configure     bool          // after registering the plugin, configure it (and then stay up)
	regMs         int64         // ConfigureRequest.RegistrationTimeout
	reqMs         int64         // ConfigureRequest.RequestTimeout
	doSync        bool          // send an (empty) Synchronize after Configure
	updSilent     bool          // never answer the plugin's UpdateContainers (and do not close)
	sends         []Send
	closeOnCfgErr bool // close the connection when the plugin answers Configure with an error (otherwise keep it)
}

// refuser is a raw runtime peer (multiplexer + ttRPC server and client, built the way
// pkg/adaptation/plugin.go connect()/start() builds the runtime end). Depending on its mode
// it answers RegisterPlugin with an error (like the adaptation it leaves closing the
// connection to the plugin, unless closeAfter is set), registers the plugin and drops the
// connection without configuring it, registers it and stays silent, never answers at all, or
// completes the handshake itself with the scripted timeouts in its ConfigureRequest.
type refuser struct {
	conn        net.Conn
	mux         multiplex.Mux
	rpcs        *ttrpc.Server
	rpcl        net.Listener
	rpcc        *ttrpc.Client
	plugin      api.PluginService
	mode        rawMode
	regs        atomic.Int32
	cfgSent     atomic.Bool // the Configure request has been issued
	sendMu      sync.Mutex
	sent        map[int]bool // extra requests already sent (by index)
	sentLog     []string     // what was sent and how it was answered
	cfgReqs     int          // extra Configure requests sent
	cfgAnswered atomic.Int32 // Configure requests (the first one included) answered without an error
	unanswered  []string     // Configure requests that got neither a response nor an error within the bound
	busy        atomic.Int32 // extra requests under way
	cfgErr      atomic.Value // error text of the Configure / Synchronize call, if any
	done        chan struct{}
	quit        chan struct{} // closed by close(): releases a silent RegisterPlugin
	once        sync.Once
}

func (r *refuser) RegisterPlugin(context.Context, *api.RegisterPluginRequest) (*api.Empty, error) {
	r.regs.Add(1)
	if r.mode.silent {
		<-r.quit
		return &api.Empty{}, errors.New("verif: runtime gone")
	}
	if r.mode.closeAfter {
		go func() {
			time.Sleep(r.mode.delay)
			r.close()
		}()
	}
	if !r.mode.accept {
		return &api.Empty{}, errors.New("verif: registration refused")
	}
	if r.mode.configure {
		go r.handshake()
	}
	return &api.Empty{}, nil
}

// handshake is the runtime's part after registration: Configure with the scripted timeouts,
// optionally an empty Synchronize.
func (r *refuser) handshake() {
	ctx, cancel := context.WithTimeout(context.Background(), 5*time.Second)
	defer cancel()
	r.cfgSent.Store(true)
	defer func() {
		if r.cfgErr.Load() == nil {
			r.cfgAnswered.Add(1)
		}
	}()
	_, err := r.plugin.Configure(ctx, &api.ConfigureRequest{
		RuntimeName:         "verif-raw",
		RuntimeVersion:      "0",
		RegistrationTimeout: r.mode.regMs,
		RequestTimeout:      r.mode.reqMs,
	})
	if err == nil && r.mode.doSync {
		_, err = r.plugin.Synchronize(ctx, &api.SynchronizeRequest{})
	}
	if err != nil {
		r.cfgErr.Store(err.Error())
		if r.mode.closeOnCfgErr {
			r.close()
		}
		return
	}
	r.sendExtras("after-sync")
}

// sendExtras sends the session's extra requests planned for this point, each once, and waits
// for their answers (2 s each at most). What the stub answers is recorded, not judged here.
func (r *refuser) sendExtras(at string) {
	for i, sd := range r.mode.sends {
		if sd.At != at {
			continue
		}
		r.sendMu.Lock()
		if r.sent == nil {
			r.sent = map[int]bool{}
		}
		done := r.sent[i]
		r.sent[i] = true
		r.sendMu.Unlock()
		if done {
			continue
		}
		r.busy.Add(1)
		d := 2 * time.Second
		if sd.Req == "configure" {
			d = slack // every Configure request is answered: judged, see unanswered
		}
		ctx, cancel := context.WithTimeout(context.Background(), d)
		var err error
		switch sd.Req {
		case "shutdown":
			_, err = r.plugin.Shutdown(ctx, &api.Empty{})
		case "configure":
			_, err = r.plugin.Configure(ctx, &api.ConfigureRequest{RuntimeName: "verif-raw", RuntimeVersion: "0",
				RegistrationTimeout: r.mode.regMs, RequestTimeout: r.mode.reqMs})
		case "synchronize":
			_, err = r.plugin.Synchronize(ctx, &api.SynchronizeRequest{})
		case "unknown-event":
			_, err = r.plugin.StateChange(ctx, &api.StateChangeEvent{Event: api.Event(9999), Pod: &api.PodSandbox{Id: "verif-unknown-event"}})
		case "unknown-method":
			err = r.rpcc.Call(ctx, "nri.pkg.api.v1alpha1.Plugin", "NoSuchMethod", &api.Empty{}, &api.Empty{})
		}
		cancel()
		r.sendMu.Lock()
		r.sentLog = append(r.sentLog, fmt.Sprintf("%s %s: %v", at, sd.Req, err))
		if sd.Req == "configure" {
			r.cfgReqs++
			switch {
			case err == nil:
				r.cfgAnswered.Add(1)
			case errors.Is(err, context.DeadlineExceeded) || status.Code(err) == codes.DeadlineExceeded:
				// neither a response nor an error of the stub's or the connection's arrived
				r.unanswered = append(r.unanswered, fmt.Sprintf("Configure request #%d of the session (%s)", r.cfgReqs+1, at))
			}
		}
		r.sendMu.Unlock()
		r.busy.Add(-1)
	}
}

// probe delivers the fixture's probe event straight to the plugin.
func (r *refuser) probe() error {
	ctx, cancel := context.WithTimeout(context.Background(), 2*time.Second)
	defer cancel()
	_, err := r.plugin.StateChange(ctx, &api.StateChangeEvent{
		Event: api.Event_REMOVE_POD_SANDBOX,
		Pod:   &api.PodSandbox{Id: fx.ProbePodID},
	})
	return err
}

func (r *refuser) UpdateContainers(context.Context, *api.UpdateContainersRequest) (*api.UpdateContainersResponse, error) {
	if r.mode.updSilent {
		<-r.quit
		return nil, errors.New("verif: runtime gone")
	}
	return &api.UpdateContainersResponse{}, nil
}

// create delivers a CreateContainer request for the fixture's probe pod to the plugin.
func (r *refuser) create() error {
	ctx, cancel := context.WithTimeout(context.Background(), 2*time.Second)
	defer cancel()
	_, err := r.plugin.CreateContainer(ctx, &api.CreateContainerRequest{
		Pod:       &api.PodSandbox{Id: fx.ProbePodID},
		Container: &api.Container{Id: "c16-probe-ctr", PodSandboxId: fx.ProbePodID},
	})
	return err
}

func newRefuser(conn net.Conn, mode rawMode) (*refuser, error) {
	r := &refuser{conn: conn, mode: mode, done: make(chan struct{}), quit: make(chan struct{})}
	r.mux = multiplex.Multiplex(conn, multiplex.WithBlockedRead())
	pconn, err := r.mux.Open(multiplex.PluginServiceConn)
	if err != nil {
		r.mux.Close()
		return nil, err
	}
	r.rpcc = ttrpc.NewClient(pconn)
	r.plugin = api.NewPluginClient(r.rpcc)
	rpcs, err := ttrpc.NewServer()
	if err != nil {
		r.rpcc.Close()
		r.mux.Close()
		return nil, err
	}
	rpcl, err := r.mux.Listen(multiplex.RuntimeServiceConn)
	if err != nil {
		rpcs.Close()
		r.rpcc.Close()
		r.mux.Close()
		return nil, err
	}
	r.rpcs, r.rpcl = rpcs, rpcl
	api.RegisterRuntimeService(rpcs, r)
	go func() {
		_ = rpcs.Serve(context.Background(), rpcl)
		close(r.done)
	}()
	r.mux.Unblock()
	return r, nil
}

func (r *refuser) close() {
	r.once.Do(func() {
		close(r.quit)
		r.rpcc.Close()
		r.rpcs.Close()
		r.rpcl.Close()
		r.mux.Close()
		r.conn.Close()
	})
}
