package stubx16

import (
	"context"

	"github.com/containerd/nri/pkg/api"

	"nriverif/fx"
)

// The stub derives its behaviour from the interfaces the plugin OBJECT implements (stub.New
// inspects them), so the plugin type is part of a case. All types delegate to the one
// fx.Plugin of the case (function-field handlers); they differ only in their method sets:
//
//	"all"    (or "")  every handler interface (fx.Plugin itself)
//	"nocfg"           everything but ConfigureInterface
//	"nosync"          everything but SynchronizeInterface
//	"neither"         neither of the two
//	"event"           a single event handler (RemovePodSandbox, which is the probe's event)
//	"shutdown"        every handler interface and ShutdownInterface
var pluginTypes = []string{"all", "nocfg", "nosync", "neither", "event", "shutdown"}

// plugShutdown is fx.Plugin plus a Shutdown handler.
type plugShutdown struct {
	*fx.Plugin
	onShutdown func()
}

func (p plugShutdown) Shutdown(context.Context) { p.onShutdown() }

type mCfg struct{ fp *fx.Plugin }

func (m mCfg) Configure(ctx context.Context, config, runtime, version string) (api.EventMask, error) {
	return m.fp.Configure(ctx, config, runtime, version)
}

type mSync struct{ fp *fx.Plugin }

func (m mSync) Synchronize(ctx context.Context, pods []*api.PodSandbox, ctrs []*api.Container) ([]*api.ContainerUpdate, error) {
	return m.fp.Synchronize(ctx, pods, ctrs)
}

type mEvent struct{ fp *fx.Plugin }

func (m mEvent) RemovePodSandbox(ctx context.Context, pod *api.PodSandbox) error {
	return m.fp.RemovePodSandbox(ctx, pod)
}

type mRest struct{ fp *fx.Plugin }

func (m mRest) CreateContainer(ctx context.Context, pod *api.PodSandbox, c *api.Container) (*api.ContainerAdjustment, []*api.ContainerUpdate, error) {
	return m.fp.CreateContainer(ctx, pod, c)
}
func (m mRest) UpdateContainer(ctx context.Context, pod *api.PodSandbox, c *api.Container, r *api.LinuxResources) ([]*api.ContainerUpdate, error) {
	return m.fp.UpdateContainer(ctx, pod, c, r)
}
func (m mRest) StopContainer(ctx context.Context, pod *api.PodSandbox, c *api.Container) ([]*api.ContainerUpdate, error) {
	return m.fp.StopContainer(ctx, pod, c)
}
func (m mRest) UpdatePodSandbox(ctx context.Context, pod *api.PodSandbox, o, r *api.LinuxResources) error {
	return m.fp.UpdatePodSandbox(ctx, pod, o, r)
}
func (m mRest) RunPodSandbox(ctx context.Context, pod *api.PodSandbox) error {
	return m.fp.RunPodSandbox(ctx, pod)
}
func (m mRest) StopPodSandbox(ctx context.Context, pod *api.PodSandbox) error {
	return m.fp.StopPodSandbox(ctx, pod)
}
func (m mRest) PostUpdatePodSandbox(ctx context.Context, pod *api.PodSandbox) error {
	return m.fp.PostUpdatePodSandbox(ctx, pod)
}
func (m mRest) StartContainer(ctx context.Context, pod *api.PodSandbox, c *api.Container) error {
	return m.fp.StartContainer(ctx, pod, c)
}
func (m mRest) RemoveContainer(ctx context.Context, pod *api.PodSandbox, c *api.Container) error {
	return m.fp.RemoveContainer(ctx, pod, c)
}
func (m mRest) PostCreateContainer(ctx context.Context, pod *api.PodSandbox, c *api.Container) error {
	return m.fp.PostCreateContainer(ctx, pod, c)
}
func (m mRest) PostStartContainer(ctx context.Context, pod *api.PodSandbox, c *api.Container) error {
	return m.fp.PostStartContainer(ctx, pod, c)
}
func (m mRest) PostUpdateContainer(ctx context.Context, pod *api.PodSandbox, c *api.Container) error {
	return m.fp.PostUpdateContainer(ctx, pod, c)
}

type plugNoCfg struct {
	mSync
	mEvent
	mRest
}
type plugNoSync struct {
	mCfg
	mEvent
	mRest
}
type plugNeither struct {
	mEvent
	mRest
}
type plugEventOnly struct{ mEvent }

// pluginObject returns the object handed to stub.New for a plugin type.
func pluginObject(kind string, fp *fx.Plugin, onShutdown func()) interface{} {
	switch kind {
	case "shutdown":
		return plugShutdown{fp, onShutdown}
	case "nocfg":
		return plugNoCfg{mSync{fp}, mEvent{fp}, mRest{fp}}
	case "nosync":
		return plugNoSync{mCfg{fp}, mEvent{fp}, mRest{fp}}
	case "neither":
		return plugNeither{mEvent{fp}, mRest{fp}}
	case "event":
		return plugEventOnly{mEvent{fp}}
	}
	return fp
}

// hasHandler tells whether a plugin type implements the handler an in-handler call, a
// Configure delay or a Configure rejection is planned for.
func hasHandler(kind, handler string) bool {
	switch handler {
	case "configure":
		return kind == "" || kind == "all" || kind == "nosync" || kind == "shutdown"
	case "synchronize":
		return kind == "" || kind == "all" || kind == "nocfg" || kind == "shutdown"
	case "create":
		return kind != "event"
	case "event":
		return true
	}
	return false
}
