// Package stubx16 holds the check for property C16: starting, stopping and restarting the
// stub terminates and leaves it usable.
//
// Code under test: pkg/stub/stub.go (Start, Stop, Wait, close, connClosed, connect, register,
// Configure) and, underneath, pkg/net/multiplex/mux.go. Everything is driven through the
// public API: one stub per case created with stub.WithDialer / stub.WithOnClose, whose every
// dial goes through a byte-counting, cutting proxy (proxy_test.go: real unix sockets, so both
// peers see the kernel's own errors) to a real in-process Adaptation, or to a raw runtime
// peer that refuses the registration.
package stubx16

import (
	"os"
	"testing"
	"time"

	"github.com/containerd/nri/pkg/adaptation"
)

const (
	// rtRegTimeout / rtReqTimeout are the adaptation's process-wide timeouts. They are sent to
	// the stub in Configure and become the stub's own timeouts from the first configured
	// session on (before that the stub uses its defaults, 5 s and 2 s). Healthy latencies are
	// well below 10 ms, so 2 s is > 100 x the typical value.
	rtRegTimeout = 2 * time.Second
	rtReqTimeout = 2 * time.Second

	// slack is the flat allowance of the property's time clauses (DESIGN.md C16).
	slack = 3 * time.Second
	// hangWatchdog is the flat "does not hang" bound for calls without a formula (Stop).
	hangWatchdog = 10 * time.Second
	// optionalCloseWait bounds how long the harness waits for the close notification of a
	// session that never got configured (the statement allows it not to fire at all).
	optionalCloseWait = 300 * time.Millisecond
	// activeBound bounds "probes reach the plugin (after activation)".
	activeBound = 5 * time.Second
)

func TestMain(m *testing.M) {
	adaptation.SetPluginRegistrationTimeout(rtRegTimeout)
	adaptation.SetPluginRequestTimeout(rtReqTimeout)
	os.Exit(m.Run())
}
