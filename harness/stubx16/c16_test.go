package stubx16

import (
	"context"
	"errors"
	"fmt"
	"math"
	"net"
	"os"
	"path/filepath"
	"runtime"
	"sort"
	"strings"
	"sync"
	"sync/atomic"
	"syscall"
	"testing"
	"time"

	"github.com/containerd/nri/pkg/api"
	"github.com/containerd/nri/pkg/stub"
	"github.com/containerd/nri/pkg/verifhook"
	"pgregory.net/rapid"

	"nriverif/ev"
	"nriverif/fx"
)

// ---- the case ---------------------------------------------------------------------------------

// Script says what the runtime end does with the connection a Start dials.
type Script struct {
	// Kind: "healthy" (proxied to the adaptation, never cut by the script), "unreachable" (the
	// dialer returns the kernel's error for a missing socket), "refused" (a raw runtime peer
	// answers RegisterPlugin with an error), "cut" (proxied to the adaptation; the proxy closes
	// both sides as soon as K bytes went through in direction Dir).
	// "regdrop": a raw runtime peer accepts the registration and closes the connection DropMs
	// milliseconds later without ever sending Configure.
	// "raw": a raw runtime peer completes the handshake itself: it registers the plugin and
	// sends Configure with RegistrationTimeout = RegMs and RequestTimeout = ReqMs (which the
	// stub stores as its own timeouts), optionally an empty Synchronize; probes and the
	// plugin's UpdateContainers are served by that peer. "silent": the runtime end accepts the
	// connection and reads, but never answers RegisterPlugin and never closes. "noconfigure":
	// it registers the plugin, then stays silent (no Configure) and never closes.
	Kind string `json:"kind"`
	// How (unreachable): the way the runtime is not there. "" / "absent" = no such path
	// (ENOENT); "stale-socket" = a socket file left behind by a listener that is gone
	// (ECONNREFUSED); "regular-file" / "directory" = the path is something else (whatever the
	// kernel answers); "custom-refused" / "custom-timedout" = the dialer returns an error of
	// its own wrapping ECONNREFUSED / ETIMEDOUT. CtxMs (unreachable): 0 = Start is given
	// context.Background(), otherwise a context with this deadline.
	How   string `json:"how,omitempty"`
	CtxMs int    `json:"ctx_ms,omitempty"`
	// ErrConn (unreachable): what the failing dialer returns BESIDE its error: "" = nil,
	// "typed-nil-tolerant" = a nil pointer of a connection type whose methods tolerate a nil
	// receiver, "typed-nil" = (*net.UnixConn)(nil) (what `return net.DialUnix(...)` yields),
	// "dead" = a non-nil connection that is closed.
	ErrConn string `json:"err_conn,omitempty"`
	Dir     string `json:"dir,omitempty"` // "s2r" (stub to runtime) or "r2s", for cut
	K       int    `json:"k,omitempty"`
	// CloseAfter: the refusing peer also closes the connection right after refusing.
	CloseAfter bool `json:"close_after,omitempty"`
	DropMs     int  `json:"drop_ms,omitempty"` // regdrop
	// raw: the timeout fields of the ConfigureRequest in milliseconds (0 = a runtime that does
	// not set them, negative and very large values included) and whether Synchronize is sent
	RegMs  int64 `json:"reg_ms,omitempty"`
	ReqMs  int64 `json:"req_ms,omitempty"`
	DoSync bool  `json:"do_sync,omitempty"`
	// CfgDelayMs: how long the plugin's own Configure handler takes in this session (a slow
	// plugin); with a stored registration timeout shorter than that, Start gives up while the
	// handler is still running, and the handler's result arrives during whatever comes next.
	CfgDelayMs int `json:"cfg_delay_ms,omitempty"`
	// CfgFail: the plugin's OWN Configure handler rejects the configuration in this session
	// (healthy, raw): "error" = it returns an error, "badmask" = it subscribes to an event it
	// has no handler for. The adaptation drops such a plugin; the raw runtime peer keeps the
	// connection open, or closes it when CloseAfter is set.
	CfgFail string `json:"cfg_fail,omitempty"`
	// Sends: extra requests the raw runtime peer sends in this session (raw only; see Send).
	Sends []Send `json:"sends,omitempty"`
	// Hook: one stub API call the plugin makes from INSIDE a handler of this session, the first
	// time that handler runs (healthy and raw sessions).
	Hook *HookCall `json:"hook,omitempty"`
	// Activate: after a successful healthy Start wait until a probe reaches the plugin before
	// the next action (otherwise the next action may fall into synchronization).
	Activate bool `json:"activate,omitempty"`
	// Fast: if this Start fails, go on to the next action at once (an immediate retry loop)
	// instead of first waiting for Wait and the failed session's close notification.
	Fast bool `json:"fast,omitempty"`
	// Sync: the dialer hands the stub one end of a net.Pipe() instead of a unix socket: an
	// unbuffered connection (what WithDialer/WithConnection users and connection wrappers may
	// provide) on which every Write of the stub lasts until the harness has read the bytes,
	// and a drop in the middle of it is a short write.
	Sync bool `json:"sync,omitempty"`
	// Chunks: sizes of the reads with which the runtime end takes the stub->runtime stream
	// (cyclic; empty = as much as there is).
	Chunks []int `json:"chunks,omitempty"`
	// HoldMs: cut only: having taken the k-th byte the runtime end stops reading for this
	// long before it closes the connection.
	HoldMs int `json:"hold_ms,omitempty"`
}

// HookCall: In = the handler ("configure", "synchronize", "event" = the probe's lifecycle
// event, "create" = a CreateContainer request the harness sends right after Start for this
// purpose); Call = "stop" (Stub.Stop), "update" (Stub.UpdateContainers, answered by the
// runtime end), "update-unanswered" (the runtime end never answers it and does not close: the
// handler stays blocked until somebody stops the stub or the connection goes), "isstarted",
// "timeouts" (RegistrationTimeout and RequestTimeout).
type HookCall struct {
	In   string `json:"in"`
	Call string `json:"call"`
}

// hookState is the run-time side of a HookCall.
type hookState struct {
	spec  HookCall
	fired atomic.Bool
	done  chan struct{} // closed when the call returned
	pan   atomic.Value  // panic text, if the call panicked
}

// Action is one step of a history. Every action is total: it is legal in every model state.
type Action struct {
	// Op: "start", "stop", "wait", "drop" (the proxy closes an established session),
	// "localdrop" (the PLUGIN side's own socket - the connection the dialer returned or that was
	// given with WithConnection - is closed underneath the stub),
	// "restart" (Stop immediately followed by Start), "probe", "bulkstop" / "bulkdrop" (the
	// plugin issues an UpdateContainers of KB kilobytes from a goroutine of its own - with
	// Stall the runtime end has stopped reading - and WaitMs after its first bytes left the stub the stub is stopped / the
	// proxy closes the connection, i.e. while the stub is writing a large frame).
	Op     string  `json:"op"`
	Script *Script `json:"script,omitempty"` // start, restart
	KB     int     `json:"kb,omitempty"`     // bulkstop, bulkdrop
	Stall  bool    `json:"stall,omitempty"`
	WaitMs int     `json:"wait_ms,omitempty"`
}

// C16Case is one history over one stub, plus the delays injected at the two yield points.
type C16Case struct {
	// Plugin: the type of the plugin object ("" = "all", "nocfg", "nosync", "neither",
	// "event"; see plugins_test.go): which handler interfaces it implements.
	Plugin  string   `json:"plugin,omitempty"`
	Actions []Action `json:"actions"`
	// GivenConn: the first session's connection is not dialled by the stub but handed to it
	// with stub.WithConnection (made the same way, by the first action's script, which must be
	// a healthy Start); later sessions go through the dialer.
	GivenConn bool `json:"given_conn,omitempty"`
	// LingerMs: the epilogue's fresh session stays up this long before it is stopped, with
	// probes at 100, 600 and 1200 ms (those that fit): anything an earlier session left
	// pending that would tear a later one down shows there.
	LingerMs int `json:"linger_ms,omitempty"`
	// DelayWaitCfg / DelayConnClosed: milliseconds slept at the i-th hit (cyclically) of
	// "stub.start.waitcfg" / "stub.connclosed". Ignored when hooks are compiled out.
	DelayWaitCfg    []int `json:"delay_waitcfg,omitempty"`
	DelayConnClosed []int `json:"delay_connclosed,omitempty"`
}

// Known-finding switches (each excludes one shape by construction, see genC16):
const (
	knownD8  = "d8-start-blocks-forever"                // no runtime->stub cut before the Configure request is complete
	knownD9  = "d9-late-close-tears-down-later-session" // no back-to-back restart, no immediate retry
	knownD10 = "d10-retry-reuses-dead-connection"       // no Start that dials and then fails
)

// ---- handshake size (domain of k) -------------------------------------------------------------

type handshake struct {
	total    [2]int64 // bytes per direction once the plugin is active (connect..synchronize)
	r2sAtCfg int64    // runtime->stub bytes when the Configure handler was entered
	s2rAtCfg int64
	err      error
}

var (
	hsOnce sync.Once
	hs     handshake
)

// measureHandshake runs one healthy session and records its byte counts. The protocol bytes
// are a function of the fixed plugin name, index and timeouts only.
func measureHandshake() handshake {
	hsOnce.Do(func() {
		// the measuring session is a case like any other: journal it, so that a crash in it
		// (a panic on one of nri's goroutines) is attributed to a replayable case
		mc := C16Case{Actions: []Action{{Op: "start", Script: &Script{Kind: "healthy", Activate: true}}, {Op: "stop"}}}
		ev.Get("C16").Journal(ev.Snapshot(mc))
		defer ev.Get("C16").ClearJournal()
		x, err := newExec(C16Case{})
		if err != nil {
			hs.err = err
			return
		}
		defer x.cleanup()
		if f := x.doStart(Script{Kind: "healthy", Activate: true}); f != nil {
			hs.err = fmt.Errorf("measuring the handshake: %s", f.msg)
			return
		}
		if x.cur == nil {
			hs.err = fmt.Errorf("measuring the handshake: no session")
			return
		}
		// let the tail of the synchronize response through
		time.Sleep(20 * time.Millisecond)
		hs.total[s2r] = x.cur.bytes[s2r].Load()
		hs.total[r2s] = x.cur.bytes[r2s].Load()
		hs.r2sAtCfg = x.r2sAtCfg.Load()
		hs.s2rAtCfg = x.s2rAtCfg.Load()
		_ = x.doStop()
		_ = x.settleIdle("measure")
	})
	return hs
}

// ---- generator --------------------------------------------------------------------------------

// Timeout values a raw runtime puts into its ConfigureRequest (ms): unset, tiny, a few hundred
// ms, the defaults, very large, negative.
var (
	regMsDomain = []int64{0, 0, 1, 300, 300, 5000, 3600000, 1000000000000, -5, math.MaxInt64, math.MaxInt64/1000000 + 1, 1 << 62}
	reqMsDomain = []int64{0, 1, 300, 2000, 2000, 3600000, -5, math.MaxInt64, 1 << 62}
)

var unreachableWays = []string{"absent", "stale-socket", "regular-file", "directory", "custom-refused", "custom-timedout"}

// hugeTimeout: a stored registration timeout above the default is the runtime's own wish to
// wait that long; a silent runtime end is not combined with it.
const hugeTimeout = stub.DefaultRegistrationTimeout

// genScript draws a session script. est is the generator's estimate of the registration
// timeout the stub will have stored when the script runs (ms); it is updated for the next one.
func genScript(t *rapid.T, h handshake, est *int64, plug string) *Script {
	kinds := []string{"healthy", "healthy", "healthy", "healthy", "cut", "cut", "cut", "cut", "unreachable", "refused", "raw", "raw", "silent", "noconfigure", "regdrop"}
	if ev.Known(knownD8) {
		kinds = kinds[:len(kinds)-1]
	}
	if ev.Known(knownD10) {
		kinds = []string{"healthy", "healthy", "unreachable", "raw"}
	}
	if *est <= 300 && !ev.Known(knownD10) {
		// the stub is believed to hold a short registration timeout: this is where a runtime end
		// that stays silent is cheap to sit through
		kinds = append(kinds, "silent", "silent", "noconfigure", "noconfigure")
	}
	before := *est
	s := &Script{Kind: rapid.SampledFrom(kinds).Draw(t, "kind")}
	if s.Kind == "silent" || s.Kind == "noconfigure" {
		// a silent runtime costs the stored registration timeout in wall time (5 s on a fresh
		// stub, 2 s after an adaptation session): mostly drawn after a raw session with a short
		// or unset timeout, rarely otherwise, never after a very large one
		if *est > 300 && (*est > int64(hugeTimeout/time.Millisecond) || rapid.IntRange(0, 39).Draw(t, "slow_silent") != 23) {
			s.Kind = "raw"
		}
	}
	switch s.Kind {
	case "raw":
		s.RegMs = rapid.SampledFrom(regMsDomain).Draw(t, "reg_ms")
		s.ReqMs = rapid.SampledFrom(reqMsDomain).Draw(t, "req_ms")
		s.DoSync = rapid.Bool().Draw(t, "do_sync")
		s.Activate = rapid.IntRange(0, 2).Draw(t, "activate") > 0
		if s.RegMs > 0 {
			*est = s.RegMs // a runtime that sends none (0, negative) leaves the stub's own in place
		}
	case "unreachable":
		s.How = rapid.SampledFrom(unreachableWays).Draw(t, "how")
		s.CtxMs = rapid.SampledFrom([]int{0, 0, 0, 50, 500}).Draw(t, "ctx_ms")
		s.ErrConn = rapid.SampledFrom([]string{"", "", "typed-nil-tolerant", "typed-nil", "dead"}).Draw(t, "err_conn")
	case "healthy":
		s.Activate = rapid.IntRange(0, 2).Draw(t, "activate") > 0
		*est = rtRegTimeout.Milliseconds()
	case "cut":
		*est = rtRegTimeout.Milliseconds() // if it gets as far as Configure (else unchanged: cheaper than estimated)
		d := rapid.IntRange(0, 1).Draw(t, "dir")
		s.Dir = dirNames[d]
		lo := 0
		if d == r2s && ev.Known(knownD8) {
			lo = int(h.r2sAtCfg)
		}
		s.K = rapid.IntRange(lo, int(h.total[d])+8).Draw(t, "k")
	case "refused":
		s.CloseAfter = rapid.Bool().Draw(t, "close_after")
	case "regdrop":
		s.DropMs = rapid.SampledFrom([]int{0, 0, 1, 2, 5, 20}).Draw(t, "drop_ms")
	}
	if s.Kind != "healthy" && s.Kind != "raw" && !ev.Known(knownD9) {
		s.Fast = rapid.IntRange(0, 2).Draw(t, "fast") == 0
	}
	if (s.Kind == "healthy" || s.Kind == "raw" || s.Kind == "cut") && hasHandler(plug, "configure") {
		delays := []int{0, 0, 0, 0, 0, 0, 0, 5, 50}
		if before > 0 && before <= 300 {
			delays = append(delays, 400, 400, 400) // longer than the timeout the stub is believed to hold
		}
		s.CfgDelayMs = rapid.SampledFrom(delays).Draw(t, "cfg_delay_ms")
	}
	if (s.Kind == "healthy" || s.Kind == "raw") && hasHandler(plug, "configure") {
		s.CfgFail = rapid.SampledFrom([]string{"", "", "", "", "", "", "error", "badmask"}).Draw(t, "cfg_fail")
		if s.CfgFail != "" && s.Kind == "raw" {
			s.CloseAfter = rapid.Bool().Draw(t, "close_after")
		}
		if s.CfgFail != "" && !ev.Known(knownD9) {
			s.Fast = rapid.IntRange(0, 2).Draw(t, "fast") == 0
		}
	}
	if s.Kind == "raw" && s.CfgFail == "" && rapid.Bool().Draw(t, "sends") {
		send := rapid.Custom(func(t *rapid.T) Send {
			return Send{
				At:  rapid.SampledFrom([]string{"after-sync", "after-probe", "before-end"}).Draw(t, "at"),
				Req: rapid.SampledFrom([]string{"shutdown", "shutdown", "shutdown", "configure", "configure", "configure", "synchronize", "unknown-event", "unknown-method"}).Draw(t, "req"),
			}
		})
		s.Sends = rapid.SliceOfN(send, 1, 4).Draw(t, "send_list")
		// up to three more Configure requests (a second, third and fourth one on the connection)
		n := 0
		for i := range s.Sends {
			if s.Sends[i].Req == "configure" {
				if n++; n > 3 {
					s.Sends[i].Req = "shutdown"
				}
			}
		}
	}
	if (s.Kind == "healthy" && rapid.IntRange(0, 2).Draw(t, "hooked") == 1) || (s.Kind == "raw" && rapid.IntRange(0, 2).Draw(t, "hooked") >= 1) {
		calls := []string{"stop", "stop", "isstarted", "timeouts"}
		if s.Kind == "raw" {
			calls = append(calls, "update", "update-unanswered", "update-unanswered")
		}
		h := &HookCall{
			In:   rapid.SampledFrom([]string{"configure", "synchronize", "synchronize", "event", "create"}).Draw(t, "hook_in"),
			Call: rapid.SampledFrom(calls).Draw(t, "hook_call"),
		}
		if h.In == "configure" && blockingCall(h.Call) {
			// costs a whole timeout (2 s against the adaptation, the stored one against the raw
			// peer): mostly where that is short
			cheap := s.Kind == "raw" && before > 0 && before <= 300
			if before > int64(hugeTimeout/time.Millisecond) || (!cheap && rapid.IntRange(0, 39).Draw(t, "slow_hook") != 23) {
				h.Call = "timeouts"
			}
		}
		if h.In == "synchronize" && s.Kind == "raw" {
			s.DoSync = true
		}
		if hasHandler(plug, h.In) {
			s.Hook = h
		}
	}
	if s.Kind != "unreachable" {
		s.Sync = rapid.IntRange(0, 2).Draw(t, "sync") == 0
		if s.Sync || rapid.IntRange(0, 3).Draw(t, "chunked") == 0 {
			s.Chunks = rapid.SliceOfN(rapid.OneOf(rapid.IntRange(1, 9), rapid.IntRange(1, 100)), 0, 3).Draw(t, "chunks")
		}
		if s.Kind == "cut" {
			s.HoldMs = rapid.SampledFrom([]int{0, 0, 0, 1, 5}).Draw(t, "hold_ms")
		}
	}
	return s
}

func genBulk(t *rapid.T, a *Action) {
	a.KB = rapid.SampledFrom([]int{1, 100, 3000}).Draw(t, "kb")
	a.Stall = rapid.Bool().Draw(t, "stall")
	a.WaitMs = rapid.SampledFrom([]int{0, 1, 5, 20}).Draw(t, "wait_ms")
}

func genC16(t *rapid.T) C16Case {
	h := measureHandshake()
	if h.err != nil {
		t.Fatalf("fixture: %v", h.err)
	}
	ops := []string{"start", "start", "start", "start", "start", "stop", "stop", "wait", "wait", "drop", "drop", "localdrop", "localdrop", "restart", "restart", "restart", "probe", "probe", "bulkstop", "bulkstop", "bulkdrop"}
	if ev.Known(knownD9) {
		ops = []string{"start", "start", "start", "start", "start", "stop", "stop", "wait", "wait", "drop", "drop", "localdrop", "localdrop", "probe", "probe", "bulkstop", "bulkstop", "bulkdrop"}
	}
	var c C16Case
	c.Plugin = rapid.SampledFrom([]string{"all", "all", "all", "nocfg", "nocfg", "nosync", "neither", "event", "shutdown", "shutdown"}).Draw(t, "plugin")
	// a history begins with a Start: Wait is documented for use after Start or Run
	// the generator's own idea of the history (is the stub up, which registration timeout does
	// it hold): only used to place the costly and the telling scripts, never by the oracle
	est := stub.DefaultRegistrationTimeout.Milliseconds()
	up := false
	staysUp := func(s *Script) bool {
		return (s.Kind == "healthy" || s.Kind == "raw") && s.CfgFail == "" && (s.Hook == nil || s.Hook.Call != "stop")
	}
	first := genScript(t, h, &est, c.Plugin)
	up = staysUp(first)
	c.Actions = append(c.Actions, Action{Op: "start", Script: first})
	n := rapid.IntRange(1, 7).Draw(t, "n")
	for i := 0; i < n; i++ {
		a := Action{Op: rapid.SampledFrom(ops).Draw(t, "op")}
		switch a.Op {
		case "start", "restart":
			if a.Op == "start" && up {
				// answered "already started": no connection, nothing stored
				scratch := est
				a.Script = genScript(t, h, &scratch, c.Plugin)
			} else {
				a.Script = genScript(t, h, &est, c.Plugin)
				up = staysUp(a.Script)
			}
		case "stop", "drop", "localdrop", "bulkstop", "bulkdrop":
			up = false
		}
		if a.Op == "bulkstop" || a.Op == "bulkdrop" {
			genBulk(t, &a)
		}
		c.Actions = append(c.Actions, a)
	}
	// a long epilogue costs its length in wall time: a modest share of the histories in which a
	// raw runtime sent something extra, a small one of the others
	sent := false
	for _, a := range c.Actions {
		if a.Script != nil && len(a.Script.Sends) > 0 {
			sent = true
		}
	}
	lingers := make([]int, 60) // zeros
	lingers[41] = 700
	if sent {
		lingers = []int{0, 0, 0, 0, 0, 700, 700, 1300}
	}
	c.LingerMs = rapid.SampledFrom(lingers).Draw(t, "linger_ms")
	if c.Actions[0].Script.Kind == "healthy" {
		c.GivenConn = rapid.IntRange(0, 3).Draw(t, "given_conn") == 2
	}
	delay := rapid.OneOf(rapid.Just(0), rapid.Just(0), rapid.IntRange(1, 5), rapid.IntRange(5, 30))
	c.DelayWaitCfg = rapid.SliceOfN(delay, 0, 3).Draw(t, "delay_waitcfg")
	c.DelayConnClosed = rapid.SliceOfN(delay, 0, 3).Draw(t, "delay_connclosed")
	return c
}

// ---- execution --------------------------------------------------------------------------------

// failure is an oracle verdict. soft = it depends on the clock (or on the adaptation's own
// timeouts) and must be confirmed by re-execution before it counts.
type failure struct {
	msg  string
	soft bool
}

func hard(format string, a ...any) *failure { return &failure{msg: fmt.Sprintf(format, a...)} }
func soft(format string, a ...any) *failure {
	return &failure{msg: fmt.Sprintf(format, a...), soft: true}
}

type step struct {
	I      int     `json:"i"` // index into the case's actions; -1 = epilogue
	Op     string  `json:"op"`
	Detail string  `json:"detail,omitempty"`
	Ms     float64 `json:"ms"`
	Dials  int32   `json:"dials"`
	Closes int32   `json:"close_notifications"`
	Cfgs   int32   `json:"configures"`
	Probes int32   `json:"probes_seen"`
	Model  string  `json:"model"`
	Link   string  `json:"link,omitempty"`
}

type isStarted interface{ IsStarted() bool }

type exec struct {
	c   C16Case
	rt  *fx.Runtime
	pl  *fx.Plugin
	st  stub.Stub
	dir string

	dials, closes, cfgs, probes atomic.Int32
	shutdowns                   atomic.Int32 // invocations of the plugin's Shutdown handler
	r2sAtCfg, s2rAtCfg          atomic.Int64
	hits                        [2]atomic.Int32

	mu       sync.Mutex
	pending  *Script
	cfgDelay time.Duration // what the plugin's Configure handler sleeps, set by the Start under way
	cfgFail  string        // how the plugin's Configure handler fails in the session under way
	hook     *hookState    // in-handler call of the session under way
	links    []*link
	refusers []*refuser
	dialErr  error // infrastructure problem inside the dialer

	// model
	up       bool
	cur      *link // link of the up session
	last     *link // link of the most recent session that dialled
	attempts int   // Start calls made from the idle state (= sessions)
	estEnded int   // established sessions that ended (Stop, drop, cut)
	optSeen  int   // failed sessions whose (optional) close notification was seen
	optOut   int   // failed sessions that dialled and whose notification is outstanding
	optLost  int   // ... and was not seen within optionalCloseWait (it may still come, late)
	waiters  []chan struct{}
	bulks    []chan error // pending large UpdateContainers calls

	// bookkeeping for evidence
	hist        []step
	cur_i       int
	classes     map[string]bool
	lenient     map[string]bool
	faulted     bool // a session ended by fault or back-to-back restart
	wedged      bool // a stub call did not return: the stub is abandoned
	givenUnused bool // the connection given with WithConnection has not been used by a Start yet
	unsetSeen   bool // a raw runtime that sent RegistrationTimeout <= 0 configured this stub
	// stillStarted: at the last idle state the stub kept reporting IsStarted for 3 s
	stillStarted bool
	stacks       string
	maxCCWait    time.Duration
}

func newExec(c C16Case) (*exec, error) {
	x := &exec{c: c, classes: map[string]bool{}, lenient: map[string]bool{}, cur_i: -1}
	rt, err := fx.NewRuntime()
	if err != nil {
		return nil, err
	}
	x.rt = rt
	x.dir = rt.Dir
	x.pl = &fx.Plugin{Name: "c16", Idx: "16"}
	x.pl.OnConfigure = func(context.Context, string, string, string) (api.EventMask, error) {
		x.mu.Lock()
		l := x.last
		d := x.cfgDelay
		fail := x.cfgFail
		x.mu.Unlock()
		if d == 0 && l != nil {
			x.r2sAtCfg.Store(l.bytes[r2s].Load())
			x.s2rAtCfg.Store(l.bytes[s2r].Load())
		}
		x.cfgs.Add(1) // entered; counted once, before the slow part
		x.runHook("configure")
		if d > 0 {
			time.Sleep(d)
		}
		switch fail {
		case "error":
			return 0, errors.New("verif: the plugin rejects this configuration")
		case "badmask":
			return api.EventMask(1 << 20), nil // no handler exists for this event
		}
		return 0, nil
	}
	x.pl.OnSynchronize = func(context.Context, []*api.PodSandbox, []*api.Container) ([]*api.ContainerUpdate, error) {
		x.runHook("synchronize")
		return nil, nil
	}
	x.pl.OnEvent = func(_ context.Context, e api.Event, pod *api.PodSandbox, _ *api.Container) error {
		if e == api.Event_REMOVE_POD_SANDBOX && fx.IsProbe(pod) {
			x.probes.Add(1)
			x.runHook("event")
		}
		return nil
	}
	x.pl.OnCreate = func(context.Context, *api.PodSandbox, *api.Container) (*api.ContainerAdjustment, []*api.ContainerUpdate, error) {
		x.runHook("create")
		return nil, nil, nil
	}
	x.pl.OnClose = func() { x.closes.Add(1) }
	opts := []stub.Option{stub.WithPluginName(x.pl.Name), stub.WithPluginIdx(x.pl.Idx), stub.WithSocketPath(rt.Socket),
		stub.WithOnClose(func() { x.closes.Add(1) }), stub.WithDialer(x.dial)}
	if c.GivenConn && len(c.Actions) > 0 && c.Actions[0].Op == "start" && c.Actions[0].Script != nil && c.Actions[0].Script.Kind == "healthy" {
		// the first connection is made now, by the first script, and given to the stub
		x.pending = c.Actions[0].Script
		conn, derr := x.dial("")
		if derr != nil {
			rt.Stop()
			return nil, derr
		}
		opts = append(opts, stub.WithConnection(conn))
		x.givenUnused = true
	}
	st, err := stub.New(pluginObject(c.Plugin, x.pl, func() { x.shutdowns.Add(1) }), opts...)
	if err != nil {
		rt.Stop()
		return nil, err
	}
	x.st = st
	for _, d := range c.DelayConnClosed {
		if dd := time.Duration(d) * time.Millisecond; dd > x.maxCCWait {
			x.maxCCWait = dd
		}
	}
	if verifhook.Enabled && (len(c.DelayWaitCfg) > 0 || len(c.DelayConnClosed) > 0) {
		verifhook.Set(func(name string) {
			var ds []int
			var idx int
			switch name {
			case "stub.start.waitcfg":
				ds, idx = x.c.DelayWaitCfg, 0
			case "stub.connclosed":
				ds, idx = x.c.DelayConnClosed, 1
			default:
				return
			}
			if len(ds) == 0 {
				return
			}
			h := int(x.hits[idx].Add(1)) - 1
			if d := ds[h%len(ds)]; d > 0 {
				time.Sleep(time.Duration(d) * time.Millisecond)
			}
		})
	}
	return x, nil
}

func (x *exec) cleanup() {
	if os.Getenv("VERIF_DEV") != "" {
		defer func(t0 time.Time) {
			if d := time.Since(t0); d > 50*time.Millisecond {
				fmt.Fprintf(os.Stderr, "SLOWCLEANUP %v case %s\n", d, ev.Snapshot(x.c))
			}
		}(time.Now())
	}
	verifhook.Set(nil)
	x.mu.Lock()
	links := append([]*link(nil), x.links...)
	refs := append([]*refuser(nil), x.refusers...)
	x.mu.Unlock()
	if !x.wedged && x.st != nil {
		// best effort: never leave a session behind
		x.guarded(hangWatchdog, func() error { x.st.Stop(); return nil })
	}
	for _, l := range links {
		l.shut("proxy")
	}
	for _, r := range refs {
		r.close()
	}
	for _, l := range links {
		waitWG(&l.wg, 2*time.Second)
	}
	for _, w := range x.waiters {
		select {
		case <-w:
		case <-time.After(100 * time.Millisecond):
		}
	}
	x.rt.Stop()
}

func waitWG(wg *sync.WaitGroup, d time.Duration) {
	c := make(chan struct{})
	go func() { wg.Wait(); close(c) }()
	select {
	case <-c:
	case <-time.After(d):
	}
}

// dial is the stub's dialer: every call is one new connection, scripted by the Start that
// caused it.
func (x *exec) dial(string) (net.Conn, error) {
	n := int(x.dials.Add(1))
	x.mu.Lock()
	sc := x.pending
	x.pending = nil
	x.mu.Unlock()
	if sc == nil {
		sc = &Script{Kind: "healthy"}
	}
	if sc.Kind == "unreachable" {
		// stays unreachable for as long as this Start keeps dialling
		x.mu.Lock()
		x.pending = sc
		x.mu.Unlock()
		_, err := x.dialUnreachable(sc.How, n)
		switch sc.ErrConn {
		case "typed-nil-tolerant":
			return (*deadConn)(nil), err
		case "typed-nil":
			return (*net.UnixConn)(nil), err
		case "dead":
			return &deadConn{}, err
		}
		return nil, err
	}
	var a, b net.Conn
	var err error
	if sc.Sync {
		a, b = net.Pipe()
	} else if a, b, err = socketpair(); err != nil {
		x.infra(err)
		return nil, err
	}
	var out net.Conn
	var peer *refuser
	if isRawKind(sc.Kind) {
		c, d, err := socketpair()
		if err == nil {
			var r *refuser
			mode := rawMode{closeAfter: sc.CloseAfter, delay: time.Millisecond}
			switch sc.Kind {
			case "regdrop":
				mode = rawMode{accept: true, closeAfter: true, delay: time.Duration(sc.DropMs) * time.Millisecond}
			case "silent":
				mode = rawMode{silent: true}
			case "noconfigure":
				mode = rawMode{accept: true}
			case "raw":
				mode = rawMode{accept: true, configure: true, regMs: sc.RegMs, reqMs: sc.ReqMs, doSync: sc.DoSync,
					updSilent: sc.Hook != nil && sc.Hook.Call == "update-unanswered", closeOnCfgErr: sc.CloseAfter, sends: sc.Sends}
			}
			if r, err = newRefuser(d, mode); err == nil {
				peer = r
				x.mu.Lock()
				x.refusers = append(x.refusers, r)
				x.mu.Unlock()
			} else {
				c.Close()
				d.Close()
			}
		}
		if err != nil {
			a.Close()
			b.Close()
			x.infra(err)
			return nil, err
		}
		out = c
	} else {
		out, err = net.Dial("unix", x.rt.Socket)
		if err != nil {
			a.Close()
			b.Close()
			x.infra(err)
			return nil, err
		}
	}
	o := linkOpts{cutDir: -1, chunks: sc.Chunks}
	if sc.Kind == "cut" {
		o.cutDir, o.k, o.hold = s2r, int64(sc.K), time.Duration(sc.HoldMs)*time.Millisecond
		if sc.Dir == "r2s" {
			o.cutDir = r2s
		}
	}
	l := newLink(n, b, out, o)
	l.peer = peer
	l.stubEnd = a
	x.mu.Lock()
	x.links = append(x.links, l)
	x.last = l
	x.mu.Unlock()
	return a, nil
}

// runHook makes the session's in-handler call, once, if this is the handler it is planned for.
func (x *exec) runHook(kind string) {
	x.mu.Lock()
	h := x.hook
	x.mu.Unlock()
	if h == nil || h.spec.In != kind || h.fired.Swap(true) {
		return
	}
	defer close(h.done)
	defer func() {
		if p := recover(); p != nil {
			h.pan.Store(fmt.Sprint(p))
		}
	}()
	switch h.spec.Call {
	case "stop":
		x.st.Stop()
	case "update", "update-unanswered":
		_, _ = x.st.UpdateContainers([]*api.ContainerUpdate{{ContainerId: "c16-from-handler"}})
	case "isstarted":
		if is, ok := x.st.(isStarted); ok {
			_ = is.IsStarted()
		}
	case "timeouts":
		_ = x.st.RegistrationTimeout()
		_ = x.st.RequestTimeout()
	}
}

// deadConn is a connection that is closed; its methods tolerate a nil receiver.
type deadConn struct{}

func (c *deadConn) Read([]byte) (int, error)         { return 0, net.ErrClosed }
func (c *deadConn) Write([]byte) (int, error)        { return 0, net.ErrClosed }
func (c *deadConn) Close() error                     { return nil }
func (c *deadConn) LocalAddr() net.Addr              { return &net.UnixAddr{Name: "dead", Net: "unix"} }
func (c *deadConn) RemoteAddr() net.Addr             { return &net.UnixAddr{Name: "dead", Net: "unix"} }
func (c *deadConn) SetDeadline(time.Time) error      { return nil }
func (c *deadConn) SetReadDeadline(time.Time) error  { return nil }
func (c *deadConn) SetWriteDeadline(time.Time) error { return nil }

// dialUnreachable produces the error of a runtime that is not there, in one of several ways;
// wherever the kernel can say it, the kernel does.
func (x *exec) dialUnreachable(how string, n int) (net.Conn, error) {
	path := filepath.Join(x.dir, fmt.Sprintf("gone%d.sock", n))
	switch how {
	case "stale-socket":
		// a listener that went away and left its socket file behind
		l, err := net.ListenUnix("unix", &net.UnixAddr{Name: path, Net: "unix"})
		if err != nil {
			x.infra(err)
			return nil, err
		}
		l.SetUnlinkOnClose(false)
		l.Close()
	case "regular-file":
		if err := os.WriteFile(path, []byte("not a socket"), 0o600); err != nil {
			x.infra(err)
			return nil, err
		}
	case "directory":
		if err := os.Mkdir(path, 0o700); err != nil {
			x.infra(err)
			return nil, err
		}
	case "custom-refused":
		return nil, fmt.Errorf("verif dialer: runtime not accepting connections: %w", syscall.ECONNREFUSED)
	case "custom-timedout":
		return nil, fmt.Errorf("verif dialer: %w", syscall.ETIMEDOUT)
	}
	c, err := net.Dial("unix", path)
	if err == nil { // cannot happen; never hand out a half-made connection
		c.Close()
		err = errors.New("verif: unexpectedly connected to " + path)
		x.infra(err)
	}
	return nil, err
}

func isRawKind(k string) bool {
	switch k {
	case "refused", "regdrop", "silent", "noconfigure", "raw":
		return true
	}
	return false
}

func (x *exec) infra(err error) {
	x.mu.Lock()
	if x.dialErr == nil {
		x.dialErr = err
	}
	x.mu.Unlock()
}

func (x *exec) lastLink() *link {
	x.mu.Lock()
	defer x.mu.Unlock()
	return x.last
}

// guarded runs a stub call on its own goroutine under a watchdog. returned=false means the
// call is still blocked: its goroutine is leaked and the stub must be abandoned.
func (x *exec) guarded(bound time.Duration, f func() error) (err error, returned bool, panicked string) {
	type res struct {
		err error
		pan string
	}
	c := make(chan res, 1)
	go func() {
		defer func() {
			if p := recover(); p != nil {
				c <- res{pan: fmt.Sprint(p)}
			}
		}()
		c <- res{err: f()}
	}()
	t := time.NewTimer(bound)
	defer t.Stop()
	select {
	case r := <-c:
		return r.err, true, r.pan
	case <-t.C:
		x.wedged = true
		buf := make([]byte, 1<<20)
		x.stacks = trimStacks(string(buf[:runtime.Stack(buf, true)]))
		return nil, false, ""
	}
}

// trimStacks keeps the goroutines that are inside pkg/stub (that is where a blocked call sits).
func trimStacks(s string) string {
	var keep []string
	for _, g := range strings.Split(s, "\n\n") {
		if strings.Contains(g, "nri/pkg/stub.") {
			keep = append(keep, g)
		}
	}
	out := strings.Join(keep, "\n\n")
	if len(out) > 12000 {
		out = out[:12000] + "\n..."
	}
	return out
}

func (x *exec) model() string {
	if x.up {
		return fmt.Sprintf("up(%d)", x.cur.n)
	}
	return "idle"
}

func (x *exec) rec(op string, t0 time.Time, format string, a ...any) {
	s := step{I: x.cur_i, Op: op, Detail: fmt.Sprintf(format, a...), Ms: float64(time.Since(t0).Microseconds()) / 1000,
		Dials: x.dials.Load(), Closes: x.closes.Load(), Cfgs: x.cfgs.Load(), Probes: x.probes.Load(), Model: x.model()}
	if l := x.lastLink(); l != nil {
		s.Link = l.status()
	}
	x.hist = append(x.hist, s)
}

func errStr(err error) string {
	if err == nil {
		return "nil"
	}
	return err.Error()
}

// configuredDuring tells whether the plugin was configured during the Start call that just
// returned. A plugin with a Configure handler knows (the handler ran). For one without, the
// stub answers Configure on its own and the wire tells: the raw runtime peer has sent its
// Configure request, or - towards the adaptation - the proxy has forwarded the runtime->stub
// stream up to the end of the Configure request (its offset is fixed by the protocol and
// measured once per process with the "all" plugin).
func (x *exec) configuredDuring(c0 int32, l *link) bool {
	if hasHandler(x.c.Plugin, "configure") {
		return x.cfgs.Load() > c0
	}
	if l == nil {
		return false
	}
	if l.peer != nil {
		return l.peer.cfgSent.Load()
	}
	h := measureHandshake()
	return h.err == nil && l.bytes[r2s].Load() >= h.r2sAtCfg
}

// startBound is the property's bound for Start: the stub's registration timeout until it is
// configured, plus its request timeout, plus the slack - taken from the stub's public
// getters as they stand now (an earlier session's Configure may have changed them) where they
// are positive and not above the defaults; the defaults are the ceiling otherwise: a stub
// that stored 0 or a negative value still has to return in bounded time, and a Start that
// legitimately waits out a very large stored timeout is never provoked (see tinyOrHuge).
func (x *exec) startBound() time.Duration {
	reg, req := x.st.RegistrationTimeout(), x.st.RequestTimeout()
	if reg <= 0 || reg > stub.DefaultRegistrationTimeout {
		reg = stub.DefaultRegistrationTimeout
	}
	if req <= 0 || req > stub.DefaultRequestTimeout {
		req = stub.DefaultRequestTimeout
	}
	return reg + req + slack
}

// minUsableTimeout: below this stored registration timeout a Start against a healthy runtime
// is not required to succeed (a stub that was told 0 or 1 ms gives up at once; it returns an
// error in bounded time, which is all the statement asks of a failed start).
const minUsableTimeout = time.Second

func (x *exec) doStart(sc Script) *failure {
	t0 := time.Now()
	wasUp := x.up
	regNow := x.st.RegistrationTimeout()
	if (sc.Kind == "silent" || sc.Kind == "noconfigure") && regNow > hugeTimeout && !wasUp {
		// the runtime of an earlier session asked the stub to wait this long: waiting it out
		// against a silent runtime is legitimate, and not something to sit through
		x.classes["start:silent-skipped-huge-timeout"] = true
		x.rec("start", t0, "%s: not issued, the stub's registration timeout is %v", sc.Kind, regNow)
		return nil
	}
	x.mu.Lock()
	x.pending = &sc
	x.cfgDelay = time.Duration(sc.CfgDelayMs) * time.Millisecond
	x.cfgFail = ""
	rejects := (sc.Kind == "healthy" || sc.Kind == "raw") && (sc.CfgFail == "error" || sc.CfgFail == "badmask") && hasHandler(x.c.Plugin, "configure")
	if rejects {
		x.cfgFail = sc.CfgFail
	}
	x.hook = nil
	if h := validHook(sc); h != nil && !wasUp && hasHandler(x.c.Plugin, h.In) && h.In == "configure" && blockingCall(h.Call) && regNow > hugeTimeout {
		// a handshake that cannot finish (its Configure handler waits for the lock Start holds)
		// ends by the stub's timeout: like a silent runtime end it is not combined with a very
		// large timeout an earlier runtime asked for
		x.classes["hook-skipped-huge-timeout"] = true
	} else if h != nil && !wasUp && hasHandler(x.c.Plugin, h.In) {
		x.hook = &hookState{spec: *h, done: make(chan struct{})}
		x.classes["hook:"+h.In+":"+h.Call] = true
	}
	hk := x.hook
	x.mu.Unlock()
	if sc.CfgDelayMs >= 50 {
		x.classes["slow-configure-handler"] = true
	}
	d0, c0 := x.dials.Load(), x.cfgs.Load()
	x.mu.Lock()
	l0 := len(x.links)
	x.mu.Unlock()
	bound := x.startBound()
	ctx, cancel := context.Background(), context.CancelFunc(func() {})
	if sc.Kind == "unreachable" && sc.CtxMs > 0 && !wasUp {
		ctx, cancel = context.WithTimeout(ctx, time.Duration(sc.CtxMs)*time.Millisecond)
	}
	err, returned, pan := x.guarded(bound, func() error { return x.st.Start(ctx) })
	cancel()
	x.mu.Lock()
	x.pending = nil
	ierr := x.dialErr
	connected := len(x.links) - l0 // dials that yielded a connection
	x.mu.Unlock()
	dialed := x.dials.Load() - d0
	if x.givenUnused && dialed == 0 && !wasUp {
		// this Start used the connection given with WithConnection (made before, by its script)
		x.givenUnused = false
		x.classes["given-connection"] = true
		dialed, connected = 1, 1
	}
	desc := sc.Kind
	if sc.Kind == "unreachable" {
		how := sc.How
		if how == "" {
			how = "absent"
		}
		desc += " (" + how
		if sc.CtxMs > 0 {
			desc += fmt.Sprintf(", context deadline %d ms", sc.CtxMs)
		}
		desc += ")"
		if !wasUp {
			x.classes["unreachable:"+how] = true
			if sc.CtxMs > 0 {
				x.classes["unreachable:ctx-deadline"] = true
			}
			if sc.ErrConn != "" {
				x.classes["unreachable:dialer-returns-"+sc.ErrConn] = true
			}
		}
	}
	if sc.Kind == "cut" {
		desc = fmt.Sprintf("cut %s k=%d", sc.Dir, sc.K)
		if sc.HoldMs > 0 {
			desc += fmt.Sprintf(" hold=%dms", sc.HoldMs)
		}
	}
	if rejects {
		desc += " (plugin's Configure handler: " + sc.CfgFail + ")"
	}
	if sc.Sync && sc.Kind != "unreachable" {
		desc += " over net.Pipe"
	}
	if len(sc.Chunks) > 0 && sc.Kind != "unreachable" {
		desc += fmt.Sprintf(" chunks=%v", sc.Chunks)
	}
	if pan != "" {
		x.rec("start", t0, "%s: PANIC %s", desc, pan)
		return hard("Start (%s) panicked: %s", desc, pan)
	}
	if !returned {
		x.rec("start", t0, "%s: still blocked after %v", desc, bound)
		return soft("Start (%s) did not return within %v (stub registration timeout + request timeout + %v slack); every later Stop/Wait would block behind it", desc, bound, slack)
	}
	x.rec("start", t0, "%s: err=%s dialed=%d", desc, errStr(err), dialed)
	if ierr != nil {
		return &failure{msg: "infrastructure: " + ierr.Error(), soft: true}
	}

	if wasUp {
		// Start on a started stub: a legal step. It must not claim success for a session it
		// did not configure.
		x.classes["start:while-up"] = true
		if err == nil && !x.configuredDuring(c0, nil) {
			return hard("Start on an already started stub returned nil without the plugin being configured")
		}
		return x.settleUp("start-while-up")
	}

	x.attempts++
	if x.attempts >= 3 {
		x.classes["sessions>=3"] = true
	}
	if sc.Sync && connected > 0 {
		x.classes["sync:"+sc.Kind] = true
		if sc.Kind == "cut" {
			x.classes["sync:cut-"+sc.Dir] = true
		}
	}
	if err == nil {
		var lk0 *link
		if connected > 0 {
			lk0 = x.lastLink()
		}
		if !x.configuredDuring(c0, lk0) {
			return hard("Start (%s) returned nil although the plugin was not configured during the call", desc)
		}
		if dialed != 1 {
			return hard("Start (%s) succeeded but dialled %d new connections (expected exactly one fresh connection)", desc, dialed)
		}
		lk := x.lastLink()
		if rejects {
			return hard("Start (%s) returned nil although the plugin's own Configure handler rejected the configuration", desc)
		}
		switch sc.Kind {
		case "unreachable", "refused", "regdrop", "silent", "noconfigure":
			return hard("Start returned nil although the runtime end was %s", sc.Kind)
		case "cut":
			// established, but the connection is lost (or about to be): let the cut happen on
			// its own while the runtime synchronizes, then make sure it happened.
			x.classes["start:cut-established"] = true
			x.classes["cut:"+sc.Dir] = true
			x.awaitCutOrActive(lk)
			if lk.who() == "" {
				x.classes["cut:beyond-handshake"] = true
			}
			lk.shut("proxy")
			x.estEnded++
			x.faulted = true
			return x.settleIdle("cut session")
		}
		x.classes["start:"+sc.Kind] = true
		if sc.Kind == "raw" {
			ncfg := 0
			for _, sd := range sc.Sends {
				if sd.Req == "configure" {
					if ncfg++; ncfg >= 2 {
						x.classes["send:configure-3rd-or-4th"] = true
					}
				}
				x.classes["send:"+sd.Req] = true
				x.classes["send-at:"+sd.At] = true
			}
			// D22 / D27: whatever a runtime announces (nothing, a negative value, a value too
			// large for a Duration), the stub keeps a positive timeout
			if now := x.st.RegistrationTimeout(); now <= 0 {
				return hard("after a session whose runtime sent RegistrationTimeout=%d the stub's RegistrationTimeout() is %v: a later Start can only fail", sc.RegMs, now)
			}
			if sc.RegMs > math.MaxInt64/1000000 {
				x.classes["raw:reg-overflowing"] = true
			}
			switch {
			case sc.RegMs <= 0:
				x.classes["raw:reg<=0"] = true
				x.unsetSeen = true
			case sc.RegMs < 1000:
				x.classes["raw:reg-short"] = true
			case sc.RegMs > 5000:
				x.classes["raw:reg-huge"] = true
			default:
				x.classes["raw:reg-default"] = true
			}
		}
		x.up, x.cur = true, lk
		if hk != nil {
			return x.afterHook(hk, sc)
		}
		if f := x.settleUp("start"); f != nil {
			return f
		}
		if sc.Activate {
			return x.waitActive("after Start")
		}
		return nil
	}

	// Start failed from the idle state.
	x.faulted = true
	if hk != nil && hk.fired.Load() {
		if f := x.hookReturned(hk); f != nil {
			return f
		}
	}
	if connected > 0 {
		x.optOut++
	}
	switch sc.Kind {
	case "healthy", "raw":
		if rejects {
			// the expected way for this Start to fail; what follows is judged as after any failed
			// start: Wait returns, the stub closes the connection, a restart dials a fresh one
			x.classes["start:configure-rejected:"+sc.CfgFail] = true
			if sc.Kind == "raw" {
				if sc.CloseAfter {
					x.classes["configure-rejected:runtime-closes"] = true
				} else {
					x.classes["configure-rejected:runtime-keeps-connection"] = true
				}
			} else {
				x.classes["configure-rejected:adaptation-drops"] = true
			}
			break
		}
		if hk != nil && hk.spec.In == "configure" && blockingCall(hk.spec.Call) {
			// Start holds the stub lock for the whole handshake: a call that needs that lock (or
			// an answer that never comes) made from inside Configure keeps the handler from
			// returning until the runtime's or the stub's own timeout ends the handshake. Start
			// returns an error in bounded time; that much is judged, the failure itself is not.
			x.classes["start:failed-blocking-call-in-configure"] = true
			x.lenient["start-fails-when-configure-handler-calls-a-lock-taking-stub-method"] = true
			break
		}
		if regNow <= 0 {
			// D22: a runtime that sent no timeouts (0, negative) must not leave the stub with
			// none of its own: it could never be started again
			return hard("a Start (%s) against a healthy runtime failed and the stub holds a registration timeout of %v: it took over the zero/negative timeout an earlier runtime sent and cannot be started again: %v", desc, regNow, err)
		}
		if regNow < minUsableTimeout {
			// not judged: see minUsableTimeout
			x.classes["start:failed-tiny-timeout"] = true
			x.lenient["start-fails-with-stored-registration-timeout-below-1s"] = true
			break
		}
		if dialed == 0 {
			f := hard("a healthy Start failed without dialling: the stub did not use a fresh connection (dials stays %d): %v", x.dials.Load(), err)
			if x.stillStarted {
				// the stub had not visibly finished the previous session: slowness could explain it
				f.soft = true
				f.msg += " (the stub still reported being started 3 s after the previous session ended)"
			}
			return f
		}
		return soft("a Start (%s) on a fresh connection to a healthy runtime failed: %v", desc, err)
	case "cut":
		x.classes["start:cut-failed"] = true
		x.classes["cut:"+sc.Dir] = true
	default:
		x.classes["start:"+sc.Kind] = true
		if sc.Kind == "silent" || sc.Kind == "noconfigure" {
			if x.unsetSeen {
				x.classes["silent:after-runtime-sent-no-timeouts"] = true
			}
			if regNow < minUsableTimeout {
				x.classes["silent:short-stored-timeout"] = true
			} else {
				x.classes["silent:stored-timeout>=1s"] = true
			}
		}
	}
	if sc.Fast {
		x.classes["retry-fast"] = true
		return nil
	}
	return x.settleIdle("failed Start")
}

// awaitCutOrActive waits until the proxy cut the session, somebody else closed it, or a probe
// reached the plugin (nothing more will flow on its own then).
func (x *exec) awaitCutOrActive(l *link) {
	base := x.probes.Load()
	deadline := time.Now().Add(activeBound)
	for l.who() == "" && time.Now().Before(deadline) {
		_ = x.rt.Probe()
		if x.probes.Load() > base {
			return
		}
		time.Sleep(time.Millisecond)
	}
}

// validHook returns the script's in-handler call if it is in the domain: healthy and raw
// sessions only; UpdateContainers from inside a handler only against the raw runtime peer
// (against the adaptation it deadlocks by design: the adaptation holds its lock while it waits
// for the plugin's answer); a Synchronize hook needs a runtime that sends Synchronize.
func validHook(sc Script) *HookCall {
	h := sc.Hook
	if h == nil || (sc.Kind != "healthy" && sc.Kind != "raw") {
		return nil
	}
	switch h.In {
	case "configure", "synchronize", "event", "create":
	default:
		return nil
	}
	switch h.Call {
	case "update", "update-unanswered":
		if sc.Kind != "raw" {
			return nil
		}
	case "stop", "isstarted", "timeouts":
	default:
		return nil
	}
	if h.In == "synchronize" && sc.Kind == "raw" && !sc.DoSync {
		return nil
	}
	return h
}

func blockingCall(c string) bool { return c == "stop" || c == "isstarted" || c == "update-unanswered" }

// hookReturned: a stub API call made from inside a handler returns (Stop within its bound);
// the one that waits for an answer the runtime never gives is expected to stay blocked.
func (x *exec) hookReturned(hk *hookState) *failure {
	if hk.spec.Call == "update-unanswered" {
		return nil
	}
	t0 := time.Now()
	select {
	case <-hk.done:
	case <-time.After(hangWatchdog):
		x.wedged = true
		buf := make([]byte, 1<<20)
		x.stacks = trimStacks(string(buf[:runtime.Stack(buf, true)]))
		x.rec("hook", t0, "%s from inside the %s handler: still blocked after %v", hk.spec.Call, hk.spec.In, hangWatchdog)
		return soft("%s called from inside the plugin's %s handler did not return within %v", hk.spec.Call, hk.spec.In, hangWatchdog)
	}
	if p, _ := hk.pan.Load().(string); p != "" {
		return hard("%s called from inside the plugin's %s handler panicked: %s", hk.spec.Call, hk.spec.In, p)
	}
	x.rec("hook", t0, "%s from inside the %s handler: returned", hk.spec.Call, hk.spec.In)
	return nil
}

// afterHook: the session is up and has an in-handler call planned: make the handler run
// (Configure and Synchronize run on their own; the lifecycle event and the container request
// are sent now), wait for the call, and account for a Stop made from inside.
func (x *exec) afterHook(hk *hookState, sc Script) *failure {
	lk := x.cur
	t0 := time.Now()
	send := func() {
		switch hk.spec.In {
		case "event":
			if lk.peer != nil {
				go func() { _ = lk.peer.probe() }()
			} else {
				go func() { _ = x.rt.Probe() }()
			}
		case "create":
			if lk.peer != nil {
				go func() { _ = lk.peer.create() }()
			} else {
				go func() {
					_, _ = x.rt.A.CreateContainer(context.Background(), &api.CreateContainerRequest{
						Pod:       &api.PodSandbox{Id: fx.ProbePodID},
						Container: &api.Container{Id: "c16-probe-ctr", PodSandboxId: fx.ProbePodID},
					})
				}()
			}
		}
	}
	// through the adaptation a request only reaches the plugin once it is synchronized
	for dl := t0.Add(activeBound); !hk.fired.Load() && lk.who() == "" && time.Now().Before(dl); {
		send()
		for i := 0; i < 20 && !hk.fired.Load(); i++ {
			time.Sleep(500 * time.Microsecond)
		}
	}
	if !hk.fired.Load() {
		x.rec("hook", t0, "the %s handler did not run", hk.spec.In)
		if f := x.checkUpLink("waiting for the " + hk.spec.In + " handler"); f != nil {
			return f
		}
		return soft("session %d is up but its %s handler was not invoked within %v", lk.n, hk.spec.In, activeBound)
	}
	if f := x.hookReturned(hk); f != nil {
		return f
	}
	if hk.spec.Call == "stop" {
		// stopped from inside: an established session that ended by Stop
		x.classes["stop:from-handler"] = true
		x.estEnded++
		x.up, x.cur = false, nil
		return x.settleIdle("Stop from inside the " + hk.spec.In + " handler")
	}
	if hk.spec.Call == "update-unanswered" {
		x.classes["handler-blocked-in-unanswered-call"] = true
	}
	if f := x.settleUp("start"); f != nil {
		return f
	}
	if sc.Activate {
		return x.waitActive("after Start")
	}
	return nil
}

// beforeEnd lets the raw runtime peer of the running session send what it has planned for the
// moment just before the session is ended from outside.
func (x *exec) beforeEnd() {
	if x.up && x.cur != nil && x.cur.peer != nil {
		x.cur.peer.sendExtras("before-end")
	}
}

func (x *exec) doStop() *failure {
	x.beforeEnd()
	t0 := time.Now()
	if x.up {
		x.classes["stop:up"] = true
		x.estEnded++
		x.up, x.cur = false, nil
	} else {
		x.classes["stop:idle"] = true
	}
	_, returned, pan := x.guarded(hangWatchdog, func() error { x.st.Stop(); return nil })
	if pan != "" {
		x.rec("stop", t0, "PANIC %s", pan)
		return hard("Stop panicked: %s", pan)
	}
	if !returned {
		x.rec("stop", t0, "still blocked after %v", hangWatchdog)
		return soft("Stop did not return within %v", hangWatchdog)
	}
	x.rec("stop", t0, "")
	return nil
}

func (x *exec) doDrop() *failure {
	t0 := time.Now()
	if !x.up {
		x.classes["drop:idle"] = true
		x.rec("drop", t0, "no session")
		return nil
	}
	x.classes["drop:up"] = true
	x.beforeEnd()
	lk := x.cur
	x.estEnded++
	x.faulted = true
	x.up, x.cur = false, nil
	lk.shut("proxy")
	x.rec("drop", t0, "")
	return x.settleIdle("dropped connection")
}

// doBulk: the plugin sends a large unsolicited update from a goroutine of its own (as a
// plugin reacting to an external event does); while that frame is being written - with
// Stall the runtime end has stopped reading altogether - the stub is stopped, or the
// connection is dropped. Judged like any Stop / connection loss.
func (x *exec) doBulk(a Action) *failure {
	t0 := time.Now()
	stop := a.Op == "bulkstop"
	if !x.up {
		x.classes["bulk:idle"] = true
		x.rec(a.Op, t0, "no session")
		if stop {
			if f := x.doStop(); f != nil {
				return f
			}
			return x.settleIdle("Stop")
		}
		return nil
	}
	x.beforeEnd()
	lk := x.cur
	kb := a.KB
	if kb < 1 {
		kb = 1
	}
	if kb > 3500 { // ttRPC's message limit is 4 MiB
		kb = 3500
	}
	x.classes[a.Op] = true
	if a.Stall {
		x.classes["bulk:stalled"] = true
		lk.stall()
	}
	if kb >= 3000 {
		x.classes["bulk:3MB"] = true
	}
	done := make(chan error, 1)
	x.bulks = append(x.bulks, done)
	b0 := lk.bytes[s2r].Load()
	go func() {
		defer func() {
			if p := recover(); p != nil {
				done <- fmt.Errorf("panic: %v", p)
			}
		}()
		_, err := x.st.UpdateContainers([]*api.ContainerUpdate{{ContainerId: strings.Repeat("x", kb<<10)}})
		done <- err
	}()
	// WaitMs counts from the moment the first bytes of the request reach the proxy (a reader
	// that was already parked when the stall began still takes one chunk); building a 3 MB
	// message takes a variable time
	for dl := time.Now().Add(300 * time.Millisecond); lk.bytes[s2r].Load() == b0 && time.Now().Before(dl); {
		time.Sleep(100 * time.Microsecond)
	}
	time.Sleep(time.Duration(a.WaitMs) * time.Millisecond)
	x.rec(a.Op, t0, "UpdateContainers of %d KB under way (stalled=%v)", kb, a.Stall)
	if stop {
		f := x.doStop()
		lk.unstall() // the runtime end comes back to life (and finds the connection closed)
		if f != nil {
			return f
		}
		return x.settleIdle("Stop during a large UpdateContainers")
	}
	x.estEnded++
	x.faulted = true
	x.up, x.cur = false, nil
	lk.shut("proxy")
	return x.settleIdle("connection dropped during a large UpdateContainers")
}

func (x *exec) doWait() *failure {
	t0 := time.Now()
	if x.attempts == 0 {
		x.rec("wait", t0, "skipped: no Start yet")
		return nil
	}
	if x.up {
		// Wait on a running stub blocks until the session ends: park it, it is judged at the
		// next idle state.
		x.classes["wait:up"] = true
		w := make(chan struct{})
		x.waiters = append(x.waiters, w)
		go func() {
			defer close(w)
			defer func() { _ = recover() }()
			x.st.Wait()
		}()
		// give it a moment to reach the stub (not an oracle: a waiter that comes late is
		// simply judged at a later idle state)
		time.Sleep(200 * time.Microsecond)
		x.rec("wait", t0, "parked")
		return nil
	}
	x.classes["wait:idle"] = true
	return x.waitReturns(t0, "idle stub")
}

func (x *exec) waitReturns(t0 time.Time, what string) *failure {
	_, returned, pan := x.guarded(slack, func() error { x.st.Wait(); return nil })
	if pan != "" {
		x.rec("wait", t0, "PANIC %s", pan)
		return hard("Wait panicked: %s", pan)
	}
	if !returned {
		x.rec("wait", t0, "%s: still blocked after %v", what, slack)
		return soft("Wait (%s) did not return within %v", what, slack)
	}
	x.rec("wait", t0, "%s: returned", what)
	return nil
}

func (x *exec) doProbe() *failure {
	if x.up {
		x.classes["probe:up"] = true
		return x.waitActive("probe")
	}
	t0 := time.Now()
	x.classes["probe:idle"] = true
	_ = x.rt.Probe()
	x.rec("probe", t0, "idle: not judged")
	return nil
}

// waitActive: while the model is up, probes reach the plugin (after activation).
func (x *exec) waitActive(why string) *failure {
	t0 := time.Now()
	base := x.probes.Load()
	deadline := t0.Add(activeBound)
	var outstanding atomic.Int32
	for {
		if x.cur.who() != "" {
			break
		}
		if p := x.cur.peer; p != nil {
			// asynchronous: a handler of this session may be blocked on purpose
			if outstanding.Load() < 4 {
				outstanding.Add(1)
				go func() { _ = p.probe(); outstanding.Add(-1) }()
			}
			time.Sleep(500 * time.Microsecond)
		} else {
			_ = x.rt.Probe()
		}
		if x.probes.Load() > base {
			x.rec("probe", t0, "%s: reached the plugin", why)
			if p := x.cur.peer; p != nil {
				p.sendExtras("after-probe")
			}
			return nil
		}
		if time.Now().After(deadline) {
			break
		}
		time.Sleep(time.Millisecond)
	}
	x.rec("probe", t0, "%s: NOT reached", why)
	if f := x.checkUpLink(why); f != nil {
		return f
	}
	return soft("session %d is up but no probe reached the plugin within %v (%s)", x.cur.n, activeBound, why)
}

// checkUpLink: an up session is never closed except by Stop/drop of that session.
func (x *exec) checkUpLink(why string) *failure {
	switch x.cur.who() {
	case "stub":
		return hard("session %d was closed by the stub although neither Stop nor a connection loss happened to it (%s; close notifications so far %d): a notification of an earlier session tore it down", x.cur.n, why, x.closes.Load())
	case "runtime":
		return soft("session %d was closed by the runtime end (%s)", x.cur.n, why)
	}
	return nil
}

// notifications waits for the mandatory close notifications (one per ended established
// session), gives outstanding optional ones (failed sessions that dialled) a bounded chance,
// and checks the upper bound.
func (x *exec) notifications(why string) *failure {
	t0 := time.Now()
	min := int32(x.estEnded + x.optSeen)
	for x.closes.Load() < min {
		if time.Since(t0) > slack {
			x.rec("settle", t0, "%s: close notifications %d < %d", why, x.closes.Load(), min)
			return soft("%s: %d established sessions ended but only %d close notifications fired within %v", why, x.estEnded, int(x.closes.Load())-x.optSeen, slack)
		}
		time.Sleep(200 * time.Microsecond)
	}
	if x.optOut > 0 {
		want := min + int32(x.optOut)
		for x.closes.Load() < want && time.Since(t0) < optionalCloseWait {
			time.Sleep(200 * time.Microsecond)
		}
	}
	// notifications beyond the mandatory ones are attributed to failed sessions: first to
	// those still waited for, then to those given up on earlier (they were merely late)
	extra := int(x.closes.Load() - min)
	for _, p := range []*int{&x.optOut, &x.optLost} {
		a := extra
		if a > *p {
			a = *p
		}
		if a > 0 {
			x.optSeen += a
			*p -= a
			extra -= a
		}
	}
	if x.optOut > 0 {
		// waited once; never again for these
		x.optLost += x.optOut
		x.optOut = 0
		x.lenient["unconfigured-session-never-notified"] = true
	}
	return nil
}

func (x *exec) upperBound(why string) *failure {
	max := x.estEnded + x.optSeen + x.optOut + x.optLost
	if n := int(x.closes.Load()); n > max {
		return hard("%s: %d close notifications for %d ended sessions that reached a connection (%d established): a session was notified twice, or a session that is still up was notified", why, n, max, x.estEnded)
	}
	return nil
}

// checkPeers: every Configure request a raw runtime peer sent got an answer (a response or
// an error) within the bound; wait=true first lets requests that are under way finish.
func (x *exec) checkPeers(why string, wait bool) *failure {
	x.mu.Lock()
	peers := append([]*refuser(nil), x.refusers...)
	x.mu.Unlock()
	for _, r := range peers {
		if wait {
			for dl := time.Now().Add(slack + time.Second); r.busy.Load() > 0 && time.Now().Before(dl); {
				time.Sleep(time.Millisecond)
			}
		}
		r.sendMu.Lock()
		un := append([]string(nil), r.unanswered...)
		r.sendMu.Unlock()
		if len(un) > 0 {
			x.rec("peer", time.Now(), "unanswered: %v", un)
			return soft("%s: the runtime's %s was not answered by the stub within %v (neither a response nor an error)", why, un[0], slack)
		}
	}
	return nil
}

func (x *exec) settleUp(why string) *failure {
	if f := x.checkPeers(why, false); f != nil {
		return f
	}
	if f := x.notifications(why); f != nil {
		return f
	}
	if f := x.checkUpLink(why); f != nil {
		return f
	}
	return x.upperBound(why)
}

// settleIdle: after a failed start, a lost connection or a stop, waiting returns, the close
// notification of an established session fires once, and the connection is released.
func (x *exec) settleIdle(why string) *failure {
	t0 := time.Now()
	if f := x.checkPeers(why, false); f != nil {
		return f
	}
	if f := x.waitReturns(t0, "after "+why); f != nil {
		return f
	}
	for i, w := range x.waiters {
		select {
		case <-w:
		case <-time.After(slack):
			x.rec("settle", t0, "parked Wait #%d still blocked", i)
			return soft("a Wait() issued while the stub was running is still blocked %v after the session ended (%s)", slack, why)
		}
	}
	x.waiters = nil
	if f := x.notifications(why); f != nil {
		return f
	}
	if f := x.upperBound(why); f != nil {
		return f
	}
	// the statement says nothing about an UpdateContainers call that was under way: noted only
	for _, b := range x.bulks {
		select {
		case err := <-b:
			if err != nil && strings.HasPrefix(err.Error(), "panic: ") {
				return hard("UpdateContainers %s", err)
			}
		case <-time.After(slack):
			x.lenient["update-call-still-pending-after-session-end"] = true
		}
	}
	x.bulks = nil
	if l := x.lastLink(); l != nil {
		select {
		case <-l.closedC:
		case <-time.After(slack):
			x.rec("settle", t0, "link still open")
			return soft("%s: the stub still holds connection #%d open %v later", why, l.n, slack)
		}
	}
	// harness synchronisation for the next Start (a public method; not part of the oracle): the
	// stub has noticed that the session is over. If that cannot be established the next
	// Start's verdict is not taken at face value (see doStart).
	if is, ok := x.st.(isStarted); ok {
		for {
			var started bool
			_, returned, _ := x.guarded(slack, func() error { started = is.IsStarted(); return nil })
			if !returned {
				return soft("%s: IsStarted blocked for %v", why, slack)
			}
			if !started {
				x.stillStarted = false
				break
			}
			if time.Since(t0) > slack {
				x.stillStarted = true
				x.rec("settle", t0, "still started")
				break
			}
			time.Sleep(200 * time.Microsecond)
		}
	}
	x.rec("settle", t0, "%s", why)
	return nil
}

func (x *exec) doAction(a Action) *failure {
	switch a.Op {
	case "start":
		sc := Script{Kind: "healthy"}
		if a.Script != nil {
			sc = *a.Script
		}
		return x.doStart(sc)
	case "stop":
		if f := x.doStop(); f != nil {
			return f
		}
		return x.settleIdle("Stop")
	case "restart":
		sc := Script{Kind: "healthy"}
		if a.Script != nil {
			sc = *a.Script
		}
		if x.up {
			x.classes["restart:up"] = true
			x.faulted = true
		} else {
			x.classes["restart:idle"] = true
		}
		if f := x.doStop(); f != nil {
			return f
		}
		return x.doStart(sc)
	case "wait":
		return x.doWait()
	case "drop":
		return x.doDrop()
	case "localdrop":
		t0 := time.Now()
		if !x.up {
			x.classes["localdrop:idle"] = true
			x.rec("localdrop", t0, "no session")
			return nil
		}
		x.beforeEnd()
		lk := x.cur
		x.classes["localdrop:up"] = true
		if _, ok := lk.stubEnd.(*net.UnixConn); ok {
			x.classes["localdrop:unix-socket"] = true
		}
		x.estEnded++
		x.faulted = true
		x.up, x.cur = false, nil
		lk.stubEnd.Close()
		x.rec("localdrop", t0, "")
		return x.settleIdle("the plugin side's own socket was closed underneath the stub")
	case "probe":
		return x.doProbe()
	case "bulkstop", "bulkdrop":
		return x.doBulk(a)
	}
	return nil // unknown op in a hand-written replay file: ignored
}

// epilogue: whatever happened, the stub can be started again on a fresh connection and works.
func (x *exec) epilogue() *failure {
	x.cur_i = -1
	if x.up {
		if f := x.waitActive("final probe of the running session"); f != nil {
			return f
		}
		if f := x.doStop(); f != nil {
			return f
		}
	}
	if f := x.settleIdle("end of history"); f != nil {
		return f
	}
	if f := x.doStart(Script{Kind: "healthy", Activate: true}); f != nil {
		f.msg = "epilogue (fresh Start after the history): " + f.msg
		return f
	}
	if !x.up {
		// the fresh Start failed and was not judged (stored registration timeout below 1 s)
		x.classes["epilogue:restart-not-judged"] = true
	} else if x.c.LingerMs > 0 {
		// stay up: nothing an earlier session left behind may close this one
		x.classes["epilogue:linger"] = true
		t0 := time.Now()
		for _, mark := range []int{100, 600, 1200} {
			if mark > x.c.LingerMs {
				break
			}
			if d := time.Until(t0.Add(time.Duration(mark) * time.Millisecond)); d > 0 {
				time.Sleep(d)
			}
			if f := x.waitActive(fmt.Sprintf("epilogue, %d ms after the fresh Start", mark)); f != nil {
				return f
			}
		}
		if d := time.Until(t0.Add(time.Duration(x.c.LingerMs) * time.Millisecond)); d > 0 {
			time.Sleep(d)
		}
		if f := x.settleUp(fmt.Sprintf("epilogue, %d ms after the fresh Start", x.c.LingerMs)); f != nil {
			return f
		}
	}
	if f := x.doStop(); f != nil {
		return f
	}
	if f := x.settleIdle("final Stop"); f != nil {
		return f
	}
	if f := x.checkPeers("end", true); f != nil {
		return f
	}
	if hasHandler(x.c.Plugin, "configure") {
		// the plugin's Configure handler ran (at least) once per Configure request that a raw
		// runtime got answered without an error
		x.mu.Lock()
		answered := 0
		for _, r := range x.refusers {
			answered += int(r.cfgAnswered.Load())
		}
		x.mu.Unlock()
		if n := int(x.cfgs.Load()); n < answered {
			return hard("end: raw runtimes got %d Configure requests answered without an error but the plugin's Configure handler ran only %d times", answered, n)
		}
	}
	// a duplicate notification would follow its twin closely
	time.Sleep(20*time.Millisecond + x.maxCCWait)
	if f := x.upperBound("end"); f != nil {
		return f
	}
	if x.optOut+x.optLost == 0 {
		if n, want := int(x.closes.Load()), x.estEnded+x.optSeen; n != want {
			return hard("end: %d close notifications, expected exactly %d", n, want)
		}
	}
	return nil
}

type histOut struct {
	Steps  []step `json:"steps"`
	Stacks string `json:"blocked_goroutines,omitempty"`
}

// execOnce runs the history once.
func execOnce(c C16Case) (out ev.Outcome, f *failure) {
	if !hasHandler(c.Plugin, "configure") {
		// configuredDuring needs the offset of the Configure request: measure before this
		// case's own fixture exists
		if h := measureHandshake(); h.err != nil {
			return ev.Outcome{Overloaded: true, Classes: []string{"infra-error"}}, nil
		}
	}
	x, err := newExec(c)
	if err != nil {
		return ev.Outcome{Overloaded: true, Classes: []string{"infra-error"}}, nil
	}
	defer x.cleanup()
	sessionsInHistory := 0
	for i, a := range c.Actions {
		x.cur_i = i
		if f = x.doAction(a); f != nil {
			break
		}
		sessionsInHistory = x.attempts
	}
	nontrivial := f == nil && sessionsInHistory >= 2 && x.faulted
	if f == nil {
		f = x.epilogue()
	}
	if len(c.DelayWaitCfg)+len(c.DelayConnClosed) > 0 && verifhook.Enabled {
		for _, d := range append(append([]int{}, c.DelayWaitCfg...), c.DelayConnClosed...) {
			if d > 0 {
				x.classes["hooks:delayed"] = true
			}
		}
	}
	out.History = histOut{Steps: x.hist, Stacks: x.stacks}
	if os.Getenv("VERIF_DEV") != "" {
		for _, s := range x.hist {
			if s.Ms > 100 || os.Getenv("VERIF_DEV") == "2" {
				fmt.Fprintf(os.Stderr, "SLOW %+v\n   case %s\n", s, ev.Snapshot(c))
			}
		}
	}
	out.NonTrivial = nontrivial
	primary := "trivial"
	if nontrivial {
		primary = "non-trivial"
	}
	out.Classes = []string{primary}
	pt := c.Plugin
	if pt == "" {
		pt = "all"
	}
	x.classes["plugin:"+pt] = true
	keys := make([]string, 0, len(x.classes))
	for k := range x.classes {
		keys = append(keys, k)
	}
	sort.Strings(keys)
	out.Classes = append(out.Classes, keys...)
	for k := range x.lenient {
		out.Lenient = append(out.Lenient, k)
	}
	sort.Strings(out.Lenient)
	if f != nil {
		out.Fail = f.msg
	}
	return out, f
}

// runC16 executes the case; a verdict that depends on the clock is confirmed by re-executing
// the same case (up to three times): it is a violation only if it fails every time.
func runC16(c C16Case) ev.Outcome {
	key := string(ev.Snapshot(c))
	if o, ok := confirmed[key]; ok {
		// rapid re-runs the minimal case: a verdict confirmed four times is not paid for again
		return o
	}
	out, f := execOnce(c)
	if f == nil || !f.soft {
		return out
	}
	first := out
	for i := 0; i < 3; i++ {
		o2, f2 := execOnce(c)
		if f2 == nil {
			o2.Overloaded = true
			o2.NonTrivial = false
			o2.Classes = append(o2.Classes, "time-clause-not-reproduced")
			return o2
		}
		if !f2.soft {
			return o2
		}
		out = o2
	}
	out.Fail = fmt.Sprintf("%s [failed in 4 of 4 executions; first: %s]", out.Fail, first.Fail)
	confirmed[key] = out
	return out
}

// confirmed holds the time-clause verdicts that failed in four executions, by case.
var confirmed = map[string]ev.Outcome{}

func TestProp_C16(t *testing.T) {
	if sweepFailed {
		t.Skip("the sweep already found a violation")
	}
	h := measureHandshake()
	if h.err == nil {
		r := ev.Get("C16")
		r.SetExtra("handshake_bytes", fmt.Sprintf("stub->runtime %d, runtime->stub %d (Configure entered at %d / %d)", h.total[s2r], h.total[r2s], h.s2rAtCfg, h.r2sAtCfg))
	}
	for _, slug := range []string{knownD8, knownD9, knownD10} {
		if ev.Known(slug) {
			ev.Get("C16").SetExtra("excluded_by_construction_"+slug, "the generator and the sweep do not produce this shape while the known finding is active")
		}
	}
	ev.Run(t, "C16", genC16, runC16)
}

func TestMeasure(t *testing.T) {
	if os.Getenv("VERIF_DEV") == "" {
		t.Skip("development aid")
	}
	h := measureHandshake()
	t.Logf("handshake: %+v", h)
}
