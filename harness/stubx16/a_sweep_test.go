package stubx16

import (
	"math"
	"testing"

	"nriverif/ev"
)

// sweepFailed is set when the sweep (which runs first: this file sorts before c16_test.go)
// already found a violation; the generated search is skipped then, so that the small sweep
// case is what gets reported, quickly.
var sweepFailed bool

// TestExh_C16 first runs a handful of directed histories (one per session script and per way
// of ending a session, without and with a 5 ms delay of the close notification), then
// the same offsets of the stub->runtime stream over the synchronous transport (net.Pipe; the
// runtime->stub stream too in the thorough tier), then
// enumerates the byte offsets completely: for each direction and every k from 0
// to the size of a whole healthy handshake (connect, register, configure, synchronize) plus
// two, the history [Start with the connection cut after k bytes] followed by the epilogue
// every case gets (Wait returns, notifications, a fresh healthy Start, a probe, Stop). The quick
// tier takes every offset up to 16 bytes past the Configure exchange and every eighth one
// inside synchronization over unix sockets; the thorough tier takes them all.
func TestExh_C16(t *testing.T) {
	if i, _ := ev.Shard(); i != 0 {
		t.Skip("sweep runs in shard 0 only")
	}
	h := measureHandshake()
	if h.err != nil {
		t.Fatalf("fixture: %v", h.err)
	}
	r := ev.Get("C16")
	defer r.Flush()
	n := 0
	complete := true
	run := func(c C16Case) {
		raw := ev.Snapshot(c)
		r.Journal(raw)
		o := runC16(c)
		r.ClearJournal()
		for i, k := range o.Classes {
			o.Classes[i] = "sweep/" + k
		}
		o.Classes = append([]string{"sweep"}, o.Classes...)
		o.NonTrivial = false // one session plus the epilogue: counted as a class, not as non-trivial
		r.Record(raw, o)
		n++
		if o.Fail != "" {
			r.SetExtra("sweep_cases", n)
			sweepFailed = true
			t.Fatalf("C16 sweep: %s", o.Fail)
		}
	}
	// directed histories: one per session script and per way of ending a session, each
	// followed by the epilogue
	sc := func(kind string) *Script { return &Script{Kind: kind, Activate: true} }
	var directed [][]Action
	directed = append(directed,
		[]Action{{Op: "start", Script: sc("healthy")}, {Op: "wait"}, {Op: "probe"}, {Op: "stop"}, {Op: "wait"}},
		[]Action{{Op: "start", Script: sc("healthy")}, {Op: "wait"}, {Op: "drop"}, {Op: "wait"}},
		[]Action{{Op: "start", Script: sc("unreachable")}, {Op: "wait"}, {Op: "stop"}},
	)
	// the plugin side's own socket is closed underneath the stub: a lost connection like any
	// other (through the dialer's connection and through one given with WithConnection)
	for _, given := range []bool{false, true} {
		for _, sync := range []bool{false, true} {
			h := &Script{Kind: "healthy", Activate: true, Sync: sync}
			run(C16Case{GivenConn: given, Actions: []Action{{Op: "start", Script: h}, {Op: "wait"}, {Op: "probe"}, {Op: "localdrop"}, {Op: "wait"}, {Op: "start", Script: sc("healthy")}, {Op: "localdrop"}}})
		}
	}
	// what a failing dialer returns beside its error must not matter: the next Start dials
	for _, ec := range []string{"typed-nil-tolerant", "dead", "typed-nil"} {
		directed = append(directed, []Action{{Op: "start", Script: &Script{Kind: "unreachable", How: "custom-refused", ErrConn: ec}}, {Op: "wait"},
			{Op: "start", Script: sc("healthy")}, {Op: "probe"}})
	}
	// every way of being unreachable, with context.Background() and with a deadline
	for _, how := range unreachableWays {
		for _, ctxMs := range []int{0, 200} {
			directed = append(directed, []Action{{Op: "start", Script: &Script{Kind: "unreachable", How: how, CtxMs: ctxMs}}, {Op: "wait"}, {Op: "stop"},
				{Op: "start", Script: &Script{Kind: "unreachable", How: how, CtxMs: ctxMs, Fast: true}}})
		}
	}
	if !ev.Known(knownD10) {
		directed = append(directed,
			[]Action{{Op: "start", Script: sc("refused")}, {Op: "wait"}},
			[]Action{{Op: "start", Script: &Script{Kind: "refused", CloseAfter: true}}, {Op: "stop"}},
		)
		if !ev.Known(knownD8) {
			for _, ms := range []int{0, 2, 20} {
				directed = append(directed, []Action{{Op: "start", Script: &Script{Kind: "regdrop", DropMs: ms}}, {Op: "wait"}})
			}
		}
	}
	if !ev.Known(knownD9) {
		directed = append(directed,
			[]Action{{Op: "start", Script: sc("healthy")}, {Op: "restart", Script: sc("healthy")}, {Op: "probe"}},
			[]Action{{Op: "start", Script: sc("healthy")}, {Op: "wait"}, {Op: "restart", Script: sc("healthy")}, {Op: "restart", Script: sc("healthy")}, {Op: "probe"}},
		)
		if !ev.Known(knownD10) {
			directed = append(directed,
				[]Action{{Op: "start", Script: &Script{Kind: "refused", Fast: true}}, {Op: "start", Script: sc("healthy")}, {Op: "probe"}},
				[]Action{{Op: "start", Script: sc("healthy")}, {Op: "restart", Script: &Script{Kind: "cut", Dir: "s2r", K: 0, Fast: true}}, {Op: "start", Script: sc("healthy")}, {Op: "probe"}},
			)
		}
	}
	// the stub is stopped, or loses its connection, while it writes a large frame
	for _, sync := range []bool{false, true} {
		h := &Script{Kind: "healthy", Activate: true, Sync: sync}
		for _, stall := range []bool{true, false} {
			directed = append(directed,
				[]Action{{Op: "start", Script: h}, {Op: "bulkstop", KB: 3000, Stall: stall, WaitMs: 20}},
				[]Action{{Op: "start", Script: h}, {Op: "wait"}, {Op: "bulkdrop", KB: 3000, Stall: stall, WaitMs: 5}},
			)
		}
	}
	for _, acts := range directed {
		for _, dl := range [][]int{nil, {5}} {
			run(C16Case{Actions: acts, DelayConnClosed: dl})
		}
	}
	// extra requests from a raw runtime (Shutdown at each of the three points, a second
	// Configure, another Synchronize, an unknown event, an unknown method): they must leave
	// the later sessions of the same stub alone - the epilogue's fresh session stays up for a
	// while and is probed
	if !ev.Known(knownD10) {
		rawSends := func(sends ...Send) *Script {
			return &Script{Kind: "raw", RegMs: 5000, ReqMs: 2000, DoSync: true, Activate: true, Sends: sends}
		}
		run(C16Case{Plugin: "all", LingerMs: 700, Actions: []Action{{Op: "start", Script: rawSends(Send{"after-probe", "shutdown"})}, {Op: "stop"}, {Op: "start", Script: sc("healthy")}}})
		run(C16Case{Plugin: "shutdown", LingerMs: 700, Actions: []Action{{Op: "start", Script: rawSends(Send{"before-end", "shutdown"})}, {Op: "drop"}}})
		run(C16Case{Plugin: "shutdown", LingerMs: 1300, Actions: []Action{{Op: "start", Script: rawSends(Send{"after-sync", "configure"}, Send{"after-probe", "shutdown"}, Send{"after-probe", "synchronize"},
			Send{"before-end", "unknown-event"}, Send{"before-end", "unknown-method"})}, {Op: "probe"}, {Op: "restart", Script: sc("healthy")}, {Op: "probe"}}})
		// a second, third and fourth Configure on one connection: each is answered (D25)
		run(C16Case{Plugin: "all", Actions: []Action{{Op: "start", Script: rawSends(Send{"after-sync", "configure"}, Send{"after-probe", "configure"}, Send{"after-probe", "configure"})}, {Op: "probe"}, {Op: "drop"}}})
		run(C16Case{Plugin: "nocfg", Actions: []Action{{Op: "start", Script: rawSends(Send{"after-probe", "configure"}, Send{"before-end", "configure"}, Send{"before-end", "configure"})}, {Op: "probe"}, {Op: "stop"}}})
		if ev.Thorough() {
			for _, pt := range pluginTypes {
				for _, at := range []string{"after-sync", "after-probe", "before-end"} {
					run(C16Case{Plugin: pt, LingerMs: 700, Actions: []Action{{Op: "start", Script: rawSends(Send{at, "shutdown"})}, {Op: "probe"}, {Op: "stop"}}})
				}
			}
		}
	}
	// the other plugin types (the stub's behaviour depends on the interfaces the plugin object
	// implements): a plain life cycle for each, and for the Configure-less ones the runtime
	// ends that acknowledge the registration and then fail before Configure
	for _, pt := range pluginTypes[1:] {
		run(C16Case{Plugin: pt, Actions: []Action{{Op: "start", Script: sc("healthy")}, {Op: "probe"}, {Op: "wait"}, {Op: "restart", Script: sc("healthy")}, {Op: "probe"}, {Op: "drop"}}})
		run(C16Case{Plugin: pt, Actions: []Action{{Op: "start", Script: &Script{Kind: "raw", RegMs: 300, ReqMs: 300, DoSync: true, Activate: true}}, {Op: "probe"}, {Op: "stop"},
			{Op: "start", Script: &Script{Kind: "noconfigure"}}, {Op: "start", Script: &Script{Kind: "silent"}}, {Op: "wait"}}})
		if !ev.Known(knownD8) && !ev.Known(knownD10) {
			for _, ms := range []int{0, 2} {
				run(C16Case{Plugin: pt, Actions: []Action{{Op: "start", Script: &Script{Kind: "regdrop", DropMs: ms}}, {Op: "wait"}}})
			}
		}
	}
	if !ev.Known(knownD8) && !ev.Known(knownD10) {
		// the window between the registration's acknowledgement and the end of the Configure
		// request, byte by byte, for a plugin without a Configure handler (thorough: both
		// directions completely, and the plugin with neither handler too)
		pts := []string{"nocfg"}
		if ev.Thorough() {
			pts = []string{"nocfg", "neither"}
		}
		for _, pt := range pts {
			for d := 1; d >= 0; d-- {
				if d == s2r && !ev.Thorough() {
					continue
				}
				hi := h.total[d] + 2
				if !ev.Thorough() {
					hi = h.r2sAtCfg + 16
				}
				for k := int64(0); k <= hi; k++ {
					if !ev.Thorough() && k%2 == 1 && k < h.r2sAtCfg-4 {
						continue // quick: every second offset, every one around the end of the Configure request
					}
					run(C16Case{Plugin: pt, Actions: []Action{{Op: "start", Script: &Script{Kind: "cut", Dir: dirNames[d], K: int(k)}}}})
				}
			}
		}
	}
	// a raw runtime that completes the handshake with its own timeout fields, followed by
	// runtime ends that stay silent without closing: whatever an earlier session made the stub
	// store, Start returns in bounded time
	if !ev.Known(knownD10) {
		raw := func(reg, req int64, sync bool) *Script {
			return &Script{Kind: "raw", RegMs: reg, ReqMs: req, DoSync: true, Activate: true, Sync: sync}
		}
		quiet := func(kind string) Action { return Action{Op: "start", Script: &Script{Kind: kind}} }
		for _, reg := range []int64{1, 300} {
			for _, sync := range []bool{false, true} {
				run(C16Case{Actions: []Action{{Op: "start", Script: raw(reg, reg, sync)}, {Op: "probe"}, {Op: "stop"}, quiet("silent"), quiet("noconfigure"), {Op: "wait"}}})
				run(C16Case{Actions: []Action{{Op: "start", Script: raw(reg, 2000, sync)}, {Op: "drop"}, quiet("noconfigure"), quiet("silent")}})
			}
		}
		// a runtime that sends no timeouts (0) or negative ones leaves the stub's own in place
		// (D22): a healthy restart works like after any other session, and with a short timeout
		// stored before, silent runtime ends are still given up on after that short time
		// ... and so does one that announces a timeout too large for a Duration (D27)
		for _, reg := range []int64{math.MaxInt64, math.MaxInt64/1000000 + 1, 1 << 62} {
			run(C16Case{Actions: []Action{{Op: "start", Script: raw(reg, reg, false)}, {Op: "probe"}, {Op: "stop"}, {Op: "start", Script: sc("healthy")}, {Op: "probe"}, {Op: "drop"}}})
		}
		for _, reg := range []int64{0, -5} {
			for _, sync := range []bool{false, true} {
				run(C16Case{Actions: []Action{{Op: "start", Script: raw(reg, reg, sync)}, {Op: "probe"}, {Op: "stop"}, {Op: "start", Script: sc("healthy")}, {Op: "probe"}, {Op: "drop"}}})
				run(C16Case{Actions: []Action{{Op: "start", Script: raw(300, 300, false)}, {Op: "stop"}, {Op: "start", Script: raw(reg, 0, sync)}, {Op: "drop"},
					quiet("noconfigure"), quiet("silent"), {Op: "wait"}}})
			}
		}
		// a plugin whose Configure handler outlasts the stored timeout: Start gives up, and the
		// handler's late result must not count for the next Start
		for _, next := range []string{"noconfigure", "silent"} {
			run(C16Case{Actions: []Action{{Op: "start", Script: raw(300, 300, false)}, {Op: "stop"},
				{Op: "start", Script: &Script{Kind: "raw", RegMs: 300, ReqMs: 300, CfgDelayMs: 400}}, quiet(next), {Op: "wait"}}})
		}
		// stub API calls from inside handlers: Stop from each handler that runs outside the
		// handshake, the lock-taking and the lock-free getters, UpdateContainers answered and
		// never answered (then Stop, a drop, a restart from the harness's goroutine)
		hooked := func(kind, in, call string) *Script {
			return &Script{Kind: kind, Activate: true, DoSync: true, RegMs: 5000, ReqMs: 2000, Hook: &HookCall{In: in, Call: call}}
		}
		short := func(s *Script) *Script { s.RegMs, s.ReqMs = 300, 300; return s } // Configure stores them even if the handshake fails
		for _, kind := range []string{"healthy", "raw"} {
			for _, in := range []string{"synchronize", "event", "create"} {
				run(C16Case{Actions: []Action{{Op: "start", Script: hooked(kind, in, "stop")}, {Op: "wait"}, {Op: "start", Script: hooked(kind, in, "isstarted")}, {Op: "probe"}}})
			}
			run(C16Case{Actions: []Action{{Op: "start", Script: hooked(kind, "configure", "timeouts")}, {Op: "probe"}, {Op: "stop"}}})
		}
		for _, in := range []string{"synchronize", "event", "create"} {
			for _, end := range []string{"stop", "drop", "restart"} {
				run(C16Case{Actions: []Action{{Op: "start", Script: hooked("raw", in, "update-unanswered")}, {Op: "wait"}, {Op: end, Script: sc("healthy")}, {Op: "probe"}}})
			}
			run(C16Case{Actions: []Action{{Op: "start", Script: hooked("raw", in, "update")}, {Op: "probe"}}})
		}
		run(C16Case{Actions: []Action{{Op: "start", Script: hooked("raw", "configure", "update")}, {Op: "probe"}}})
		// a lock-taking call from inside Configure ends the handshake by timeout (300 ms here)
		run(C16Case{Actions: []Action{{Op: "start", Script: raw(300, 300, false)}, {Op: "stop"},
			{Op: "start", Script: short(hooked("raw", "configure", "stop"))}, {Op: "start", Script: short(hooked("raw", "configure", "isstarted"))}}})
		// the plugin's own Configure handler rejects the configuration: against the adaptation
		// (drops the plugin), the raw peer keeping the connection, the raw peer closing it
		for _, fail := range []string{"error", "badmask"} {
			for _, s := range []*Script{
				{Kind: "healthy", CfgFail: fail},
				{Kind: "raw", RegMs: 5000, ReqMs: 2000, CfgFail: fail},
				{Kind: "raw", RegMs: 5000, ReqMs: 2000, CfgFail: fail, CloseAfter: true},
			} {
				fast := *s
				fast.Fast = true
				run(C16Case{Actions: []Action{{Op: "start", Script: s}, {Op: "wait"}, {Op: "start", Script: sc("healthy")}, {Op: "probe"}}})
				run(C16Case{Actions: []Action{{Op: "start", Script: &fast}, {Op: "start", Script: sc("healthy")}, {Op: "probe"}}})
			}
		}
		// very large values: the silent ends are not issued, everything else goes on
		run(C16Case{Actions: []Action{{Op: "start", Script: raw(1000000000000, 3600000, false)}, {Op: "probe"}, {Op: "bulkstop", KB: 100, WaitMs: 1}, quiet("silent"), {Op: "start", Script: sc("healthy")}, {Op: "probe"}}})
		// the defaults of a fresh stub (5 s each) and what the adaptation sends (2 s): 14 s of
		// waiting, thorough tier only (the generated search draws them rarely in both tiers)
		if ev.Thorough() {
			run(C16Case{Actions: []Action{quiet("silent")}})
			run(C16Case{Actions: []Action{{Op: "start", Script: sc("healthy")}, {Op: "stop"}, quiet("noconfigure")}})
			run(C16Case{Actions: []Action{quiet("noconfigure")}})
			run(C16Case{Actions: []Action{{Op: "start", Script: sc("healthy")}, {Op: "stop"}, quiet("silent")}})
		}
	}
	r.SetExtra("directed_cases", n)
	nd := n

	// the synchronous transport: every offset of the stub->runtime stream (there a drop inside
	// a frame is a short write of the stub), taken byte by byte up to the cut; the other
	// direction in the thorough tier
	if !ev.Known(knownD10) {
		for d := 0; d < 2; d++ {
			if d == r2s && (!ev.Thorough() || ev.Known(knownD8)) {
				continue
			}
			for k := int64(0); k <= h.total[d]+2; k++ {
				if !ev.Thorough() && k > h.s2rAtCfg+16 && k%4 != 0 {
					continue // quick: every offset through the Configure answer, every fourth beyond
				}
				sc := &Script{Kind: "cut", Dir: dirNames[d], K: int(k), Sync: true}
				if k%2 == 1 {
					sc.Chunks = []int{1}
				}
				run(C16Case{Actions: []Action{{Op: "start", Script: sc}}})
			}
		}
	}
	r.SetExtra("sync_sweep_cases", n-nd)

	atCfg := [2]int64{h.s2rAtCfg, h.r2sAtCfg}
	for d := 0; d < 2; d++ {
		if d == r2s && ev.Known(knownD8) {
			complete = false
		}
		for k := int64(0); k <= h.total[d]+2; k++ {
			if d == r2s && ev.Known(knownD8) && k < h.r2sAtCfg {
				continue
			}
			if ev.Known(knownD10) {
				complete = false
				continue
			}
			if !ev.Thorough() && k > atCfg[d]+16 && k%8 != 0 {
				// quick tier: every offset up to the end of Configure, every eighth one inside
				// synchronization (the thorough tier takes them all)
				complete = false
				continue
			}
			run(C16Case{Actions: []Action{{Op: "start", Script: &Script{Kind: "cut", Dir: dirNames[d], K: int(k)}}}})
		}
	}
	r.SetExtra("sweep_cases", n)
	r.SetExtra("sweep_every_offset", complete)
}
