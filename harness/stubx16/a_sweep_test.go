package stubx16

import (
	"testing"

	"nriverif/ev"
)

// sweepFailed is set when the sweep (which runs first: this file sorts before c16_test.go)
// already found a violation; the generated search is skipped then, so that the small sweep
// case is what gets reported, quickly.
var sweepFailed bool

// TestExh_C16 enumerates the byte offsets completely: for each direction and every k from 0
// to the size of a whole healthy handshake (connect, register, configure, synchronize) plus
// two, the history [Start with the connection cut after k bytes] followed by the epilogue
// every case gets (Wait returns, notifications, a fresh healthy Start, a probe, Stop). Both
// tiers take every offset.
func TestExh_C16(t *testing.T) {
	if i, _ := ev.Shard(); i != 0 {
		t.Skip("sweep runs in shard 0 only")
	}
	h := measureHandshake()
	if h.err != nil {
		t.Fatalf("fixture: %v", h.err)
	}
	r := ev.Get("C16")
	defer r.Flush()
	n := 0
	complete := true
	run := func(c C16Case) {
		raw := ev.Snapshot(c)
		r.Journal(raw)
		o := runC16(c)
		r.ClearJournal()
		for i, k := range o.Classes {
			o.Classes[i] = "sweep/" + k
		}
		o.Classes = append([]string{"sweep"}, o.Classes...)
		o.NonTrivial = false // one session plus the epilogue: counted as a class, not as non-trivial
		r.Record(raw, o)
		n++
		if o.Fail != "" {
			r.SetExtra("sweep_cases", n)
			sweepFailed = true
			t.Fatalf("C16 sweep: %s", o.Fail)
		}
	}
	for d := 0; d < 2; d++ {
		if d == r2s && ev.Known(knownD8) {
			complete = false
		}
		for k := int64(0); k <= h.total[d]+2; k++ {
			if d == r2s && ev.Known(knownD8) && k < h.r2sAtCfg {
				continue
			}
			if ev.Known(knownD10) {
				complete = false
				continue
			}
			run(C16Case{Actions: []Action{{Op: "start", Script: &Script{Kind: "cut", Dir: dirNames[d], K: int(k)}}}})
		}
	}
	r.SetExtra("sweep_cases", n)
	r.SetExtra("sweep_every_offset", complete)
}
