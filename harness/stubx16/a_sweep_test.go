package stubx16

import (
	"testing"

	"nriverif/ev"
)

// sweepFailed is set when the sweep (which runs first: this file sorts before c16_test.go)
// already found a violation; the generated search is skipped then, so that the small sweep
// case is what gets reported, quickly.
var sweepFailed bool

// TestExh_C16 first runs a handful of directed histories (one per session script and per way
// of ending a session, without and with a 5 ms delay of the close notification), then
// the same offsets of the stub->runtime stream over the synchronous transport (net.Pipe; the
// runtime->stub stream too in the thorough tier), then
// enumerates the byte offsets completely: for each direction and every k from 0
// to the size of a whole healthy handshake (connect, register, configure, synchronize) plus
// two, the history [Start with the connection cut after k bytes] followed by the epilogue
// every case gets (Wait returns, notifications, a fresh healthy Start, a probe, Stop). Both
// tiers take every offset.
func TestExh_C16(t *testing.T) {
	if i, _ := ev.Shard(); i != 0 {
		t.Skip("sweep runs in shard 0 only")
	}
	h := measureHandshake()
	if h.err != nil {
		t.Fatalf("fixture: %v", h.err)
	}
	r := ev.Get("C16")
	defer r.Flush()
	n := 0
	complete := true
	run := func(c C16Case) {
		raw := ev.Snapshot(c)
		r.Journal(raw)
		o := runC16(c)
		r.ClearJournal()
		for i, k := range o.Classes {
			o.Classes[i] = "sweep/" + k
		}
		o.Classes = append([]string{"sweep"}, o.Classes...)
		o.NonTrivial = false // one session plus the epilogue: counted as a class, not as non-trivial
		r.Record(raw, o)
		n++
		if o.Fail != "" {
			r.SetExtra("sweep_cases", n)
			sweepFailed = true
			t.Fatalf("C16 sweep: %s", o.Fail)
		}
	}
	// directed histories: one per session script and per way of ending a session, each
	// followed by the epilogue
	sc := func(kind string) *Script { return &Script{Kind: kind, Activate: true} }
	var directed [][]Action
	directed = append(directed,
		[]Action{{Op: "start", Script: sc("healthy")}, {Op: "wait"}, {Op: "probe"}, {Op: "stop"}, {Op: "wait"}},
		[]Action{{Op: "start", Script: sc("healthy")}, {Op: "wait"}, {Op: "drop"}, {Op: "wait"}},
		[]Action{{Op: "start", Script: sc("unreachable")}, {Op: "wait"}, {Op: "stop"}},
	)
	if !ev.Known(knownD10) {
		directed = append(directed,
			[]Action{{Op: "start", Script: sc("refused")}, {Op: "wait"}},
			[]Action{{Op: "start", Script: &Script{Kind: "refused", CloseAfter: true}}, {Op: "stop"}},
		)
		if !ev.Known(knownD8) {
			for _, ms := range []int{0, 2, 20} {
				directed = append(directed, []Action{{Op: "start", Script: &Script{Kind: "regdrop", DropMs: ms}}, {Op: "wait"}})
			}
		}
	}
	if !ev.Known(knownD9) {
		directed = append(directed,
			[]Action{{Op: "start", Script: sc("healthy")}, {Op: "restart", Script: sc("healthy")}, {Op: "probe"}},
			[]Action{{Op: "start", Script: sc("healthy")}, {Op: "wait"}, {Op: "restart", Script: sc("healthy")}, {Op: "restart", Script: sc("healthy")}, {Op: "probe"}},
		)
		if !ev.Known(knownD10) {
			directed = append(directed,
				[]Action{{Op: "start", Script: &Script{Kind: "refused", Fast: true}}, {Op: "start", Script: sc("healthy")}, {Op: "probe"}},
				[]Action{{Op: "start", Script: sc("healthy")}, {Op: "restart", Script: &Script{Kind: "cut", Dir: "s2r", K: 0, Fast: true}}, {Op: "start", Script: sc("healthy")}, {Op: "probe"}},
			)
		}
	}
	// the stub is stopped, or loses its connection, while it writes a large frame
	for _, sync := range []bool{false, true} {
		h := &Script{Kind: "healthy", Activate: true, Sync: sync}
		for _, stall := range []bool{true, false} {
			directed = append(directed,
				[]Action{{Op: "start", Script: h}, {Op: "bulkstop", KB: 3000, Stall: stall, WaitMs: 20}},
				[]Action{{Op: "start", Script: h}, {Op: "wait"}, {Op: "bulkdrop", KB: 3000, Stall: stall, WaitMs: 5}},
			)
		}
	}
	for _, acts := range directed {
		for _, dl := range [][]int{nil, {5}} {
			run(C16Case{Actions: acts, DelayConnClosed: dl})
		}
	}
	r.SetExtra("directed_cases", n)
	nd := n

	// the synchronous transport: every offset of the stub->runtime stream (there a drop inside
	// a frame is a short write of the stub), taken byte by byte up to the cut; the other
	// direction in the thorough tier
	if !ev.Known(knownD10) {
		for d := 0; d < 2; d++ {
			if d == r2s && (!ev.Thorough() || ev.Known(knownD8)) {
				continue
			}
			for k := int64(0); k <= h.total[d]+2; k++ {
				sc := &Script{Kind: "cut", Dir: dirNames[d], K: int(k), Sync: true}
				if k%2 == 1 {
					sc.Chunks = []int{1}
				}
				run(C16Case{Actions: []Action{{Op: "start", Script: sc}}})
			}
		}
	}
	r.SetExtra("sync_sweep_cases", n-nd)

	for d := 0; d < 2; d++ {
		if d == r2s && ev.Known(knownD8) {
			complete = false
		}
		for k := int64(0); k <= h.total[d]+2; k++ {
			if d == r2s && ev.Known(knownD8) && k < h.r2sAtCfg {
				continue
			}
			if ev.Known(knownD10) {
				complete = false
				continue
			}
			run(C16Case{Actions: []Action{{Op: "start", Script: &Script{Kind: "cut", Dir: dirNames[d], K: int(k)}}}})
		}
	}
	r.SetExtra("sweep_cases", n)
	r.SetExtra("sweep_every_offset", complete)
}
