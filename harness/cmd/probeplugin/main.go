// Command probeplugin is the pre-installed plugin used by the C18 check (package launch).
//
// It is installed (hard link / copy) under <case>/plugins/NN-<stem>_<behaviour>[<k>] and
// launched by nri's Adaptation. First thing in main — before the Go runtime, the stub or
// anything else opens descriptors — it records its environment, its open descriptors, its
// argv and pid into <case>/reports/<file>.<pid>.json (<case> is the closest ancestor
// directory of argv[0] that holds the marker file ".c18root"). Then it behaves as its name
// says:
//
//	ok         registers, answers every request
//	exit<c>    exits at once with status c
//	sleep      never registers (never touches the socket), lingers until killed
//	closefd    closes the pre-connected socket without registering, lingers until killed
//	cfgfail    registers, fails Configure
//	cfghang    registers, never answers Configure (request timeout), lingers until killed
//	badmask<k> speaks ttrpc itself (no stub): registers and answers Configure successfully,
//	           asking for events this runtime does not know (variant k of badMasks); lingers
//	syncfail   registers, is configured, fails Synchronize
//	synchang   registers, is configured, never answers Synchronize (request timeout)
//	syncclose  registers, is configured, closes its connection instead of answering Synchronize
//	die<k>     like ok, but exits inside the handler of its k-th lifecycle event (no reply)
//	dieafter<k> like ok, but exits shortly after having answered its k-th lifecycle event
//	lingerafter<k> like ok, but shortly after having answered its k-th lifecycle event it
//	           closes its connection (stub.Stop), appends a "ConnClosed" line to the event
//	           log so that the harness knows, and keeps running
//	closeat<k> like ok, but inside the handler of its k-th lifecycle event it closes its
//	           connection (stub.Stop) instead of answering, and keeps running
//	hang<k>    like ok, but never returns from the handler of its k-th lifecycle event
//
// Every handler invocation appends one JSON line to the shared O_APPEND log
// <case>/events.log with a single write(2), so the log is a faithful global order.
// The probe never exits because its connection went away: whatever nri stops or drops has to
// be killed by nri. (It does exit when the process that launched it disappears or after
// five minutes, so that nothing can leak from a crashed test run.)
package main

import (
	"context"
	"encoding/json"
	"errors"
	"fmt"
	"hash/fnv"
	"io"
	"os"
	"path/filepath"
	"sort"
	"strconv"
	"strings"
	"sync"
	"syscall"
	"time"

	"github.com/containerd/nri/pkg/api"
	nrinet "github.com/containerd/nri/pkg/net"
	"github.com/containerd/nri/pkg/net/multiplex"
	"github.com/containerd/nri/pkg/stub"
	"github.com/containerd/ttrpc"
	"github.com/sirupsen/logrus"
)

// FD describes one open descriptor at process start.
type FD struct {
	N      int    `json:"n"`
	Target string `json:"target"`        // readlink of /proc/self/fd/N
	Type   string `json:"type"`          // fstat file type: sock, chr, reg, dir, fifo, lnk, blk, ?
	Ino    uint64 `json:"ino,omitempty"` // inode (identifies a socket)
	// close-on-exec flag. A descriptor that was inherited through exec necessarily has the
	// flag clear; one that has it set was opened by this process itself after exec (the Go
	// runtime and library open everything close-on-exec, possibly on other threads while
	// main is starting: the netpoller's epoll and event descriptors have been seen here).
	Cloexec bool   `json:"cloexec,omitempty"`
	Err     string `json:"err,omitempty"`
}

// Report is what the probe writes first thing in main.
type Report struct {
	File      string   `json:"file"` // path of argv[0] relative to the case root
	Argv      []string `json:"argv"`
	Pid       int      `json:"pid"`
	Ppid      int      `json:"ppid"`
	StartTime string   `json:"starttime"` // field 22 of /proc/self/stat (identifies the process for its pid)
	Env       []string `json:"env"`
	FDs       []FD     `json:"fds"`
	Cwd       string   `json:"cwd"`
	T         int64    `json:"t"` // unix nanoseconds at the start of main
	ListErr   string   `json:"list_err,omitempty"`
}

// Line is one record of the shared event log.
type Line struct {
	P   string  `json:"p"`   // plugin file (relative to the case root)
	Pid int     `json:"pid"` // process
	Ev  string  `json:"ev"`  // Configure, Synchronize, Shutdown or the event name
	Tag string  `json:"tag"` // request tag: the pod or container id of the request
	Cfg *string `json:"cfg,omitempty"`
	RT  string  `json:"rt,omitempty"` // runtime name/version given to Configure
	N   int     `json:"n"`            // ordinal of this lifecycle event for this process (1-based), 0 for others
	T   int64   `json:"t"`
}

func fileType(mode uint32) string {
	switch mode & syscall.S_IFMT {
	case syscall.S_IFSOCK:
		return "sock"
	case syscall.S_IFCHR:
		return "chr"
	case syscall.S_IFREG:
		return "reg"
	case syscall.S_IFDIR:
		return "dir"
	case syscall.S_IFIFO:
		return "fifo"
	case syscall.S_IFLNK:
		return "lnk"
	case syscall.S_IFBLK:
		return "blk"
	}
	return "?"
}

// listFDs lists the open descriptors with raw system calls only (os.Open / os.ReadDir would
// register with the netpoller and open an epoll and an event descriptor of their own). The
// descriptor used to read the directory is excluded.
func listFDs() ([]FD, error) {
	dfd, err := syscall.Open("/proc/self/fd", syscall.O_RDONLY|syscall.O_DIRECTORY|syscall.O_CLOEXEC, 0)
	if err != nil {
		return nil, err
	}
	defer syscall.Close(dfd)
	var names []string
	buf := make([]byte, 8192)
	for {
		n, err := syscall.ReadDirent(dfd, buf)
		if err != nil {
			return nil, err
		}
		if n <= 0 {
			break
		}
		_, _, names = syscall.ParseDirent(buf[:n], -1, names)
	}
	var fds []FD
	for _, name := range names {
		n, err := strconv.Atoi(name)
		if err != nil || n == dfd {
			continue
		}
		fd := FD{N: n}
		lb := make([]byte, 4096)
		if l, err := syscall.Readlink("/proc/self/fd/"+name, lb); err != nil {
			fd.Err = err.Error()
		} else {
			fd.Target = string(lb[:l])
		}
		var st syscall.Stat_t
		if err := syscall.Fstat(n, &st); err != nil {
			fd.Err += " fstat: " + err.Error()
		} else {
			fd.Type = fileType(st.Mode)
			fd.Ino = st.Ino
		}
		if fl, _, e := syscall.Syscall(syscall.SYS_FCNTL, uintptr(n), syscall.F_GETFD, 0); e != 0 {
			fd.Err += " fcntl: " + e.Error()
		} else {
			fd.Cloexec = fl&syscall.FD_CLOEXEC != 0
		}
		fds = append(fds, fd)
	}
	sort.Slice(fds, func(i, j int) bool { return fds[i].N < fds[j].N })
	return fds, nil
}

func startTime() string {
	b, err := os.ReadFile("/proc/self/stat")
	if err != nil {
		return ""
	}
	s := string(b)
	// the command name (field 2) is in parentheses and may contain spaces
	if i := strings.LastIndexByte(s, ')'); i >= 0 {
		f := strings.Fields(s[i+1:])
		if len(f) > 19 {
			return f[19] // field 22 overall
		}
	}
	return ""
}

// findRoot walks up from the executable's path to the directory holding ".c18root".
func findRoot(argv0 string) (root, rel string, err error) {
	abs, err := filepath.Abs(argv0)
	if err != nil {
		return "", "", err
	}
	for d := filepath.Dir(abs); ; d = filepath.Dir(d) {
		if _, err := os.Lstat(filepath.Join(d, ".c18root")); err == nil {
			rel, _ := filepath.Rel(d, abs)
			return d, rel, nil
		}
		if d == "/" || d == "." {
			return "", "", errors.New("no .c18root above " + abs)
		}
	}
}

var (
	root    string
	relFile string
	logMu   sync.Mutex
	logFD   = -1
	evCount int // lifecycle events seen (under logMu)
	theStub stub.Stub
)

func appendLine(l Line) {
	l.P = relFile
	l.Pid = os.Getpid()
	l.T = time.Now().UnixNano()
	b, _ := json.Marshal(l)
	b = append(b, '\n')
	// one write(2) on an O_APPEND descriptor: the kernel serialises appends to a regular file
	for {
		_, err := syscall.Write(logFD, b)
		if err != syscall.EINTR {
			break
		}
	}
}

// behaviour parsed from the file name: NN-<stem>_<word><k>
func parseBehaviour(file string) (word string, k int) {
	base := filepath.Base(file)
	i := strings.LastIndexByte(base, '_')
	if i < 0 {
		return "ok", 0
	}
	s := base[i+1:]
	j := len(s)
	for j > 0 && s[j-1] >= '0' && s[j-1] <= '9' {
		j--
	}
	k, _ = strconv.Atoi(s[j:])
	return s[:j], k
}

func linger() {
	for {
		time.Sleep(time.Hour)
	}
}

type plugin struct {
	word string
	k    int
}

// lifecycle logs one lifecycle event and applies the die/hang behaviours.
func (p *plugin) lifecycle(ev, tag string) {
	logMu.Lock()
	evCount++
	n := evCount
	appendLine(Line{Ev: ev, Tag: tag, N: n})
	logMu.Unlock()
	if n == p.k {
		switch p.word {
		case "die":
			os.Exit(3)
		case "hang":
			linger()
		case "closeat":
			go theStub.Stop() // closes the only copy of the pre-connected socket; no answer is sent
			linger()
		case "dieafter":
			go func() {
				time.Sleep(20 * time.Millisecond)
				os.Exit(4)
			}()
		case "lingerafter":
			go func() {
				time.Sleep(20 * time.Millisecond)
				theStub.Stop() // closes the only copy of the pre-connected socket
				logMu.Lock()
				appendLine(Line{Ev: "ConnClosed"})
				logMu.Unlock()
			}()
		}
	}
}

// StateDigest summarises the state a Synchronize handler received: counts, and an
// order-insensitive sum of hashes over each object's id and annotations (the bulk of a big
// state). The harness computes the same over what its SyncFn handed to nri.
func StateDigest(pods []*api.PodSandbox, ctrs []*api.Container) string {
	var sum uint64
	one := func(kind, id string, ann map[string]string) {
		keys := make([]string, 0, len(ann))
		for k := range ann {
			keys = append(keys, k)
		}
		sort.Strings(keys)
		h := fnv.New64a()
		h.Write([]byte(kind + "\x00" + id))
		for _, k := range keys {
			h.Write([]byte("\x00" + k + "\x00" + ann[k]))
		}
		sum += h.Sum64()
	}
	for _, p := range pods {
		one("pod", p.GetId(), p.GetAnnotations())
	}
	for _, c := range ctrs {
		one("ctr", c.GetId(), c.GetAnnotations())
	}
	return fmt.Sprintf("pods=%d ctrs=%d sum=%016x", len(pods), len(ctrs), sum)
}

// badMasks are Configure replies with at least one bit outside the 13 valid events.
var badMasks = []int32{1 << 13, 0x1fff | 1<<13, 1 << 30, -1 << 31, 0x0005 | 1<<20, -1, 1<<13 | 1<<14 | 1<<29}

// rawService is a plugin service without the stub: it can answer what the stub refuses to.
type rawService struct{ mask int32 }

func (r *rawService) Configure(_ context.Context, req *api.ConfigureRequest) (*api.ConfigureResponse, error) {
	logMu.Lock()
	cfg := req.GetConfig()
	appendLine(Line{Ev: "Configure", Cfg: &cfg, RT: req.GetRuntimeName() + "/" + req.GetRuntimeVersion()})
	logMu.Unlock()
	return &api.ConfigureResponse{Events: r.mask}, nil
}
func (r *rawService) note(ev, tag string) {
	logMu.Lock()
	appendLine(Line{Ev: ev, Tag: tag})
	logMu.Unlock()
}
func (r *rawService) Synchronize(_ context.Context, req *api.SynchronizeRequest) (*api.SynchronizeResponse, error) {
	r.note("Synchronize", StateDigest(req.GetPods(), req.GetContainers()))
	return &api.SynchronizeResponse{More: req.GetMore()}, nil
}
func (r *rawService) Shutdown(context.Context, *api.Empty) (*api.Empty, error) {
	return &api.Empty{}, nil
}
func (r *rawService) CreateContainer(_ context.Context, req *api.CreateContainerRequest) (*api.CreateContainerResponse, error) {
	r.note("CreateContainer", req.GetContainer().GetId())
	return &api.CreateContainerResponse{}, nil
}
func (r *rawService) UpdateContainer(_ context.Context, req *api.UpdateContainerRequest) (*api.UpdateContainerResponse, error) {
	r.note("UpdateContainer", req.GetContainer().GetId())
	return &api.UpdateContainerResponse{}, nil
}
func (r *rawService) StopContainer(_ context.Context, req *api.StopContainerRequest) (*api.StopContainerResponse, error) {
	r.note("StopContainer", req.GetContainer().GetId())
	return &api.StopContainerResponse{}, nil
}
func (r *rawService) UpdatePodSandbox(_ context.Context, req *api.UpdatePodSandboxRequest) (*api.UpdatePodSandboxResponse, error) {
	r.note("UpdatePodSandbox", req.GetPod().GetId())
	return &api.UpdatePodSandboxResponse{}, nil
}
func (r *rawService) StateChange(_ context.Context, evt *api.StateChangeEvent) (*api.Empty, error) {
	tag := evt.GetContainer().GetId()
	if evt.GetContainer() == nil {
		tag = evt.GetPod().GetId()
	}
	r.note(evt.GetEvent().String(), tag)
	return &api.Empty{}, nil
}

// runRaw connects the way the stub does (multiplexed ttrpc over the pre-connected socket,
// identity from the environment) and serves rawService. It never returns.
func runRaw(mask int32) {
	fd, err := strconv.Atoi(os.Getenv(api.PluginSocketEnvVar))
	if err != nil {
		os.Exit(95)
	}
	conn, err := nrinet.NewFdConn(fd)
	if err != nil {
		os.Exit(96)
	}
	mux := multiplex.Multiplex(conn)
	l, err := mux.Listen(multiplex.PluginServiceConn)
	if err != nil {
		os.Exit(97)
	}
	srv, err := ttrpc.NewServer()
	if err != nil {
		os.Exit(98)
	}
	api.RegisterPluginService(srv, &rawService{mask: mask})
	cconn, err := mux.Open(multiplex.RuntimeServiceConn)
	if err != nil {
		os.Exit(99)
	}
	rt := api.NewRuntimeClient(ttrpc.NewClient(cconn))
	go srv.Serve(context.Background(), l)
	if _, err := rt.RegisterPlugin(context.Background(), &api.RegisterPluginRequest{
		PluginName: os.Getenv(api.PluginNameEnvVar),
		PluginIdx:  os.Getenv(api.PluginIdxEnvVar),
	}); err != nil {
		logMu.Lock()
		appendLine(Line{Ev: "RunError", Tag: err.Error()})
		logMu.Unlock()
	}
	linger()
}

func podTag(pod *api.PodSandbox) string { return pod.GetId() }
func ctrTag(c *api.Container) string    { return c.GetId() }

func (p *plugin) Configure(_ context.Context, config, runtime, version string) (api.EventMask, error) {
	logMu.Lock()
	appendLine(Line{Ev: "Configure", Cfg: &config, RT: runtime + "/" + version})
	logMu.Unlock()
	if p.word == "cfgfail" {
		return 0, errors.New("probe: configuration rejected on purpose")
	}
	if p.word == "cfghang" {
		linger()
	}
	return 0, nil
}

func (p *plugin) Synchronize(_ context.Context, pods []*api.PodSandbox, ctrs []*api.Container) ([]*api.ContainerUpdate, error) {
	logMu.Lock()
	appendLine(Line{Ev: "Synchronize", Tag: StateDigest(pods, ctrs)})
	logMu.Unlock()
	switch p.word {
	case "syncfail":
		return nil, errors.New("probe: synchronization rejected on purpose")
	case "synchang":
		linger() // never answered: nri's request timeout
	case "syncclose":
		go theStub.Stop() // the connection goes away instead of an answer; the process stays
		linger()
	}
	return nil, nil
}

func (p *plugin) Shutdown(context.Context) {
	logMu.Lock()
	appendLine(Line{Ev: "Shutdown"})
	logMu.Unlock()
}

func (p *plugin) RunPodSandbox(_ context.Context, pod *api.PodSandbox) error {
	p.lifecycle("RunPodSandbox", podTag(pod))
	return nil
}
func (p *plugin) UpdatePodSandbox(_ context.Context, pod *api.PodSandbox, _, _ *api.LinuxResources) error {
	p.lifecycle("UpdatePodSandbox", podTag(pod))
	return nil
}
func (p *plugin) PostUpdatePodSandbox(_ context.Context, pod *api.PodSandbox) error {
	p.lifecycle("PostUpdatePodSandbox", podTag(pod))
	return nil
}
func (p *plugin) StopPodSandbox(_ context.Context, pod *api.PodSandbox) error {
	p.lifecycle("StopPodSandbox", podTag(pod))
	return nil
}
func (p *plugin) RemovePodSandbox(_ context.Context, pod *api.PodSandbox) error {
	p.lifecycle("RemovePodSandbox", podTag(pod))
	return nil
}
func (p *plugin) CreateContainer(_ context.Context, _ *api.PodSandbox, c *api.Container) (*api.ContainerAdjustment, []*api.ContainerUpdate, error) {
	p.lifecycle("CreateContainer", ctrTag(c))
	return nil, nil, nil
}
func (p *plugin) PostCreateContainer(_ context.Context, _ *api.PodSandbox, c *api.Container) error {
	p.lifecycle("PostCreateContainer", ctrTag(c))
	return nil
}
func (p *plugin) StartContainer(_ context.Context, _ *api.PodSandbox, c *api.Container) error {
	p.lifecycle("StartContainer", ctrTag(c))
	return nil
}
func (p *plugin) PostStartContainer(_ context.Context, _ *api.PodSandbox, c *api.Container) error {
	p.lifecycle("PostStartContainer", ctrTag(c))
	return nil
}
func (p *plugin) UpdateContainer(_ context.Context, _ *api.PodSandbox, c *api.Container, _ *api.LinuxResources) ([]*api.ContainerUpdate, error) {
	p.lifecycle("UpdateContainer", ctrTag(c))
	return nil, nil
}
func (p *plugin) PostUpdateContainer(_ context.Context, _ *api.PodSandbox, c *api.Container) error {
	p.lifecycle("PostUpdateContainer", ctrTag(c))
	return nil
}
func (p *plugin) StopContainer(_ context.Context, _ *api.PodSandbox, c *api.Container) ([]*api.ContainerUpdate, error) {
	p.lifecycle("StopContainer", ctrTag(c))
	return nil, nil
}
func (p *plugin) RemoveContainer(_ context.Context, _ *api.PodSandbox, c *api.Container) error {
	p.lifecycle("RemoveContainer", ctrTag(c))
	return nil
}

func writeReport(rep *Report) error {
	dir := filepath.Join(root, "reports")
	name := strings.ReplaceAll(relFile, "/", "~") + "." + strconv.Itoa(rep.Pid) + ".json"
	b, err := json.Marshal(rep)
	if err != nil {
		return err
	}
	tmp := filepath.Join(dir, "."+name+".tmp")
	if err := os.WriteFile(tmp, b, 0o644); err != nil {
		return err
	}
	return os.Rename(tmp, filepath.Join(dir, name))
}

func main() {
	// --- observation: before anything else can open or close a descriptor ---------------
	t0 := time.Now().UnixNano()
	fds, lerr := listFDs()
	rep := &Report{
		Argv: append([]string{}, os.Args...),
		Pid:  os.Getpid(),
		Ppid: os.Getppid(),
		Env:  os.Environ(),
		FDs:  fds,
		T:    t0,
	}
	if lerr != nil {
		rep.ListErr = lerr.Error()
	}
	rep.StartTime = startTime()
	rep.Cwd, _ = os.Getwd()

	var err error
	root, relFile, err = findRoot(os.Args[0])
	if err != nil {
		os.Exit(90) // not installed by the harness
	}
	rep.File = relFile
	if err := writeReport(rep); err != nil {
		os.Exit(91)
	}

	// never outlive the process that launched us, nor five minutes
	parent := rep.Ppid
	go func() {
		deadline := time.Now().Add(5 * time.Minute)
		for {
			time.Sleep(250 * time.Millisecond)
			if os.Getppid() != parent || time.Now().After(deadline) {
				os.Exit(92)
			}
		}
	}()

	word, k := parseBehaviour(relFile)
	switch word {
	case "exit":
		os.Exit(k)
	case "sleep":
		linger()
	case "closefd":
		syscall.Close(3)
		linger()
	}

	logFD, err = syscall.Open(filepath.Join(root, "events.log"), syscall.O_WRONLY|syscall.O_APPEND|syscall.O_CREAT|syscall.O_CLOEXEC, 0o644)
	if err != nil {
		os.Exit(93)
	}

	logrus.SetOutput(io.Discard)
	logrus.SetLevel(logrus.PanicLevel)

	if word == "badmask" {
		runRaw(badMasks[k%len(badMasks)])
	}

	p := &plugin{word: word, k: k}
	// identity and connection come from the environment nri prepared (stub defaults)
	s, err := stub.New(p, stub.WithOnClose(func() {
		// a lost connection is not a reason to exit: what nri stops or drops, nri must kill
	}))
	if err != nil {
		os.Exit(94)
	}
	theStub = s
	if err := s.Run(context.Background()); err != nil {
		logMu.Lock()
		appendLine(Line{Ev: "RunError", Tag: err.Error()})
		logMu.Unlock()
	}
	linger()
}
