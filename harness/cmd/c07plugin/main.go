// Command c07plugin is the pre-installed plugin of the C07 check (package faults): the runtime
// launches it from its plugin path; what it contributes and how it fails is in its
// configuration (see faults.LaunchedMain).
package main

import "nriverif/faults"

func main() { faults.LaunchedMain() }
