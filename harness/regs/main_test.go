// Package regs holds the check for property C17: only well-formed, timely registrations
// are activated, and the socket is private.
//
// Code under test: pkg/adaptation/plugin.go (RegisterPlugin, start, configure, connect),
// pkg/adaptation/adaptation.go (startListener, acceptPluginConnections,
// WithDisabledExternalConnections), pkg/api/plugin.go (CheckPluginIndex), pkg/api/event.go
// (ValidEvents). Everything is driven through the public API: one in-process Adaptation per
// case on a real unix socket, and *raw* plugin peers (multiplexer + ttRPC client/server
// written here, peer_test.go) because the stub cannot send an empty name and always
// answers Configure properly.
package regs

import (
	"os"
	"testing"
	"time"

	"github.com/containerd/nri/pkg/adaptation"
)

const (
	// regTimeout / reqTimeout are the process-wide registration and request timeouts
	// (DESIGN.md C17: 200 ms, far above the healthy latency of a registration, < 5 ms).
	regTimeout = 200 * time.Millisecond
	reqTimeout = 200 * time.Millisecond
	// slack is the flat allowance of the property's time clause.
	slack = 2 * time.Second
)

func TestMain(m *testing.M) {
	adaptation.SetPluginRegistrationTimeout(regTimeout)
	adaptation.SetPluginRequestTimeout(reqTimeout)
	os.Exit(m.Run())
}
