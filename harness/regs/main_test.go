// Package regs holds the check for property C17: only well-formed, timely registrations
// are activated, and the socket is private.
//
// Code under test: pkg/adaptation/plugin.go (RegisterPlugin, start, configure, connect),
// pkg/adaptation/adaptation.go (startListener, acceptPluginConnections,
// WithDisabledExternalConnections), pkg/api/plugin.go (CheckPluginIndex), pkg/api/event.go
// (ValidEvents). Everything is driven through the public API: one in-process Adaptation per
// case on a real unix socket, and *raw* plugin peers (multiplexer + ttRPC client/server
// written here, peer_test.go) because the stub cannot send an empty name and always
// answers Configure properly.
package regs

import (
	"os"
	"testing"
	"time"

	"github.com/containerd/nri/pkg/adaptation"
)

const (
	// defaultTimeout is the registration and request timeout of ordinary cases (DESIGN.md
	// C17: 200 ms, far above the healthy latency of a registration, < 5 ms).
	defaultTimeout = 200 * time.Millisecond
	// slack is the flat allowance of the property's time clause.
	slack = 2 * time.Second
)

// regTimeout / reqTimeout are the registration and request timeouts in force (process-wide
// in nri; run is never called concurrently). Cases with many pending peers shorten them
// (C17Case.TimeoutMs) so that b x timeout stays affordable; setTimeouts switches.
var (
	regTimeout = defaultTimeout
	reqTimeout = defaultTimeout
)

func setTimeouts(d time.Duration) {
	regTimeout, reqTimeout = d, d
	adaptation.SetPluginRegistrationTimeout(d)
	adaptation.SetPluginRequestTimeout(d)
}

func TestMain(m *testing.M) {
	setTimeouts(defaultTimeout)
	os.Exit(m.Run())
}
