package regs

import (
	"context"
	"encoding/binary"
	"errors"
	"fmt"
	"io"
	"net"
	"os"
	"sync"
	"syscall"

	"github.com/containerd/nri/pkg/api"
	"github.com/containerd/ttrpc"
	"google.golang.org/grpc/codes"
	"google.golang.org/grpc/status"
	"google.golang.org/protobuf/proto"
)

// The FORM of a failing Configure / Synchronize answer is part of a case (Peer.ErrForm,
// ErrCode, ErrSentinel; list copied from harness/faults/errform.go):
//
//	plain   errors.New(text)
//	status  status.Error(codes.Code(ErrCode), text), ErrCode 1..16 (Unimplemented = 12)
//	wrap    fmt.Errorf("<text>: %w", sentinel)
//	bare    the sentinel itself
//
// The sentinels are the errors the runtime uses to recognise a broken connection or protocol
// when they come from its own transport; coming back from a plugin's handler they are just
// the plugin's answer. Besides the forms a peer can leave the method (or the whole Plugin
// service) unregistered: the ttRPC server then answers status Unimplemented by itself.
var sentinels = map[string]error{
	"ttrpc.ErrClosed":          ttrpc.ErrClosed,
	"ttrpc.ErrServerClosed":    ttrpc.ErrServerClosed,
	"ttrpc.ErrProtocol":        ttrpc.ErrProtocol,
	"ttrpc.ErrStreamClosed":    ttrpc.ErrStreamClosed,
	"ttrpc.Oversized":          ttrpc.OversizedMessageError(5 << 20),
	"context.DeadlineExceeded": context.DeadlineExceeded,
	"context.Canceled":         context.Canceled,
	"io.EOF":                   io.EOF,
	"io.ErrUnexpectedEOF":      io.ErrUnexpectedEOF,
	"io.ErrClosedPipe":         io.ErrClosedPipe,
	"net.ErrClosed":            net.ErrClosed,
	"os.ErrNotExist":           os.ErrNotExist,
	"os.ErrDeadlineExceeded":   os.ErrDeadlineExceeded,
	"syscall.EPIPE":            syscall.EPIPE,
	"syscall.ECONNRESET":       syscall.ECONNRESET,
	"syscall.ENOMEM":           syscall.ENOMEM,
	"proto.Error":              proto.Error,
}

var sentinelNames = []string{
	"context.DeadlineExceeded", "ttrpc.ErrClosed", "io.ErrUnexpectedEOF", "ttrpc.ErrProtocol", "proto.Error", "ttrpc.Oversized",
	"context.Canceled", "io.EOF", "ttrpc.ErrServerClosed", "syscall.EPIPE", "syscall.ECONNRESET", "net.ErrClosed",
	"ttrpc.ErrStreamClosed", "io.ErrClosedPipe", "os.ErrNotExist", "os.ErrDeadlineExceeded", "syscall.ENOMEM",
}

// answerError builds the error a peer's Configure / Synchronize handler returns.
func answerError(p Peer, what string) error {
	text := "verif: plugin refuses " + what
	switch p.ErrForm {
	case "status":
		c := codes.Code(p.ErrCode)
		if c == codes.OK || c > codes.Unauthenticated {
			c = codes.Unknown
		}
		return status.Error(c, text)
	case "wrap":
		if s, ok := sentinels[p.ErrSentinel]; ok {
			return fmt.Errorf("%s: %w", text, s)
		}
	case "bare":
		if s, ok := sentinels[p.ErrSentinel]; ok {
			return s
		}
	}
	return errors.New(text)
}

func errClass(p Peer) string {
	switch p.ErrForm {
	case "status":
		return "status:" + codes.Code(p.ErrCode).String()
	case "wrap", "bare":
		return p.ErrForm + ":" + p.ErrSentinel
	}
	return "plain"
}

const pluginServiceName = "nri.pkg.api.v1alpha1.Plugin"

// registerPluginServiceWithout is api.RegisterPluginService minus the named methods.
func registerPluginServiceWithout(srv *ttrpc.Server, svc api.PluginService, omit ...string) {
	type unm = func(interface{}) error
	m := map[string]ttrpc.Method{
		"Configure": func(ctx context.Context, u unm) (interface{}, error) {
			var req api.ConfigureRequest
			if err := u(&req); err != nil {
				return nil, err
			}
			return svc.Configure(ctx, &req)
		},
		"Synchronize": func(ctx context.Context, u unm) (interface{}, error) {
			var req api.SynchronizeRequest
			if err := u(&req); err != nil {
				return nil, err
			}
			return svc.Synchronize(ctx, &req)
		},
		"Shutdown": func(ctx context.Context, u unm) (interface{}, error) {
			var req api.Empty
			if err := u(&req); err != nil {
				return nil, err
			}
			return svc.Shutdown(ctx, &req)
		},
		"CreateContainer": func(ctx context.Context, u unm) (interface{}, error) {
			var req api.CreateContainerRequest
			if err := u(&req); err != nil {
				return nil, err
			}
			return svc.CreateContainer(ctx, &req)
		},
		"UpdateContainer": func(ctx context.Context, u unm) (interface{}, error) {
			var req api.UpdateContainerRequest
			if err := u(&req); err != nil {
				return nil, err
			}
			return svc.UpdateContainer(ctx, &req)
		},
		"StopContainer": func(ctx context.Context, u unm) (interface{}, error) {
			var req api.StopContainerRequest
			if err := u(&req); err != nil {
				return nil, err
			}
			return svc.StopContainer(ctx, &req)
		},
		"UpdatePodSandbox": func(ctx context.Context, u unm) (interface{}, error) {
			var req api.UpdatePodSandboxRequest
			if err := u(&req); err != nil {
				return nil, err
			}
			return svc.UpdatePodSandbox(ctx, &req)
		},
		"StateChange": func(ctx context.Context, u unm) (interface{}, error) {
			var req api.StateChangeEvent
			if err := u(&req); err != nil {
				return nil, err
			}
			return svc.StateChange(ctx, &req)
		},
	}
	for _, o := range omit {
		delete(m, o)
	}
	srv.RegisterService(pluginServiceName, &ttrpc.ServiceDesc{Methods: m})
}

// tapListener / tapConn record every ttRPC request message that arrives on a peer's Plugin
// service connection, whether or not a handler is registered for it: requests for an
// unregistered method or service never reach a handler, yet they are requests the runtime
// sent to this plugin.
type tapListener struct {
	net.Listener
	onRequest func(service, method string)
}

func (l *tapListener) Accept() (net.Conn, error) {
	c, err := l.Listener.Accept()
	if err != nil {
		return nil, err
	}
	return &tapConn{Conn: c, onRequest: l.onRequest}, nil
}

type tapConn struct {
	net.Conn
	mu        sync.Mutex
	buf       []byte
	onRequest func(service, method string)
}

func (c *tapConn) Read(b []byte) (int, error) {
	n, err := c.Conn.Read(b)
	if n > 0 {
		c.mu.Lock()
		c.buf = append(c.buf, b[:n]...)
		for len(c.buf) >= 10 { // ttRPC frame: length(4) stream(4) type(1) flags(1) payload
			l := int(binary.BigEndian.Uint32(c.buf[0:4]))
			if l > 8<<20 || len(c.buf) < 10+l {
				break
			}
			if c.buf[8] == 0x1 { // request
				var req ttrpc.Request
				if proto.Unmarshal(c.buf[10:10+l], &req) == nil {
					c.onRequest(req.Service, req.Method)
				}
			}
			c.buf = c.buf[10+l:]
		}
		c.mu.Unlock()
	}
	return n, err
}
