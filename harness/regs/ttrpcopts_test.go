package regs

import (
	"context"
	"net"
	"sync/atomic"

	"github.com/containerd/nri/pkg/adaptation"
	"github.com/containerd/ttrpc"
)

// Option tokens of C17Case.TTRPC: what a runtime may hand to adaptation.WithTTRPCOptions.
// All of them are pass-through (tracing-style) options: they observe, they change nothing.
const (
	ttClientUnary   = "c-unary"      // ttrpc.WithUnaryClientInterceptor(pass-through)
	ttClientChain   = "c-chain"      // ttrpc.WithChainUnaryClientInterceptor(pass-through)
	ttClientOnClose = "c-onclose"    // ttrpc.WithOnClose(func(){})
	ttServerUnary   = "s-unary"      // ttrpc.WithUnaryServerInterceptor(pass-through)
	ttServerChain   = "s-chain"      // ttrpc.WithChainUnaryServerInterceptor(pass-through)
	ttServerShake   = "s-handshaker" // ttrpc.WithServerHandshaker(accepts every connection as it is)
)

var ttTokens = []string{ttClientUnary, ttClientChain, ttClientOnClose, ttServerUnary, ttServerChain, ttServerShake}

type passHandshaker struct{}

func (passHandshaker) Handshake(_ context.Context, c net.Conn) (net.Conn, interface{}, error) {
	return c, nil, nil
}

// ttrpcOption builds the adaptation option for a token list (nil for an empty list); ok is
// false for lists ttRPC itself refuses (two unchained server interceptors / handshakers).
// calls counts the invocations of the pass-through interceptors.
func ttrpcOption(toks []string, calls *atomic.Int64) (opt adaptation.Option, ok bool) {
	if len(toks) == 0 {
		return nil, true
	}
	client := func(ctx context.Context, req *ttrpc.Request, rpl *ttrpc.Response, _ *ttrpc.UnaryClientInfo, invoke ttrpc.Invoker) error {
		calls.Add(1)
		return invoke(ctx, req, rpl)
	}
	server := func(ctx context.Context, u ttrpc.Unmarshaler, _ *ttrpc.UnaryServerInfo, m ttrpc.Method) (interface{}, error) {
		calls.Add(1)
		return m(ctx, u)
	}
	var (
		co             []ttrpc.ClientOpts
		so             []ttrpc.ServerOpt
		sUnary, sShake int
	)
	for _, t := range toks {
		switch t {
		case ttClientUnary:
			co = append(co, ttrpc.WithUnaryClientInterceptor(client))
		case ttClientChain:
			co = append(co, ttrpc.WithChainUnaryClientInterceptor(client))
		case ttClientOnClose:
			co = append(co, ttrpc.WithOnClose(func() {}))
		case ttServerUnary:
			sUnary++
			so = append(so, ttrpc.WithUnaryServerInterceptor(server))
		case ttServerChain:
			so = append(so, ttrpc.WithChainUnaryServerInterceptor(server))
		case ttServerShake:
			sShake++
			so = append(so, ttrpc.WithServerHandshaker(passHandshaker{}))
		default:
			return nil, false
		}
	}
	if sUnary > 1 || sShake > 1 {
		return nil, false
	}
	// ttRPC refuses an unchained server interceptor given after a chain as well
	if _, err := ttrpc.NewServer(so...); err != nil {
		return nil, false
	}
	return adaptation.WithTTRPCOptions(co, so), true
}
