package regs

import (
	"testing"

	"nriverif/ev"
)

// sweepFailed is set when the directed sweep (which runs first: this file sorts before
// c17_test.go) already found a violation; the generated search is skipped then, so that
// the small, unshrunk-but-minimal sweep case is what gets reported, quickly.
var sweepFailed bool

// TestExh_C17 enumerates the socket-path grid completely (5 umasks x 0..3 missing
// directories x 0..2 pre-existing directories x listening/disabled, conventional option
// order), the orders of the options given to adaptation.New, and runs a directed
// sweep of single bad peers: every index of the grammar, every single mask bit 0..31 alone
// and on top of all valid bits, and the odd names, each followed by one good peer.
func TestExh_C17(t *testing.T) {
	if i, _ := ev.Shard(); i != 0 {
		t.Skip("sweep runs in shard 0 only")
	}
	r := ev.Get("C17")
	defer r.Flush()
	n, nSock := 0, 0
	run := func(c C17Case) {
		raw := ev.Snapshot(c)
		r.Journal(raw)
		o := runC17(c)
		r.ClearJournal()
		for i, k := range o.Classes {
			o.Classes[i] = "sweep/" + k
		}
		o.Classes = append([]string{"sweep"}, o.Classes...)
		r.Record(raw, o)
		n++
		if o.Fail != "" {
			r.SetExtra("sweep_cases", n)
			sweepFailed = true
			t.Fatalf("C17 sweep: %s", o.Fail)
		}
	}
	for _, um := range umasks {
		for missing := 0; missing <= 3; missing++ {
			for _, ex := range [][]int{nil, {0o755}, {0o777, 0o750}} {
				for _, dis := range []bool{false, true} {
					run(C17Case{Kind: "sock", Umask: um, Missing: missing, Existing: ex, Disabled: dis})
					nSock++
				}
			}
		}
	}
	r.SetExtra("exhaustive_sock_cases", nSock)

	// Option order: every permutation of {socket path, plugin path, config path, disabled},
	// of the three without disabled, and of {socket path, disabled, ttrpc options} (the two
	// paths are then prepended by the runner), each with 0 and 2 missing directories; plus
	// directed lists with an option given twice and with two different socket paths.
	nOrder := 0
	order := func(opts []string) {
		for _, missing := range []int{0, 2} {
			c := C17Case{Kind: "sock", Umask: 0o022, Missing: missing, Opts: opts}
			for _, o := range opts {
				c.Disabled = c.Disabled || o == optDisabled
			}
			run(c)
			nOrder++
		}
	}
	permute([]string{optSocket, optPlugins, optConf, optDisabled}, order)
	permute([]string{optSocket, optPlugins, optConf}, order)
	permute([]string{optSocket, optDisabled, optTTRPC}, order)
	for _, l := range [][]string{
		{optDisabled, optDisabled, optSocket},
		{optDisabled, optSocket, optDisabled},
		{optSocket, optDisabled, optDisabled},
		{optSocket, optDisabled, optSocket},
		{optSocket, optSocket, optDisabled},
		{optDisabled, optSocket, optSocket},
		{optSocket, optDisabled, optSocketAlt},
		{optSocketAlt, optDisabled, optSocket},
		{optDisabled, optSocket, optSocketAlt},
		{optSocket, optSocketAlt, optDisabled},
		{optSocketAlt, optDisabled},
		{optDisabled, optSocketAlt},
		{optSocket, optSocketAlt},
		{optSocketAlt, optSocket},
		{optSocket, optSocket},
		{optDisabled, optPlugins, optTTRPC, optConf, optSocket},
		{optPlugins, optDisabled, optTTRPC, optSocketAlt, optConf, optDisabled},
	} {
		order(l)
	}
	r.SetExtra("option_order_cases", nOrder)

	evs := []int32{1, 2, 3, 4, 5, 6, 7, 8, 9, 10, 11, 12, 13}
	good := Peer{Name: "good", Idx: "50", Mask: 0}
	single := func(p Peer) { run(C17Case{Kind: "reg", Peers: []Peer{p, good}, Events: evs}) }
	for _, k := range badIdxKinds {
		for _, idx := range badIdxForms[k] {
			single(Peer{Name: "p", Idx: idx, Mask: 0})
			if k == "dash-suffix" {
				single(Peer{Name: "", Idx: idx, Mask: 0})
			}
		}
	}
	// the separator in the other field, and around an empty index
	for _, r := range []Reg{{Name: "05-foo", Idx: ""}, {Name: "5-foo", Idx: "0"}, {Name: "-foo", Idx: "05-"}, {Name: "-", Idx: "5"}, {Name: "foo", Idx: "-05"}, {Name: "", Idx: "05"}} {
		single(Peer{Name: r.Name, Idx: r.Idx})
	}
	for bit := uint(0); bit < 32; bit++ {
		single(Peer{Name: "p", Idx: "10", Mask: int32(uint32(1) << bit)})
		single(Peer{Name: "p", Idx: "10", Mask: validBits | int32(uint32(1)<<bit)})
	}
	for _, nm := range append([]string{""}, oddNames...) {
		single(Peer{Name: nm, Idx: "10", Mask: 0})
	}
	// one peer per stall point ahead of a good one, and the four of them in a row
	stalls := []string{stallCfgErr, stallSilent, stallCfgHang, stallLate}
	var row []Peer
	for _, st := range stalls {
		p := Peer{Name: "p", Idx: "10", Mask: 0, Stall: st}
		single(p)
		row = append(row, p)
	}
	run(C17Case{Kind: "reg", Peers: append(row, good), Events: evs})
	// the form of a failing Configure / Synchronize answer: plain, each of the 16 non-OK
	// status codes, every sentinel bare and wrapped; method or service not registered
	for _, st := range []string{stallCfgErr, stallSyncErr} {
		single(Peer{Name: "p", Idx: "10", Stall: st, ErrForm: "plain"})
		for code := 1; code <= 16; code++ {
			single(Peer{Name: "p", Idx: "10", Stall: st, ErrForm: "status", ErrCode: code})
		}
		for _, sn := range sentinelNames {
			single(Peer{Name: "p", Idx: "10", Stall: st, ErrForm: "bare", ErrSentinel: sn})
			single(Peer{Name: "p", Idx: "10", Stall: st, ErrForm: "wrap", ErrSentinel: sn})
		}
	}
	for _, st := range []string{stallNoConfigure, stallNoSynchronize, stallNoService} {
		single(Peer{Name: "p", Idx: "10", Stall: st})
		single(Peer{Name: "p", Idx: "10", Mask: 1 << 2, Stall: st})
	}
	// many bad peers pending at the same time ahead of good ones: 16, 17 (timeouts 100 ms)
	// and 20, 32, 64 (50 ms) peers that never register / never answer Configure
	crowd := func(b, timeoutMs int, stall func(i int) string, goods int) {
		c := C17Case{Kind: "reg", TimeoutMs: timeoutMs, Events: evs}
		for i := 0; i < b; i++ {
			c.Peers = append(c.Peers, Peer{Name: "p", Idx: "10", Stall: stall(i)})
		}
		for i := 0; i < goods; i++ {
			c.Peers = append(c.Peers, good)
		}
		run(c)
	}
	silent := func(int) string { return stallSilent }
	crowd(17, 100, silent, 1)
	crowd(16, 100, func(i int) string { return []string{stallSilent, stallCfgHang}[i%2] }, 2)
	crowd(20, 50, func(int) string { return stallCfgHang }, 1)
	crowd(32, 50, func(i int) string { return []string{stallSilent, stallSilent, stallCfgHang, stallLate}[i%4] }, 2)
	crowd(64, 50, silent, 2)
	tries := func(n int) []Reg {
		var a []Reg
		for i := 0; i < n; i++ {
			a = append(a, []Reg{{Name: "", Idx: "10"}, {Name: "p", Idx: "1"}, {Name: "", Idx: "x"}}[i%3])
		}
		return a
	}
	// the ttRPC options a runtime may pass to adaptation.New, each alone and a few together,
	// with the stall points that only the request timeout ends (100 ms timeouts)
	hang := []Peer{
		{Name: "p", Idx: "10", Stall: stallCfgHang}, {Name: "p", Idx: "11", Stall: stallSyncHang},
		{Name: "p", Idx: "12", Stall: stallSilent}, {Name: "p", Idx: "13", Stall: stallCfgErr},
		{Name: "p", Idx: "14", Mask: 1 << 2}, good,
	}
	single(Peer{Name: "p", Idx: "10", Stall: stallSyncHang})
	for _, toks := range append([][]string{
		{ttClientUnary, ttServerUnary}, {ttClientChain, ttClientUnary, ttServerChain},
		{ttClientOnClose, ttClientUnary, ttServerShake}, {ttServerUnary, ttServerChain, ttClientChain, ttClientChain},
	}, func() (l [][]string) {
		for _, t := range ttTokens {
			l = append(l, []string{t})
		}
		return
	}()...) {
		run(C17Case{Kind: "reg", TimeoutMs: 100, TTRPC: toks, Peers: hang, Events: evs})
	}
	// a peer that registers again on its connection (same / different / invalid identity, at
	// each phase of the handshake), combined with every Configure / Synchronize outcome
	outcomes := []Peer{
		{}, {Mask: 1 << 13}, {Stall: stallCfgErr}, {Stall: stallCfgErr, ErrForm: "status", ErrCode: 12},
		{Stall: stallCfgHang}, {Stall: stallCfgClose}, {Stall: stallSyncErr},
	}
	again := []ExtraReg{
		{Name: "other", Idx: "11", Phase: phaseInConfigure},
		{Name: "rereg", Idx: "10", Phase: phaseInConfigure},
		{Name: "rereg", Idx: "11", Phase: phaseEarly},
		{Name: "other", Idx: "10", Phase: phaseAfterConfigure},
		{Name: "other", Idx: "11", Phase: phaseInSynchronize},
		{Name: "", Idx: "11", Phase: phaseInConfigure},
	}
	for _, o := range outcomes {
		for _, e := range again {
			p := o
			p.Name, p.Idx, p.Extra = "rereg", "10", []ExtraReg{e}
			single(p)
		}
		p := o
		p.Name, p.Idx, p.Extra = "rereg", "10", []ExtraReg{again[2], again[0], again[3]}
		single(p)
	}
	single(Peer{Name: "p", Idx: "10", Stall: stallCfgClose})
	// the moment the timeouts are set: Adaptation started under T0, the case's timeout set
	// after Start(); and a further change between two peers
	late := Peer{Name: "p", Idx: "10", Stall: stallLate}
	sil := Peer{Name: "p", Idx: "10", Stall: stallSilent}
	retry := Peer{Name: "retry", Idx: "10", Stall: stallMulti, Final: finalValidLate, GapMs: 60, Attempts: tries(7)}
	for _, c := range []C17Case{
		{StartTimeoutMs: 5000, Peers: []Peer{late, good}},
		{StartTimeoutMs: 5000, Peers: []Peer{sil, good}},
		{StartTimeoutMs: 3000, TimeoutMs: 100, Peers: []Peer{late, sil, good}},
		{StartTimeoutMs: 2000, Peers: []Peer{retry, good}},
		{StartTimeoutMs: 1000, TimeoutMs: 150, Peers: []Peer{late, good}},
		{StartTimeoutMs: 50, Peers: []Peer{good, late, good}},
		{StartTimeoutMs: 50, TimeoutMs: 300, Peers: []Peer{{Name: "p", Idx: "10", Stall: stallCfgHang}, good}},
		{TimeoutMs: 300, SwitchAfter: 1, SwitchTimeoutMs: 100, Peers: []Peer{sil, late, good}},
		{TimeoutMs: 100, SwitchAfter: 2, SwitchTimeoutMs: 300, Peers: []Peer{late, good, late, good}},
		{StartTimeoutMs: 5000, TimeoutMs: 300, SwitchAfter: 2, SwitchTimeoutMs: 100, Peers: []Peer{good, sil, late, good}},
	} {
		c.Kind, c.Events = "reg", evs
		run(c)
	}
	// peers that register several times on one connection: invalid attempts 60 ms apart, then
	// silence / a disconnect / a valid registration clearly within or clearly after the timeout
	for _, m := range []Peer{
		{Final: finalValidLate, GapMs: 60, Attempts: tries(7)},
		{Final: finalValidLate, GapMs: 100, Attempts: tries(4)},
		{Final: finalValidLate, GapMs: 40, Attempts: tries(11)},
		{Final: finalSilence, GapMs: 60, Attempts: tries(3)},
		{Final: finalDisconnect, GapMs: 60, Attempts: tries(2)},
		{Final: finalValidEarly, GapMs: 40, Attempts: tries(1)},
		{Final: finalValidEarly, GapMs: 20, Attempts: tries(3)},
	} {
		m.Name, m.Idx, m.Mask, m.Stall = "retry", "10", 0, stallMulti
		single(m)
	}
	r.SetExtra("sweep_cases", n)
}

// permute calls f with every permutation of toks (Heap's algorithm, on copies).
func permute(toks []string, f func([]string)) {
	a := append([]string{}, toks...)
	var rec func(k int)
	rec = func(k int) {
		if k == 1 {
			f(append([]string{}, a...))
			return
		}
		for i := 0; i < k; i++ {
			rec(k - 1)
			if k%2 == 0 {
				a[i], a[k-1] = a[k-1], a[i]
			} else {
				a[0], a[k-1] = a[k-1], a[0]
			}
		}
	}
	rec(len(a))
}
