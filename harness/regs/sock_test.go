package regs

// Second sub-domain of C17: "When external connections are disabled no socket is served,
// and a socket directory created by NRI is accessible only to the runtime's own user."
//
// The options of adaptation.New are part of the case, in the order they are given: the
// statement does not make "disabled" depend on where WithDisabledExternalConnections()
// stands relative to WithSocketPath().

import (
	"context"
	"fmt"
	"io/fs"
	"net"
	"os"
	"path/filepath"
	"sort"
	"strings"
	"sync"
	"syscall"
	"time"

	"github.com/containerd/nri/pkg/adaptation"
	"github.com/containerd/nri/pkg/api"
	"github.com/containerd/ttrpc"
	"pgregory.net/rapid"

	"nriverif/ev"
	"nriverif/fx"
)

var (
	umasks        = []int{0, 0o002, 0o022, 0o027, 0o077}
	existingModes = []int{0o700, 0o750, 0o755, 0o775, 0o777, 0o1777}
	// umaskMu serialises everything that changes the process umask (run is never called
	// concurrently, this is belt and braces).
	umaskMu sync.Mutex
)

// Option tokens of a socket case (C17Case.Opts), applied to adaptation.New in list order.
const (
	optSocket    = "socket"     // WithSocketPath(<scratch>/e*/m*/nri.sock)
	optSocketAlt = "socket-alt" // WithSocketPath(<scratch>/e*/a*/nri.sock), a second path
	optDisabled  = "disabled"   // WithDisabledExternalConnections()
	optPlugins   = "plugins"    // WithPluginPath(<scratch>/no-plugins)
	optConf      = "conf"       // WithPluginConfigPath(<scratch>/no-conf)
	optTTRPC     = "ttrpc"      // WithTTRPCOptions(no client options, no server options)
)

// normOpts returns the option list of a socket case. Cases without one (the complete
// umask x directory sweep, older replay files) use the conventional order: socket path,
// plugin path, config path, and WithDisabledExternalConnections last. The default socket
// path (/var/run/nri), plugin path and config path are never left in place: a list without
// one of the three gets it prepended.
func normOpts(c C17Case) (opts []string, disabled bool, ok bool) {
	if len(c.Opts) == 0 {
		opts = []string{optSocket, optPlugins, optConf}
		if c.Disabled {
			opts = append(opts, optDisabled)
		}
		return opts, c.Disabled, true
	}
	has := map[string]bool{}
	for _, o := range c.Opts {
		switch o {
		case optSocket, optSocketAlt, optDisabled, optPlugins, optConf, optTTRPC:
			has[o] = true
		default:
			return nil, false, false
		}
	}
	opts = append([]string{}, c.Opts...)
	if !has[optConf] {
		opts = append([]string{optConf}, opts...)
	}
	if !has[optPlugins] {
		opts = append([]string{optPlugins}, opts...)
	}
	if !has[optSocket] && !has[optSocketAlt] {
		opts = append([]string{optSocket}, opts...)
	}
	return opts, has[optDisabled], true
}

// socketAfterDisabled tells whether a WithSocketPath option follows a
// WithDisabledExternalConnections option in the list.
func socketAfterDisabled(opts []string) bool {
	seen := false
	for _, o := range opts {
		switch o {
		case optDisabled:
			seen = true
		case optSocket, optSocketAlt:
			if seen {
				return true
			}
		}
	}
	return false
}

func genSock(t *rapid.T) C17Case {
	c := C17Case{Kind: "sock"}
	c.Umask = rapid.SampledFrom(umasks).Draw(t, "umask")
	c.Existing = rapid.SliceOfN(rapid.SampledFrom(existingModes), 0, 2).Draw(t, "existing")
	c.Missing = rapid.SampledFrom([]int{0, 1, 2, 2, 3, 3}).Draw(t, "missing")
	toks := []string{optSocket, optPlugins, optConf}
	switch rapid.SampledFrom([]string{"none", "none", "alt", "again", "alt-only"}).Draw(t, "second-socket") {
	case "alt":
		toks = append(toks, optSocketAlt)
	case "again":
		toks = append(toks, optSocket)
	case "alt-only":
		toks[0] = optSocketAlt
	}
	if rapid.Bool().Draw(t, "ttrpc") {
		toks = append(toks, optTTRPC)
	}
	// three in seven socket cases disable external connections, a third of those twice
	switch rapid.SampledFrom([]int{0, 1, 0, 0, 1, 2, 0}).Draw(t, "disabled") {
	case 1:
		toks = append(toks, optDisabled)
	case 2:
		toks = append(toks, optDisabled, optDisabled)
	}
	c.Opts = rapid.Permutation(toks).Draw(t, "option-order")
	for _, o := range c.Opts {
		if o == optDisabled {
			c.Disabled = true
		}
	}
	return c
}

type sockDir struct {
	Path    string `json:"path"`
	Created bool   `json:"created_by_start"`
	Before  string `json:"mode_before,omitempty"`
	After   string `json:"mode_after,omitempty"`
}

type sockHistory struct {
	Options []string  `json:"options"`
	Sockets []string  `json:"configured_socket_paths"`
	Served  []string  `json:"socket_files_after_start,omitempty"`
	Dirs    []sockDir `json:"dirs"`
	Notes   []string  `json:"notes,omitempty"`
}

func runSock(c C17Case) (o ev.Outcome) {
	optList, disabled, ok := normOpts(c)
	if !ok || c.Missing < 0 || c.Missing > 3 || len(c.Existing) > 3 || len(optList) > 12 || c.Umask&^0o777 != 0 || c.Umask&0o700 != 0 {
		// a umask that removes the owner's own bits makes MkdirAll fail half way: not in the domain
		return ev.Outcome{Excluded: "sock-out-of-domain"}
	}
	permissive := c.Umask&0o077 != 0o077
	o.Classes = []string{
		fmt.Sprintf("sock:missing-%d", c.Missing), "sock",
		fmt.Sprintf("sock:umask-%03o", c.Umask),
		fmt.Sprintf("sock:existing-%d", len(c.Existing)),
	}
	if len(c.Opts) > 0 {
		o.Classes = append(o.Classes, "sock:option-order")
	}
	nSock := map[string]int{}
	for _, t := range optList {
		nSock[t]++
	}
	if nSock[optSocket]+nSock[optSocketAlt] > 1 {
		o.Classes = append(o.Classes, "sock:socket-path-given-twice")
	}
	if disabled {
		o.Classes = append(o.Classes, "sock:disabled")
		if nSock[optDisabled] > 1 {
			o.Classes = append(o.Classes, "sock:disabled-given-twice")
		}
		// Non-trivial (added for the option order): connections are disabled and a socket path
		// option still follows.
		if socketAfterDisabled(optList) {
			o.NonTrivial = true
			o.Classes = append(o.Classes, "sock:disabled-before-socket-path")
		} else {
			o.Classes = append(o.Classes, "sock:disabled-after-socket-path")
		}
	} else {
		o.Classes = append(o.Classes, "sock:listening")
		// Non-trivial: a created directory chain of depth >= 2 under a permissive umask.
		if c.Missing >= 2 && permissive {
			o.NonTrivial = true
			o.Classes = append(o.Classes, "sock:chain>=2-permissive-umask")
		}
	}

	root := fx.ShortDir() // /tmp/nvXXXXXXXX, 0700, pre-existing as far as Start is concerned
	defer os.RemoveAll(root)
	h := &sockHistory{Options: optList}
	fail := func(format string, a ...any) ev.Outcome {
		o.Fail = fmt.Sprintf(format, a...)
		o.History = h
		return o
	}

	dir := root
	dirs := []sockDir{{Path: root}}
	for i, m := range c.Existing {
		dir = filepath.Join(dir, fmt.Sprintf("e%d", i))
		if err := os.Mkdir(dir, 0o700); err != nil {
			return fail("harness: %v", err)
		}
		if err := os.Chmod(dir, modeOf(m)); err != nil { // explicit: not subject to the umask
			return fail("harness: %v", err)
		}
		dirs = append(dirs, sockDir{Path: dir})
	}
	before := map[string]bool{}
	for i := range dirs {
		st, err := os.Stat(dirs[i].Path)
		if err != nil {
			return fail("harness: %v", err)
		}
		dirs[i].Before = st.Mode().String()
		before[dirs[i].Path] = true
	}
	mainDir, altDir := dir, dir
	for i := 0; i < c.Missing; i++ {
		mainDir = filepath.Join(mainDir, fmt.Sprintf("m%d", i))
		altDir = filepath.Join(altDir, fmt.Sprintf("a%d", i))
	}
	paths := map[string]string{
		optSocket:    filepath.Join(mainDir, "nri.sock"),
		optSocketAlt: filepath.Join(altDir, "alt.sock"),
	}
	var configured []string
	for _, t := range []string{optSocket, optSocketAlt} {
		if nSock[t] > 0 {
			configured = append(configured, paths[t])
		}
	}
	h.Sockets = configured

	var opts []adaptation.Option
	for _, t := range optList {
		switch t {
		case optSocket, optSocketAlt:
			opts = append(opts, adaptation.WithSocketPath(paths[t]))
		case optDisabled:
			opts = append(opts, adaptation.WithDisabledExternalConnections())
		case optPlugins:
			opts = append(opts, adaptation.WithPluginPath(filepath.Join(root, "no-plugins")))
		case optConf:
			opts = append(opts, adaptation.WithPluginConfigPath(filepath.Join(root, "no-conf")))
		case optTTRPC:
			opts = append(opts, adaptation.WithTTRPCOptions([]ttrpc.ClientOpts{}, []ttrpc.ServerOpt{}))
		}
	}
	syncFn := func(ctx context.Context, cb adaptation.SyncCB) error {
		_, err := cb(ctx, nil, nil)
		return err
	}
	updFn := func(context.Context, []*api.ContainerUpdate) ([]*api.ContainerUpdate, error) { return nil, nil }

	// The umask is process-wide: set it only around New/Start and restore it.
	umaskMu.Lock()
	old := syscall.Umask(c.Umask)
	a, err := adaptation.New("verif", "0.0", syncFn, updFn, opts...)
	if err == nil {
		err = a.Start()
	}
	syscall.Umask(old)
	umaskMu.Unlock()
	if a != nil {
		defer a.Stop()
	}
	if err != nil {
		// Nothing in this domain may make Start fail (short paths, writable scratch root);
		// without a started adaptation neither clause can be judged.
		return fail("Start failed with options %v under umask %03o: %v", optList, c.Umask, err)
	}

	// What is below the scratch root now: socket files, and directories that were not there.
	var served []string
	_ = filepath.WalkDir(root, func(p string, d fs.DirEntry, err error) error {
		if err != nil {
			return nil
		}
		if d.Type()&fs.ModeSocket != 0 {
			served = append(served, p)
		}
		if d.IsDir() && !before[p] {
			dirs = append(dirs, sockDir{Path: p, Created: true})
		}
		return nil
	})
	sort.Strings(served)
	h.Served = served
	for i := range dirs {
		if st, err := os.Lstat(dirs[i].Path); err == nil {
			dirs[i].After = st.Mode().String()
		} else {
			dirs[i].After = "absent"
		}
	}
	h.Dirs = dirs

	if disabled {
		// "When external connections are disabled no socket is served": no socket file at any
		// configured path (nor anywhere else below the scratch root), dialling fails, and so no
		// plugin can register.
		for _, p := range configured {
			if _, err := os.Lstat(p); err == nil {
				return fail("external connections are disabled (options in order: %s) but %s exists after Start%s",
					strings.Join(optList, ", "), p, tryRegister(p))
			}
			if conn, err := net.DialTimeout("unix", p, time.Second); err == nil {
				conn.Close()
				return fail("external connections are disabled (options in order: %s) but dialling %s succeeds%s",
					strings.Join(optList, ", "), p, tryRegister(p))
			}
		}
		if len(served) > 0 {
			return fail("external connections are disabled (options in order: %s) but Start created the socket %s", strings.Join(optList, ", "), served[0])
		}
	} else {
		// Which of several WithSocketPath options counts is not the statement's business; one of
		// the configured paths has to be served for the directory clause to be exercised at all.
		found := false
		for _, p := range configured {
			if st, err := os.Lstat(p); err == nil && st.Mode()&os.ModeSocket != 0 {
				found = true
			}
		}
		if !found {
			return fail("Start returned without error but there is no socket at any configured path %v", configured)
		}
	}

	for _, d := range dirs {
		st, err := os.Lstat(d.Path)
		if err != nil {
			h.Notes = append(h.Notes, fmt.Sprintf("directory %s: %v", d.Path, err))
			continue
		}
		if d.Created {
			// "a socket directory created by NRI is accessible only to the runtime's own user"
			if st.Mode().Perm()&0o077 != 0 {
				return fail("directory %s created by Start under umask %03o has mode %v: accessible to group/others", d.Path, c.Umask, st.Mode())
			}
			if sys, ok := st.Sys().(*syscall.Stat_t); ok && int(sys.Uid) != os.Geteuid() {
				return fail("directory %s created by Start is owned by uid %d, not by the runtime's user %d", d.Path, sys.Uid, os.Geteuid())
			}
		} else if st.Mode().String() != d.Before {
			// The statement only speaks about directories NRI creates: a pre-existing directory
			// whose mode changed is not judged, only counted.
			o.Lenient = append(o.Lenient, "sock:pre-existing-dir-mode-changed")
			h.Notes = append(h.Notes, fmt.Sprintf("pre-existing directory %s changed mode from %s to %v", d.Path, d.Before, st.Mode()))
		}
	}
	return o
}

// tryRegister makes the consequence of a served socket explicit in a verdict: a well-formed
// raw peer connects and registers; the text says how far it got.
func tryRegister(socket string) string {
	p, err := newRawPeer(socket, 0, Peer{Name: "intruder", Idx: "42", Mask: 0})
	if err != nil {
		return ""
	}
	defer p.teardown()
	p.serve(time.Now())
	go p.script(nil)
	select {
	case <-p.settledC:
	case <-time.After(2 * time.Second):
	}
	r := p.snapshot()
	switch {
	case r.NSync > 0:
		return "; a plugin connected to it, registered and was synchronized"
	case r.Registered && r.RegErr == "":
		return "; a plugin connected to it and its registration was accepted"
	default:
		return "; a plugin could connect to it"
	}
}

func modeOf(m int) os.FileMode {
	fm := os.FileMode(m & 0o777)
	if m&0o1000 != 0 {
		fm |= os.ModeSticky
	}
	return fm
}
