package regs

// Second sub-domain of C17: "When external connections are disabled no socket is served,
// and a socket directory created by NRI is accessible only to the runtime's own user."

import (
	"context"
	"fmt"
	"net"
	"os"
	"path/filepath"
	"sync"
	"syscall"
	"time"

	"github.com/containerd/nri/pkg/adaptation"
	"github.com/containerd/nri/pkg/api"
	"pgregory.net/rapid"

	"nriverif/ev"
	"nriverif/fx"
)

var (
	umasks        = []int{0, 0o002, 0o022, 0o027, 0o077}
	existingModes = []int{0o700, 0o750, 0o755, 0o775, 0o777, 0o1777}
	// umaskMu serialises everything that changes the process umask (run is never called
	// concurrently, this is belt and braces).
	umaskMu sync.Mutex
)

func genSock(t *rapid.T) C17Case {
	c := C17Case{Kind: "sock"}
	c.Umask = rapid.SampledFrom(umasks).Draw(t, "umask")
	c.Existing = rapid.SliceOfN(rapid.SampledFrom(existingModes), 0, 2).Draw(t, "existing")
	c.Missing = rapid.SampledFrom([]int{0, 1, 2, 2, 3, 3}).Draw(t, "missing")
	c.Disabled = rapid.IntRange(0, 3).Draw(t, "disabled") == 0
	return c
}

type sockDir struct {
	Path    string `json:"path"`
	Created bool   `json:"created_by_start"`
	Before  string `json:"mode_before,omitempty"`
	After   string `json:"mode_after,omitempty"`
}

type sockHistory struct {
	Socket string    `json:"socket"`
	Dirs   []sockDir `json:"dirs"`
	Notes  []string  `json:"notes,omitempty"`
}

func runSock(c C17Case) (o ev.Outcome) {
	if c.Missing < 0 || c.Missing > 3 || len(c.Existing) > 3 || c.Umask&^0o777 != 0 || c.Umask&0o700 != 0 {
		// a umask that removes the owner's own bits makes MkdirAll fail half way: not in the domain
		return ev.Outcome{Excluded: "sock-out-of-domain"}
	}
	permissive := c.Umask&0o077 != 0o077
	o.Classes = []string{
		fmt.Sprintf("sock:missing-%d", c.Missing), "sock",
		fmt.Sprintf("sock:umask-%03o", c.Umask),
		fmt.Sprintf("sock:existing-%d", len(c.Existing)),
	}
	if c.Disabled {
		o.Classes = append(o.Classes, "sock:disabled")
	} else {
		o.Classes = append(o.Classes, "sock:listening")
		// Non-trivial: a created directory chain of depth >= 2 under a permissive umask.
		if c.Missing >= 2 && permissive {
			o.NonTrivial = true
			o.Classes = append(o.Classes, "sock:chain>=2-permissive-umask")
		}
	}

	root := fx.ShortDir() // /tmp/nvXXXXXXXX, 0700, pre-existing as far as Start is concerned
	defer os.RemoveAll(root)
	h := &sockHistory{}
	fail := func(format string, a ...any) ev.Outcome {
		o.Fail = fmt.Sprintf(format, a...)
		o.History = h
		return o
	}

	dir := root
	dirs := []sockDir{{Path: root}}
	for i, m := range c.Existing {
		dir = filepath.Join(dir, fmt.Sprintf("e%d", i))
		if err := os.Mkdir(dir, 0o700); err != nil {
			return fail("harness: %v", err)
		}
		if err := os.Chmod(dir, modeOf(m)); err != nil { // explicit: not subject to the umask
			return fail("harness: %v", err)
		}
		dirs = append(dirs, sockDir{Path: dir})
	}
	for i := range dirs {
		st, err := os.Stat(dirs[i].Path)
		if err != nil {
			return fail("harness: %v", err)
		}
		dirs[i].Before = st.Mode().String()
	}
	for i := 0; i < c.Missing; i++ {
		dir = filepath.Join(dir, fmt.Sprintf("m%d", i))
		dirs = append(dirs, sockDir{Path: dir, Created: true})
	}
	socket := filepath.Join(dir, "nri.sock")
	h.Socket = socket

	opts := []adaptation.Option{
		adaptation.WithSocketPath(socket),
		adaptation.WithPluginPath(filepath.Join(root, "no-plugins")),
		adaptation.WithPluginConfigPath(filepath.Join(root, "no-conf")),
	}
	if c.Disabled {
		opts = append(opts, adaptation.WithDisabledExternalConnections())
	}
	syncFn := func(ctx context.Context, cb adaptation.SyncCB) error {
		_, err := cb(ctx, nil, nil)
		return err
	}
	updFn := func(context.Context, []*api.ContainerUpdate) ([]*api.ContainerUpdate, error) { return nil, nil }

	// The umask is process-wide: set it only around New/Start and restore it.
	umaskMu.Lock()
	old := syscall.Umask(c.Umask)
	a, err := adaptation.New("verif", "0.0", syncFn, updFn, opts...)
	if err == nil {
		err = a.Start()
	}
	syscall.Umask(old)
	umaskMu.Unlock()
	if a != nil {
		defer a.Stop()
	}
	if err != nil {
		// Nothing in this domain may make Start fail (short path, writable scratch root);
		// without a started adaptation neither clause can be judged.
		return fail("Start failed for socket path %s under umask %03o: %v", socket, c.Umask, err)
	}

	for i := range dirs {
		st, err := os.Lstat(dirs[i].Path)
		if err == nil {
			dirs[i].After = st.Mode().String()
		} else {
			dirs[i].After = "absent"
		}
	}
	h.Dirs = dirs

	if c.Disabled {
		// "When external connections are disabled no socket is served"
		if _, err := os.Lstat(socket); err == nil {
			return fail("external connections are disabled but %s exists after Start", socket)
		}
		if conn, err := net.DialTimeout("unix", socket, time.Second); err == nil {
			conn.Close()
			return fail("external connections are disabled but dialling %s succeeds", socket)
		}
	} else {
		st, err := os.Lstat(socket)
		if err != nil || st.Mode()&os.ModeSocket == 0 {
			return fail("Start returned without error but there is no socket at %s (%v)", socket, err)
		}
	}

	for _, d := range dirs {
		st, err := os.Lstat(d.Path)
		if d.Created && !c.Disabled && (err != nil || !st.IsDir()) {
			return fail("Start did not create the socket directory %s (%v)", d.Path, err)
		}
		if err != nil {
			if !d.Created {
				h.Notes = append(h.Notes, fmt.Sprintf("pre-existing directory %s: %v", d.Path, err))
			}
			continue // disabled: nothing has to be created; whatever was created is judged below
		}
		if d.Created {
			// "a socket directory created by NRI is accessible only to the runtime's own user"
			if st.Mode().Perm()&0o077 != 0 {
				return fail("directory %s created by Start under umask %03o has mode %v: accessible to group/others", d.Path, c.Umask, st.Mode())
			}
			if sys, ok := st.Sys().(*syscall.Stat_t); ok && int(sys.Uid) != os.Geteuid() {
				return fail("directory %s created by Start is owned by uid %d, not by the runtime's user %d", d.Path, sys.Uid, os.Geteuid())
			}
		} else if st.Mode().String() != d.Before {
			// The statement only speaks about directories NRI creates: a pre-existing directory
			// whose mode changed is not judged, only counted.
			o.Lenient = append(o.Lenient, "sock:pre-existing-dir-mode-changed")
			h.Notes = append(h.Notes, fmt.Sprintf("pre-existing directory %s changed mode from %s to %v", d.Path, d.Before, st.Mode()))
		}
	}
	return o
}

func modeOf(m int) os.FileMode {
	fm := os.FileMode(m & 0o777)
	if m&0o1000 != 0 {
		fm |= os.ModeSticky
	}
	return fm
}
