package regs

import (
	"context"
	"errors"
	"fmt"
	"net"
	"sync"
	"time"

	"github.com/containerd/nri/pkg/api"
	"github.com/containerd/nri/pkg/net/multiplex"
	"github.com/containerd/ttrpc"
)

// Call is one request a raw peer's Plugin service received from the runtime.
type Call struct {
	Kind  string  `json:"kind"`            // Configure | Synchronize | Event | Probe | Shutdown
	Event int32   `json:"event,omitempty"` // api.Event number for Event / Probe
	Tag   string  `json:"tag,omitempty"`   // pod id carried by the request ("ev-<i>" or the probe pod)
	AtMs  float64 `json:"at_ms"`           // milliseconds since the case's peers were connected
}

// rawPeer is a plugin written directly against the wire protocol, mirroring what
// pkg/stub/stub.go Start/register do: dial the socket, multiplex it, serve the Plugin
// service on the PluginServiceConn, call RegisterPlugin over the RuntimeServiceConn.
// Unlike the stub it sends whatever name / index / event mask the case says and can stall
// at every point of the handshake.
type rawPeer struct {
	pos  int
	spec Peer
	t0   time.Time
	// timeout: the registration timeout in force when this peer's handshake starts
	timeout time.Duration

	conn net.Conn
	mux  multiplex.Mux
	srv  *ttrpc.Server
	cli  *ttrpc.Client
	rt   api.RuntimeService
	lis  net.Listener

	release    chan struct{} // closed at teardown: unblocks hanging Configure handlers and waits
	settledC   chan struct{} // the runtime is visibly done with this peer's handshake
	settleOnce sync.Once
	settledAt  time.Time
	scriptDone chan struct{}

	mu         sync.Mutex
	calls      []Call
	nSync      int
	syncAt     time.Time
	probes     int
	closed     bool // the connection was closed (by the runtime, before teardown)
	closedAt   time.Time
	tearing    bool
	regTried   bool
	regErr     string
	regAtMs    float64
	regDurMs   float64
	attempts   []AttemptRecord
	wire       []WireRequest
	wireSyncAt time.Time
}

func newRawPeer(socket string, pos int, spec Peer) (*rawPeer, error) {
	conn, err := net.Dial("unix", socket)
	if err != nil {
		return nil, err
	}
	p := &rawPeer{
		pos: pos, spec: spec, conn: conn,
		release:    make(chan struct{}),
		settledC:   make(chan struct{}),
		scriptDone: make(chan struct{}),
	}
	p.mux = multiplex.Multiplex(conn)
	p.lis, err = p.mux.Listen(multiplex.PluginServiceConn)
	if err != nil {
		p.mux.Close()
		return nil, err
	}
	p.srv, err = ttrpc.NewServer()
	if err != nil {
		p.mux.Close()
		return nil, err
	}
	switch spec.Stall {
	case stallNoService: // a ttRPC server without any service
	case stallNoConfigure:
		registerPluginServiceWithout(p.srv, p, "Configure")
	case stallNoSynchronize:
		registerPluginServiceWithout(p.srv, p, "Synchronize")
	default:
		api.RegisterPluginService(p.srv, p)
	}
	cconn, err := p.mux.Open(multiplex.RuntimeServiceConn)
	if err != nil {
		p.mux.Close()
		return nil, err
	}
	p.cli = ttrpc.NewClient(cconn, ttrpc.WithOnClose(p.connClosed))
	p.rt = api.NewRuntimeClient(p.cli)
	return p, nil
}

// serve starts the Plugin service. t0 is the common time origin of the case.
func (p *rawPeer) serve(t0 time.Time) {
	p.t0 = t0
	go p.srv.Serve(context.Background(), &tapListener{Listener: p.lis, onRequest: p.wireRequest})
}

// wireRequest records a request message seen on the wire (handler or not).
func (p *rawPeer) wireRequest(service, method string) {
	if service != pluginServiceName {
		method = service + "/" + method
	}
	now := time.Now()
	p.mu.Lock()
	p.wire = append(p.wire, WireRequest{Method: method, AtMs: p.ms(now)})
	if method == "Synchronize" && p.wireSyncAt.IsZero() {
		p.wireSyncAt = now
	}
	p.mu.Unlock()
	if method == "Synchronize" {
		p.settle() // like the handler: the runtime got as far as synchronizing this peer
	}
}

func (p *rawPeer) ms(t time.Time) float64 { return float64(t.Sub(p.t0).Microseconds()) / 1000 }

func (p *rawPeer) settle() {
	p.settleOnce.Do(func() {
		p.mu.Lock()
		p.settledAt = time.Now()
		p.mu.Unlock()
		close(p.settledC)
	})
}

func (p *rawPeer) connClosed() {
	p.mu.Lock()
	if !p.tearing && !p.closed {
		p.closed = true
		p.closedAt = time.Now()
	}
	p.mu.Unlock()
	p.settle()
}

// script performs the peer's side of the registration. pred is the peer ahead of it in the
// accept queue (nil for the first one).
func (p *rawPeer) script(pred *rawPeer) {
	defer close(p.scriptDone)
	switch p.spec.Stall {
	case stallSilent:
		return // connects, serves its Plugin service, never registers
	case stallMulti:
		p.multiScript(pred)
		return
	case stallLate:
		// The registration timeout of this peer starts when the runtime accepts its
		// connection, which happens at the latest when the runtime is visibly done with the
		// peer ahead (accept loop is serial). Register clearly after: 2 x the timeout later.
		if pred != nil {
			select {
			case <-pred.settledC:
			case <-p.release:
				return
			case <-time.After(10 * time.Second):
			}
		}
		select {
		case <-time.After(2 * p.timeout):
		case <-p.release:
			return
		}
	}
	p.extras(phaseEarly, false) // sent right behind the peer's own registration, before its reply
	ctx, cancel := context.WithTimeout(context.Background(), 20*time.Second)
	defer cancel()
	start := time.Now()
	_, err := p.rt.RegisterPlugin(ctx, &api.RegisterPluginRequest{
		PluginName: p.spec.Name,
		PluginIdx:  p.spec.Idx,
	})
	end := time.Now()
	p.mu.Lock()
	p.regTried = true
	p.regAtMs = p.ms(start)
	p.regDurMs = float64(end.Sub(start).Microseconds()) / 1000
	if err != nil {
		p.regErr = err.Error()
	}
	p.mu.Unlock()
	if err != nil {
		p.settle() // refused (or the connection is gone): the runtime has moved on
	}
}

// multiScript calls RegisterPlugin several times on the one connection: the case's invalid
// attempts, GapMs apart (below the registration timeout), then silence, a disconnect, or the
// peer's own well-formed registration. The attempts are spaced in real time after the
// runtime has accepted the connection (= is visibly done with the peer ahead), not queued up
// beforehand. An attempt whose reply does not arrive within the gap is abandoned (the
// unchanged runtime never answers a third call on a refused connection).
func (p *rawPeer) multiScript(pred *rawPeer) {
	if pred != nil {
		select {
		case <-pred.settledC:
		case <-p.release:
			return
		case <-time.After(10 * time.Second):
		}
	}
	gap := time.Duration(p.spec.GapMs) * time.Millisecond
	base := time.Now()
	call := func(i int, name, idx string, wait time.Duration) {
		at := base.Add(time.Duration(i) * gap)
		select {
		case <-time.After(time.Until(at)):
		case <-p.release:
			return
		}
		ctx, cancel := context.WithTimeout(context.Background(), wait)
		start := time.Now()
		_, err := p.rt.RegisterPlugin(ctx, &api.RegisterPluginRequest{PluginName: name, PluginIdx: idx})
		cancel()
		a := AttemptRecord{Name: name, Idx: idx, AtMs: p.ms(start), TookMs: float64(time.Since(start).Microseconds()) / 1000}
		if err != nil {
			a.Err = err.Error()
		} else {
			a.Err = "accepted"
		}
		p.mu.Lock()
		p.attempts = append(p.attempts, a)
		p.mu.Unlock()
		if err != nil {
			p.settle()
		}
	}
	for i, a := range p.spec.Attempts {
		call(i, a.Name, a.Idx, gap)
	}
	k := len(p.spec.Attempts)
	switch p.spec.Final {
	case finalValidEarly, finalValidLate:
		call(k, p.spec.Name, p.spec.Idx, 300*time.Millisecond)
		p.mu.Lock()
		p.regTried = true
		p.mu.Unlock()
	case finalDisconnect:
		select {
		case <-time.After(time.Until(base.Add(time.Duration(k) * gap))):
		case <-p.release:
			return
		}
		p.mu.Lock()
		p.tearing = true // the close that follows is the peer's own
		p.mu.Unlock()
		p.mux.Close()
		p.conn.Close()
	}
	p.settle()
}

func (p *rawPeer) record(c Call) {
	now := time.Now()
	c.AtMs = p.ms(now)
	p.mu.Lock()
	p.calls = append(p.calls, c)
	switch c.Kind {
	case "Synchronize":
		p.nSync++
		if p.nSync == 1 {
			p.syncAt = now
		}
	case "Probe":
		p.probes++
	}
	p.mu.Unlock()
}

func (p *rawPeer) recordEvent(e api.Event, pod *api.PodSandbox) {
	tag := pod.GetId()
	if tag == probePod {
		p.record(Call{Kind: "Probe", Event: int32(e), Tag: tag})
		return
	}
	p.record(Call{Kind: "Event", Event: int32(e), Tag: tag})
}

// --- api.PluginService -------------------------------------------------------------------

// extras sends the peer's further RegisterPlugin calls of one phase. In-handler phases are
// sent synchronously, each abandoned after 40 ms (the unchanged runtime answers the second
// call on a connection through its buffered channel and never answers a third one); the
// other phases are sent from a goroutine of their own.
func (p *rawPeer) extras(phase string, inHandler bool) {
	if !allowsExtra(p.spec.Stall) {
		return
	}
	for _, e := range p.spec.Extra {
		if e.Phase != phase {
			continue
		}
		e := e
		call := func(wait time.Duration) {
			ctx, cancel := context.WithTimeout(context.Background(), wait)
			start := time.Now()
			_, err := p.rt.RegisterPlugin(ctx, &api.RegisterPluginRequest{PluginName: e.Name, PluginIdx: e.Idx})
			cancel()
			a := AttemptRecord{Name: e.Name, Idx: e.Idx, AtMs: p.ms(start), TookMs: float64(time.Since(start).Microseconds()) / 1000, Err: "accepted"}
			if err != nil {
				a.Err = err.Error()
			}
			a.Err = phase + ": " + a.Err
			p.mu.Lock()
			p.attempts = append(p.attempts, a)
			p.mu.Unlock()
		}
		if inHandler {
			call(40 * time.Millisecond)
		} else {
			go func() {
				if phase == phaseEarly {
					time.Sleep(200 * time.Microsecond) // behind the peer's own registration, as a rule
				}
				call(300 * time.Millisecond)
			}()
		}
	}
}

func (p *rawPeer) Configure(ctx context.Context, req *api.ConfigureRequest) (*api.ConfigureResponse, error) {
	p.record(Call{Kind: "Configure"})
	p.extras(phaseInConfigure, true)
	defer p.extras(phaseAfterConfigure, false)
	switch p.spec.Stall {
	case stallCfgClose:
		p.mu.Lock()
		p.tearing = true // the close that follows is the peer's own
		p.mu.Unlock()
		p.mux.Close()
		p.conn.Close()
		return nil, errors.New("verif: plugin closed its connection instead of answering Configure")
	case stallCfgHang:
		<-p.release // ignores its context: never answers while the case runs
		return nil, errors.New("verif: released at teardown")
	case stallCfgErr:
		return nil, answerError(p.spec, "its configuration")
	}
	return &api.ConfigureResponse{Events: p.spec.Mask}, nil
}

func (p *rawPeer) Synchronize(ctx context.Context, req *api.SynchronizeRequest) (*api.SynchronizeResponse, error) {
	p.record(Call{Kind: "Synchronize"})
	p.settle()
	p.extras(phaseInSynchronize, true)
	if p.spec.Stall == stallSyncHang {
		<-p.release // ignores its context: never answers while the case runs
		return nil, errors.New("verif: released at teardown")
	}
	if p.spec.Stall == stallSyncErr {
		return nil, answerError(p.spec, "to synchronize")
	}
	return &api.SynchronizeResponse{More: req.GetMore()}, nil
}

func (p *rawPeer) Shutdown(ctx context.Context, req *api.Empty) (*api.Empty, error) {
	p.record(Call{Kind: "Shutdown"})
	return &api.Empty{}, nil
}

func (p *rawPeer) CreateContainer(ctx context.Context, req *api.CreateContainerRequest) (*api.CreateContainerResponse, error) {
	p.recordEvent(api.Event_CREATE_CONTAINER, req.GetPod())
	return &api.CreateContainerResponse{}, nil
}

func (p *rawPeer) UpdateContainer(ctx context.Context, req *api.UpdateContainerRequest) (*api.UpdateContainerResponse, error) {
	p.recordEvent(api.Event_UPDATE_CONTAINER, req.GetPod())
	return &api.UpdateContainerResponse{}, nil
}

func (p *rawPeer) StopContainer(ctx context.Context, req *api.StopContainerRequest) (*api.StopContainerResponse, error) {
	p.recordEvent(api.Event_STOP_CONTAINER, req.GetPod())
	return &api.StopContainerResponse{}, nil
}

func (p *rawPeer) UpdatePodSandbox(ctx context.Context, req *api.UpdatePodSandboxRequest) (*api.UpdatePodSandboxResponse, error) {
	p.recordEvent(api.Event_UPDATE_POD_SANDBOX, req.GetPod())
	return &api.UpdatePodSandboxResponse{}, nil
}

func (p *rawPeer) StateChange(ctx context.Context, evt *api.StateChangeEvent) (*api.Empty, error) {
	p.recordEvent(evt.GetEvent(), evt.GetPod())
	return &api.Empty{}, nil
}

// --- teardown and snapshots ---------------------------------------------------------------

func (p *rawPeer) teardown() {
	p.mu.Lock()
	p.tearing = true
	p.mu.Unlock()
	close(p.release)
	p.cli.Close()
	p.srv.Close()
	p.mux.Close()
	p.conn.Close()
	select {
	case <-p.scriptDone:
	case <-time.After(5 * time.Second):
	}
}

// WireRequest is a ttRPC request message that arrived on the peer's Plugin service connection.
type WireRequest struct {
	Method string  `json:"method"`
	AtMs   float64 `json:"at_ms"`
}

// AttemptRecord is one RegisterPlugin call of a multi-attempt peer.
type AttemptRecord struct {
	Name   string  `json:"name"`
	Idx    string  `json:"idx"`
	AtMs   float64 `json:"at_ms"`
	TookMs float64 `json:"took_ms"`
	Err    string  `json:"result"`
}

// wireMethods returns the methods of all requests that arrived, in order.
func (p *rawPeer) wireMethods() []string {
	p.mu.Lock()
	defer p.mu.Unlock()
	var m []string
	for _, w := range p.wire {
		m = append(m, w.Method)
	}
	return m
}

// PeerRecord is what a peer saw, for the oracle and the replay file.
type PeerRecord struct {
	Pos        int             `json:"pos"`
	TimeoutMs  int             `json:"timeout_in_force_ms,omitempty"`
	Spec       Peer            `json:"spec"`
	Sentinel   bool            `json:"sentinel,omitempty"`
	Valid      bool            `json:"expected_valid"`
	Why        string          `json:"invalid_because,omitempty"`
	Registered bool            `json:"register_called"`
	RegErr     string          `json:"register_error,omitempty"`
	RegAtMs    float64         `json:"register_at_ms,omitempty"`
	RegDurMs   float64         `json:"register_took_ms,omitempty"`
	ClosedAtMs float64         `json:"closed_by_runtime_at_ms,omitempty"`
	SyncAtMs   float64         `json:"sync_at_ms,omitempty"`
	NSync      int             `json:"synchronize_calls"`
	Probes     int             `json:"probes"`
	Calls      []Call          `json:"calls"`
	Attempts   []AttemptRecord `json:"register_attempts,omitempty"`
	// Wire: methods of all requests that arrived (probes summarised like Calls)
	Wire []string `json:"wire_requests,omitempty"`
}

func (p *rawPeer) snapshot() PeerRecord {
	p.mu.Lock()
	defer p.mu.Unlock()
	r := PeerRecord{
		Pos: p.pos, Spec: p.spec,
		Registered: p.regTried, RegErr: p.regErr, RegAtMs: p.regAtMs, RegDurMs: p.regDurMs,
		NSync: p.nSync, Probes: p.probes,
		Attempts: append([]AttemptRecord{}, p.attempts...),
	}
	if p.closed {
		r.ClosedAtMs = p.ms(p.closedAt)
	}
	if p.nSync > 0 {
		r.SyncAtMs = p.ms(p.syncAt)
	}
	for i, w := range p.wire {
		if i >= 24 {
			r.Wire = append(r.Wire, fmt.Sprintf("... %d more", len(p.wire)-i))
			break
		}
		r.Wire = append(r.Wire, w.Method)
	}
	// probes are summarised by their count; keep the first few calls of each kind readable
	np := 0
	for _, c := range p.calls {
		if c.Kind == "Probe" {
			np++
			if np > 3 {
				continue
			}
		}
		r.Calls = append(r.Calls, c)
	}
	return r
}
