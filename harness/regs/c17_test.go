package regs

// C17 — "An external plugin becomes active only if it registers with a non-empty name and a
// two-digit index within the registration timeout and answers configuration with a mask
// containing only valid events; any other plugin never receives synchronization or events,
// and does not prevent later plugins from registering. When external connections are
// disabled no socket is served, and a socket directory created by NRI is accessible only
// to the runtime's own user."

import (
	"context"
	"fmt"
	"math"
	"regexp"
	"sort"
	"strings"
	"sync/atomic"
	"testing"
	"time"
	"unicode/utf8"

	"github.com/containerd/nri/pkg/adaptation"
	"github.com/containerd/nri/pkg/api"
	"pgregory.net/rapid"

	"nriverif/ev"
	"nriverif/fx"
)

const (
	stallNone     = ""
	stallSilent   = "silent"    // connects, never calls RegisterPlugin
	stallLate     = "late"      // calls RegisterPlugin >= 2 x the registration timeout after it was accepted
	stallCfgHang  = "cfg-hang"  // registers, its Configure handler never answers
	stallCfgErr   = "cfg-err"   // registers, answers Configure with an error
	stallSyncHang = "sync-hang" // registers, configures, its Synchronize handler never answers
	stallCfgClose = "cfg-close" // registers, closes its connection instead of answering Configure
	stallSyncErr  = "sync-err"  // registers, configures, answers Synchronize with an error
	// the peer's ttRPC server does not register Configure / Synchronize / any Plugin service:
	// ttRPC itself answers those requests with status Unimplemented
	stallNoConfigure   = "no-configure"
	stallNoSynchronize = "no-synchronize"
	stallNoService     = "no-service"
	stallMulti         = "multi" // calls RegisterPlugin several times on one connection (Attempts, GapMs, Final)

	// phases of a peer's further RegisterPlugin calls (Peer.Extra)
	phaseEarly          = "early"           // right behind its own registration, before the reply
	phaseInConfigure    = "in-configure"    // from inside its Configure handler, before answering
	phaseAfterConfigure = "after-configure" // as soon as its Configure handler has returned
	phaseInSynchronize  = "in-synchronize"  // from inside its Synchronize handler

	finalSilence    = "silence"     // after the invalid attempts: nothing more
	finalDisconnect = "disconnect"  // ... closes its connection
	finalValidEarly = "valid-early" // ... registers properly, clearly within the registration timeout
	finalValidLate  = "valid-late"  // ... registers properly, >= 2 x the registration timeout after it was accepted

	probePod = fx.ProbePodID

	validBits = int32(1<<13 - 1) // the 13 defined events (api.Event 1..13), written out independently of api.ValidEvents
)

// Peer is one raw plugin peer of a registration case.
type Peer struct {
	Name  string `json:"name"`
	Idx   string `json:"idx"`
	Mask  int32  `json:"mask"`
	Stall string `json:"stall,omitempty"`

	// stall "multi" only: the invalid registrations sent first (each with an empty name or an
	// index that is not two digits), the gap between consecutive RegisterPlugin calls (below
	// the registration timeout), and what follows them. Name/Idx are the final registration.
	Attempts []Reg  `json:"attempts,omitempty"`
	GapMs    int    `json:"gap_ms,omitempty"`
	Final    string `json:"final,omitempty"`

	// stalls "cfg-err" / "sync-err": the form of the error answer (errform_test.go); empty =
	// a plain error.
	ErrForm     string `json:"err_form,omitempty"`
	ErrCode     int    `json:"err_code,omitempty"`
	ErrSentinel string `json:"err_sentinel,omitempty"`

	// Extra: further RegisterPlugin calls on the same connection after the peer's own
	// (well-formed, timely) registration, each valid or invalid, with the same or a different
	// identity, sent at the given phase. Honoured for the stalls that get as far as Configure
	// ("", cfg-err, cfg-hang, cfg-close, sync-err).
	Extra []ExtraReg `json:"extra,omitempty"`
}

// ExtraReg is one further registration of a peer.
type ExtraReg struct {
	Name  string `json:"name"`
	Idx   string `json:"idx"`
	Phase string `json:"phase"`
}

func allowsExtra(stall string) bool {
	switch stall {
	case stallNone, stallCfgErr, stallCfgHang, stallCfgClose, stallSyncErr:
		return true
	}
	return false
}

// Reg is one RegisterPlugin request.
type Reg struct {
	Name string `json:"name"`
	Idx  string `json:"idx"`
}

// C17Case is either a registration queue ("reg") or a socket-path case ("sock").
type C17Case struct {
	Kind string `json:"kind"`

	// reg: peers connect in this order (the runtime's accept loop is serial); the runner
	// appends a well-formed sentinel peer after the last one. Events are the api.Event
	// numbers fired through the adaptation once every peer's fate is settled.
	Peers  []Peer  `json:"peers,omitempty"`
	Events []int32 `json:"events,omitempty"`
	// TimeoutMs: registration and request timeout of this case (0 = the default 200 ms);
	// shortened in the cases with 16..64 simultaneously pending bad peers.
	TimeoutMs int `json:"timeout_ms,omitempty"`
	// The MOMENT the timeouts are set is part of the case. StartTimeoutMs (0 = same as
	// TimeoutMs): the timeouts in force while the Adaptation is created and started; the
	// case's own timeout (TimeoutMs) is set after Start() returned, before the first peer
	// connects. SwitchAfter = k > 0: once the runtime is done with peer k-1 the timeouts are
	// set to SwitchTimeoutMs, and only then do peers k.. (and the sentinel) connect. Each peer
	// is held to the timeout in force when its handshake starts (the setters take effect for
	// later registrations: start() reads the timeout itself).
	StartTimeoutMs  int `json:"start_timeout_ms,omitempty"`
	SwitchAfter     int `json:"switch_after,omitempty"`
	SwitchTimeoutMs int `json:"switch_timeout_ms,omitempty"`
	// TTRPC: the client / server options the runtime passes through
	// adaptation.WithTTRPCOptions (tokens: ttrpcopts_test.go), all pass-through.
	TTRPC []string `json:"ttrpc,omitempty"`

	// sock: <scratch>/e0/../m0/../nri.sock with len(Existing) pre-existing directories
	// (chmod'ed to the given modes) followed by Missing directories Start has to create,
	// under process umask Umask; Disabled = WithDisabledExternalConnections is among the
	// options (with Opts set it is derived from Opts).
	Umask    int   `json:"umask,omitempty"`
	Existing []int `json:"existing,omitempty"`
	Missing  int   `json:"missing,omitempty"`
	Disabled bool  `json:"disabled,omitempty"`
	// Opts: the options given to adaptation.New, in order (tokens: see sock_test.go). Empty =
	// the conventional order (socket path, plugin path, config path, disabled last).
	Opts []string `json:"opts,omitempty"`
}

func msOr(ms int, d time.Duration) time.Duration {
	if ms == 0 {
		return d
	}
	return time.Duration(ms) * time.Millisecond
}

// caseTimeout is the timeout set after Start(); startTimeout the one in force during it.
func (c C17Case) caseTimeout() time.Duration  { return msOr(c.TimeoutMs, defaultTimeout) }
func (c C17Case) startTimeout() time.Duration { return msOr(c.StartTimeoutMs, c.caseTimeout()) }
func (c C17Case) switches() bool {
	return c.SwitchAfter > 0 && c.SwitchAfter <= len(c.Peers) && c.SwitchTimeoutMs != 0
}

// peerTimeout is the timeout in force when peer i's handshake starts (i == len(Peers): the
// sentinel).
func (c C17Case) peerTimeout(i int) time.Duration {
	if c.switches() && i >= c.SwitchAfter {
		return msOr(c.SwitchTimeoutMs, defaultTimeout)
	}
	return c.caseTimeout()
}

// ---------------------------------------------------------------------------------------
// reference predicates (the oracle's own reading of the statement)
// ---------------------------------------------------------------------------------------

var twoDigits = regexp.MustCompile(`\A[0-9][0-9]\z`) // byte-wise ASCII: "a two-digit index"

// validity returns whether the statement allows (and, for the queue to make progress,
// expects) the peer to become active, and otherwise why not. timingOnly tells that the only
// reason is lateness, which is the one verdict that depends on the clock.
func validity(p Peer, T time.Duration) (valid bool, why string, timingOnly bool) {
	valid, why, timingOnly, _ = judgeSpec(p, T)
	return
}

// isOpen tells that the statement leaves the peer's fate open (see judgeSpec); such a peer
// counts as a bad one for the time bound of the peers behind it.
func isOpen(p Peer, T time.Duration) bool {
	_, _, _, open := judgeSpec(p, T)
	return open
}

// judgeSpec: open = the statement leaves it open whether the peer becomes active: a peer
// whose first registrations are invalid and which registers properly on the same connection
// clearly within the registration timeout ("becomes active only if it registers with a
// non-empty name and a two-digit index within the registration timeout" is an only-if; the
// unchanged runtime abandons the connection at the first invalid registration). Such a peer
// is reported as not valid here and judged leniently by the oracle.
// T is the registration timeout in force when the peer's handshake starts.
func judgeSpec(p Peer, T time.Duration) (valid bool, why string, timingOnly bool, open bool) {
	var reasons []string
	if p.Name == "" {
		reasons = append(reasons, "empty name")
	}
	if !twoDigits.MatchString(p.Idx) {
		reasons = append(reasons, fmt.Sprintf("index %q is not two ASCII digits", p.Idx))
	}
	if p.Mask&^validBits != 0 {
		reasons = append(reasons, fmt.Sprintf("mask 0x%x has bits outside the 13 valid events", uint32(p.Mask)))
	}
	switch p.Stall {
	case stallSilent:
		reasons = append(reasons, "never registers")
	case stallCfgHang:
		reasons = append(reasons, "never answers Configure")
	case stallSyncHang:
		reasons = append(reasons, "never answers Synchronize")
	case stallCfgClose:
		reasons = append(reasons, "closes its connection instead of answering Configure")
	case stallCfgErr:
		reasons = append(reasons, "answers Configure with an error ("+errClass(p)+")")
	case stallSyncErr:
		reasons = append(reasons, "answers Synchronize with an error ("+errClass(p)+")")
	case stallNoConfigure:
		reasons = append(reasons, "its Plugin service has no Configure method (ttRPC answers Unimplemented)")
	case stallNoSynchronize:
		reasons = append(reasons, "its Plugin service has no Synchronize method (ttRPC answers Unimplemented)")
	case stallNoService:
		reasons = append(reasons, "it serves no Plugin service at all (ttRPC answers Unimplemented)")
	case stallMulti:
		switch p.Final {
		case finalValidEarly, finalValidLate:
		case finalDisconnect:
			reasons = append(reasons, fmt.Sprintf("%d invalid registrations, then disconnects", len(p.Attempts)))
		default:
			reasons = append(reasons, fmt.Sprintf("%d invalid registrations, then silence", len(p.Attempts)))
		}
	}
	content := len(reasons)
	if p.Stall == stallLate {
		reasons = append(reasons, fmt.Sprintf("registers %v after it was accepted, registration timeout %v", 2*T, T))
	}
	if p.Stall == stallMulti && (p.Final == finalValidEarly || p.Final == finalValidLate) {
		at := time.Duration(len(p.Attempts)*p.GapMs) * time.Millisecond // offset of the valid registration
		switch {
		case len(p.Attempts) == 0:
			// nothing invalid ahead of it: an ordinary timely registration
		case at >= 2*T:
			reasons = append(reasons, fmt.Sprintf("%d invalid registrations %d ms apart, the valid one only %v after it was accepted (registration timeout %v)", len(p.Attempts), p.GapMs, at, T))
		case content == 0:
			// early enough (or too close to the timeout to call): open
			return false, fmt.Sprintf("%d invalid registrations, then a valid one %v after it was accepted: left open by the statement", len(p.Attempts), at), false, true
		}
	}
	if len(reasons) == 0 && len(p.Extra) > 0 && allowsExtra(p.Stall) {
		// registered properly and in time, answers Configure properly - and registered again on
		// the same connection: the statement (an only-if) leaves it open whether that plugin is
		// active; the unchanged runtime answers the second call and keeps the plugin
		return false, fmt.Sprintf("well-formed and timely, with %d further registrations on its connection: left open by the statement", len(p.Extra)), false, true
	}
	if len(reasons) == 0 {
		return true, "", false, false
	}
	return false, strings.Join(reasons, "; "), content == 0, false
}

func subscribed(mask int32, e int32) bool {
	if mask == 0 {
		return true // "all if 0"
	}
	return mask&(1<<(uint(e)-1)) != 0
}

// ---------------------------------------------------------------------------------------
// generator
// ---------------------------------------------------------------------------------------

var oddNames = []string{
	"a", "plugin", "00-plugin", "-", " ", "\t", "\n", "a b", "a/b", "../..", ".", "\x00", "x\x00y",
	"名前", "ü", "🙂", "%s%d", "\"quoted\"", "a,b", "10", "-1",
}

func genName(t *rapid.T, label string) string {
	switch rapid.IntRange(0, 9).Draw(t, label+"-form") {
	case 0, 1, 2:
		return rapid.StringMatching(`[a-z][a-z0-9._-]{0,12}`).Draw(t, label)
	case 3, 4, 5:
		return rapid.SampledFrom(oddNames).Draw(t, label)
	case 6:
		return strings.Repeat(rapid.SampledFrom([]string{"n", "é", "long-"}).Draw(t, label+"-unit"), rapid.IntRange(50, 300).Draw(t, label+"-len"))
	default:
		s := rapid.StringN(1, 12, -1).Draw(t, label)
		if s == "" || !utf8.ValidString(s) { // protobuf strings must be UTF-8
			return "p"
		}
		return s
	}
}

func genGoodIdx(t *rapid.T, label string) string {
	switch rapid.IntRange(0, 5).Draw(t, label+"-form") {
	case 0:
		return rapid.SampledFrom([]string{"00", "99", "09", "90", "01", "10"}).Draw(t, label)
	default:
		return fmt.Sprintf("%02d", rapid.IntRange(0, 99).Draw(t, label))
	}
}

// badIdxForms is the grammar around the valid form; every alternative is invalid.
var badIdxForms = map[string][]string{
	"empty":     {""},
	"one-digit": {"0", "1", "5", "9"},
	"3+digits":  {"000", "100", "123", "0010", "1234567890"},
	"letters":   {"ab", "a1", "1a", "xx", "0x", "1e", "O0", "l1"},
	"sign":      {"+1", "-1", "+12", "-12", "1-", "1+"},
	"punct":     {"1.", ".5", "1,", "/0", "0/", ":0", "0:", "9:", "/9", "0\x00", "\x001"},
	"space":     {" 1", "1 ", "  ", " 12", "12 ", "1\n", "\t1", "12\n"},
	// multi-byte digits: one rune of 2 bytes ("٣", "߃"), two runes ("１２" fullwidth, "١٢"
	// Arabic-Indic, "१२" Devanagari), ASCII digit + non-ASCII digit
	"non-ascii": {"１２", "١٢", "٣", "߃", "१२", "1２", "１2", "1٢", "²³", "¼"},
	// two digits followed by the separator a pre-installed plugin's file name uses between
	// index and name ("<idx>-<name>"), and more: the index field swallowing part of a name
	"dash-suffix": {"05-", "05-x", "05-foo", "05--", "05-06", "10-", "99-name", "00-0", "12-3-4", "05-ü", "05- ", "-05", "5-5", "0-10"},
}

var badIdxKinds = func() []string {
	var ks []string
	for k := range badIdxForms {
		ks = append(ks, k)
	}
	sort.Strings(ks)
	return ks
}()

func genBadIdx(t *rapid.T, label string) string {
	if rapid.IntRange(0, 9).Draw(t, label+"-free") == 0 {
		s := rapid.StringN(0, 4, 8).Draw(t, label)
		if utf8.ValidString(s) && !twoDigits.MatchString(s) {
			return s
		}
		return "1"
	}
	k := rapid.SampledFrom(badIdxKinds).Draw(t, label+"-kind")
	if k == "dash-suffix" && rapid.Bool().Draw(t, label+"-composed") {
		// two digits, the separator, and a drawn tail (possibly empty, possibly a whole name)
		return genGoodIdx(t, label+"-nn") + "-" + rapid.SampledFrom([]string{"", "x", "name", "-", "07", "plugin-name", "a b", "0"}).Draw(t, label+"-tail")
	}
	return rapid.SampledFrom(badIdxForms[k]).Draw(t, label)
}

func idxClass(s string) string {
	if twoDigits.MatchString(s) {
		return "two-digits"
	}
	for _, k := range badIdxKinds {
		for _, f := range badIdxForms[k] {
			if f == s {
				return k
			}
		}
	}
	if len(s) >= 3 && twoDigits.MatchString(s[:2]) && s[2] == '-' {
		return "dash-suffix"
	}
	return "other"
}

func genGoodMask(t *rapid.T, label string) int32 {
	switch rapid.IntRange(0, 5).Draw(t, label+"-form") {
	case 0, 1:
		return 0
	case 2:
		return validBits
	case 3:
		return 1 << uint(rapid.IntRange(0, 12).Draw(t, label+"-bit"))
	default:
		return int32(rapid.IntRange(1, int(validBits)).Draw(t, label))
	}
}

func genBadMask(t *rapid.T, label string) int32 {
	sub := int32(rapid.IntRange(0, int(validBits)).Draw(t, label+"-sub"))
	switch rapid.IntRange(0, 7).Draw(t, label+"-form") {
	case 0: // the first bit beyond the valid ones (Event_LAST)
		return sub | 1<<13
	case 1: // one stray high bit
		return sub | 1<<uint(rapid.IntRange(13, 30).Draw(t, label+"-bit"))
	case 2: // several stray high bits
		return sub | int32(rapid.IntRange(1, 1<<18-1).Draw(t, label+"-high"))<<13
	case 3: // sign bit only (+ valid subset): negative, numerically below every valid mask
		return sub | math.MinInt32
	case 4:
		return -1
	case 5: // negative, arbitrary
		return int32(rapid.IntRange(math.MinInt32, -1).Draw(t, label+"-neg"))
	case 6: // only high bits, no valid one
		return int32(rapid.IntRange(1, 1<<18-1).Draw(t, label+"-high")) << 13
	default:
		m := rapid.Int32().Draw(t, label+"-any")
		if m&^validBits == 0 {
			m |= 1 << 13
		}
		return m
	}
}

func maskClass(m int32) string {
	switch {
	case m == 0:
		return "zero"
	case m == validBits:
		return "all-13"
	case m&^validBits == 0:
		return "subset"
	case m < 0:
		return "negative"
	case m == validBits|1<<13 || m&^validBits == 1<<13:
		return "bit-13"
	default:
		return "high-bits"
	}
}

func genGoodPeer(t *rapid.T, label string) Peer {
	return Peer{
		Name: genName(t, label+"-name"),
		Idx:  genGoodIdx(t, label+"-idx"),
		Mask: genGoodMask(t, label+"-mask"),
	}
}

// genBadPeer starts from a good peer and breaks one (sometimes two) things. The three
// defects that cost wall time (silent, late, cfg-hang, sync-hang, multi: one or two timeouts each) have a combined
// weight of 8/28 so that the average case stays well below 0.4 s.
func genBadPeer(t *rapid.T, label string) Peer {
	p := genGoodPeer(t, label)
	defects := []string{
		"idx", "mask", stallSilent, "name", stallCfgHang, "idx", stallLate, "mask", stallCfgErr,
		"two", "idx", "mask", stallSilent, stallCfgHang, "idx", "mask", "name", stallCfgErr,
		stallMulti, stallMulti,
		stallSyncErr, stallNoConfigure, stallSyncErr, stallNoSynchronize, stallNoService, stallCfgErr,
		stallCfgClose, stallSyncHang,
	}
	apply := func(d string, l string) {
		switch d {
		case "name":
			p.Name = ""
		case "idx":
			p.Idx = genBadIdx(t, l+"-idx")
			if idxClass(p.Idx) == "dash-suffix" && rapid.Bool().Draw(t, l+"-noname") {
				p.Name = "" // the index field may carry what looks like a name of its own
			}
		case "mask":
			p.Mask = genBadMask(t, l+"-mask")
		case stallMulti:
			genMulti(t, &p, l)
		case stallCfgErr, stallSyncErr:
			p.Stall = d
			genErrForm(t, &p, l)
		default:
			p.Stall = d
		}
	}
	d := rapid.SampledFrom(defects).Draw(t, label+"-defect")
	if d == "two" {
		cheap := []string{"name", "idx", "mask", stallCfgErr}
		apply(rapid.SampledFrom(cheap).Draw(t, label+"-d1"), label+"-1")
		apply(rapid.SampledFrom(append(cheap, stallLate, stallCfgHang)).Draw(t, label+"-d2"), label+"-2")
	} else {
		apply(d, label)
	}
	return p
}

// genErrForm draws the form of a failing Configure / Synchronize answer.
func genErrForm(t *rapid.T, p *Peer, label string) {
	switch rapid.SampledFrom([]string{"status", "plain", "status", "wrap", "status", "bare"}).Draw(t, label+"-errform") {
	case "status":
		p.ErrForm = "status"
		// Unimplemented (12) first: it is the code a ttRPC server produces by itself
		p.ErrCode = rapid.SampledFrom([]int{12, 2, 12, 1, 3, 4, 5, 6, 7, 8, 9, 10, 11, 13, 14, 15, 16}).Draw(t, label+"-code")
	case "wrap":
		p.ErrForm = "wrap"
		p.ErrSentinel = rapid.SampledFrom(sentinelNames).Draw(t, label+"-sentinel")
	case "bare":
		p.ErrForm = "bare"
		p.ErrSentinel = rapid.SampledFrom(sentinelNames).Draw(t, label+"-sentinel")
	}
}

// genBadReg draws one invalid registration: empty name, or an index off the valid form.
func genBadReg(t *rapid.T, label string) Reg {
	r := Reg{Name: genName(t, label+"-name"), Idx: genGoodIdx(t, label+"-idx")}
	switch rapid.SampledFrom([]string{"idx", "name", "idx", "both"}).Draw(t, label+"-what") {
	case "name":
		r.Name = ""
	case "idx":
		r.Idx = genBadIdx(t, label+"-badidx")
	default:
		r.Name, r.Idx = "", genBadIdx(t, label+"-badidx")
	}
	return r
}

// genMulti turns p into a peer that calls RegisterPlugin several times on its connection:
// k invalid registrations spaced by a gap well below the registration timeout (200 ms),
// then silence, a disconnect, or p's own (well-formed) registration - either clearly within
// the timeout (k x gap <= 80 ms) or clearly after it (k x gap >= 2 x timeout).
func genMulti(t *rapid.T, p *Peer, label string) {
	p.Stall = stallMulti
	p.Final = rapid.SampledFrom([]string{finalValidLate, finalSilence, finalValidLate, finalDisconnect, finalValidEarly, finalValidLate}).Draw(t, label+"-final")
	k := 0
	switch p.Final {
	case finalValidLate:
		p.GapMs = rapid.SampledFrom([]int{60, 40, 100}).Draw(t, label+"-gap")
		// (for the default timeout; genTimeouts extends the attempts if the peer ends up under a longer one)
		k = (int(2*defaultTimeout/time.Millisecond)+p.GapMs-1)/p.GapMs + rapid.IntRange(0, 1).Draw(t, label+"-more")
	case finalValidEarly:
		p.GapMs = rapid.SampledFrom([]int{20, 40}).Draw(t, label+"-gap")
		k = rapid.IntRange(1, 80/p.GapMs).Draw(t, label+"-k")
	default:
		p.GapMs = rapid.SampledFrom([]int{60, 40, 100}).Draw(t, label+"-gap")
		k = rapid.IntRange(1, 5).Draw(t, label+"-k")
	}
	for i := 0; i < k; i++ {
		p.Attempts = append(p.Attempts, genBadReg(t, fmt.Sprintf("%s-try%d", label, i)))
	}
}

func genEvents(t *rapid.T) []int32 {
	all := make([]int32, 13)
	for i := range all {
		all[i] = int32(i + 1)
	}
	evs := rapid.Permutation(all).Draw(t, "events")
	extra := rapid.SliceOfN(rapid.Int32Range(1, 13), 0, 3).Draw(t, "more-events")
	return append(evs, extra...)
}

// kindWeights: 6 in 20 cases are socket-path cases (cheap: a few ms each; the umask x
// directory grid and the option orders are also enumerated in TestExh_C17), the rest are
// registration queues.
var kindWeights = []string{"reg", "sock", "reg", "reg", "sock", "reg", "reg", "sock", "reg", "reg", "reg", "sock", "reg", "reg", "sock", "reg", "reg", "sock", "reg", "reg"}

// genCrowd: 16..32 bad peers that are all in the middle of their handshake at the same time
// (silent, never answering Configure, or registering late: each is only dropped after a
// timeout), then one or two good peers. The timeouts are shortened to 100 ms so that the
// serial handling of the unchanged tree (b x timeout) stays below ~3.5 s.
func genCrowd(t *rapid.T) C17Case {
	c := C17Case{Kind: "reg", TimeoutMs: 100}
	c.StartTimeoutMs = rapid.SampledFrom([]int{0, 3000, 0}).Draw(t, "start-timeout")
	b := rapid.SampledFrom([]int{17, 16, 18, 20, 17, 24, 32, 16}).Draw(t, "pending")
	for i := 0; i < b; i++ {
		p := genGoodPeer(t, fmt.Sprintf("crowd%d", i))
		p.Stall = rapid.SampledFrom([]string{stallSilent, stallCfgHang, stallSilent, stallSilent, stallCfgHang, stallLate}).Draw(t, fmt.Sprintf("crowd%d-stall", i))
		c.Peers = append(c.Peers, p)
	}
	for i := 0; i < rapid.IntRange(1, 2).Draw(t, "good-behind"); i++ {
		c.Peers = append(c.Peers, genGoodPeer(t, fmt.Sprintf("good%d", i)))
	}
	c.Events = genEvents(t)
	return c
}

// crowdWeights: about 1 case in 50 has 16+ simultaneously pending bad peers (2-3 s each).
var crowdWeights = func() []bool {
	w := make([]bool, 50)
	w[20] = true
	return w
}()

func genC17(t *rapid.T) C17Case {
	if rapid.SampledFrom(crowdWeights).Draw(t, "crowd") {
		return genCrowd(t)
	}
	// (SampledFrom, not IntRange: rapid biases integer ranges towards their ends)
	if rapid.SampledFrom(kindWeights).Draw(t, "kind") == "sock" {
		return genSock(t)
	}
	c := C17Case{Kind: "reg"}
	nBad := rapid.SampledFrom([]int{0, 1, 1, 1, 2, 2, 3}).Draw(t, "bad-ahead")
	for i := 0; i < nBad; i++ {
		c.Peers = append(c.Peers, genBadPeer(t, fmt.Sprintf("bad%d", i)))
	}
	c.Peers = append(c.Peers, genGoodPeer(t, "good"))
	nTail := rapid.SampledFrom([]int{0, 0, 0, 1, 1, 2}).Draw(t, "tail")
	for i := 0; i < nTail; i++ {
		if rapid.Bool().Draw(t, fmt.Sprintf("tail%d-good", i)) {
			c.Peers = append(c.Peers, genGoodPeer(t, fmt.Sprintf("tail%d", i)))
		} else {
			c.Peers = append(c.Peers, genBadPeer(t, fmt.Sprintf("tail%d", i)))
		}
	}
	c.Events = genEvents(t)
	genExtras(t, &c)
	genTimeouts(t, &c)
	genTTRPC(t, &c)
	return c
}

// genTTRPC draws the ttRPC options the runtime hands to adaptation.New (none in half of
// the cases): 1-3 of the pass-through tokens in a drawn order, never two unchained server
// interceptors (ttRPC refuses that).
func genTTRPC(t *rapid.T, c *C17Case) {
	if rapid.Bool().Draw(t, "ttrpc-none") {
		return
	}
	n := rapid.SampledFrom([]int{1, 2, 1, 3}).Draw(t, "ttrpc-n")
	seen := map[string]bool{}
	for i := 0; i < n; i++ {
		tok := rapid.SampledFrom([]string{ttClientUnary, ttServerUnary, ttClientChain, ttClientUnary, ttClientOnClose, ttServerChain, ttServerShake}).Draw(t, fmt.Sprintf("ttrpc%d", i))
		if seen[tok] && (tok == ttServerUnary || tok == ttServerShake) {
			continue
		}
		if tok == ttServerUnary && seen[ttServerChain] {
			continue // an unchained interceptor after a chain is refused by ttRPC
		}
		seen[tok] = true
		c.TTRPC = append(c.TTRPC, tok)
	}
}

// genExtras lets some peers that get as far as Configure register again on their connection:
// 1-2 further RegisterPlugin calls, each with the same identity, a different well-formed
// one, or an invalid one, at a drawn phase of the handshake.
func genExtras(t *rapid.T, c *C17Case) {
	for i := range c.Peers {
		p := &c.Peers[i]
		if !allowsExtra(p.Stall) || p.Name == "" || !twoDigits.MatchString(p.Idx) {
			continue
		}
		if !rapid.SampledFrom([]bool{false, false, true, false, false}).Draw(t, fmt.Sprintf("rereg%d", i)) {
			continue
		}
		n := rapid.SampledFrom([]int{1, 1, 2}).Draw(t, fmt.Sprintf("rereg%d-n", i))
		for j := 0; j < n; j++ {
			l := fmt.Sprintf("rereg%d-%d", i, j)
			e := ExtraReg{Name: p.Name, Idx: p.Idx}
			e.Phase = rapid.SampledFrom([]string{phaseInConfigure, phaseEarly, phaseInConfigure, phaseAfterConfigure, phaseInSynchronize}).Draw(t, l+"-phase")
			switch rapid.SampledFrom([]string{"different", "same", "different", "invalid", "different-idx"}).Draw(t, l+"-what") {
			case "different":
				e.Name, e.Idx = genName(t, l+"-name")+"2", genGoodIdx(t, l+"-idx")
			case "different-idx":
				e.Idx = fmt.Sprintf("%02d", (int(p.Idx[0]-'0')*10+int(p.Idx[1]-'0')+1)%100)
			case "invalid":
				r := genBadReg(t, l+"-bad")
				e.Name, e.Idx = r.Name, r.Idx
			}
			p.Extra = append(p.Extra, e)
		}
	}
}

// genTimeouts draws WHEN the timeouts are set: the value in force while the Adaptation is
// created and started (often much larger, sometimes smaller than the case's own), the case's
// own value set after Start(), and sometimes a further change between two peers.
func genTimeouts(t *rapid.T, c *C17Case) {
	c.TimeoutMs = rapid.SampledFrom([]int{0, 0, 150, 0, 300, 0}).Draw(t, "timeout")
	c.StartTimeoutMs = rapid.SampledFrom([]int{0, 5000, 0, 3000, 50, 2000, 0, 1000, 5000}).Draw(t, "start-timeout")
	if c.StartTimeoutMs == int(c.caseTimeout()/time.Millisecond) {
		c.StartTimeoutMs = 0
	}
	if rapid.SampledFrom([]bool{false, false, true, false, false, false}).Draw(t, "switch") {
		c.SwitchAfter = rapid.IntRange(1, len(c.Peers)).Draw(t, "switch-after")
		c.SwitchTimeoutMs = rapid.SampledFrom([]int{150, 300, 200}).Draw(t, "switch-timeout")
		if c.SwitchTimeoutMs == int(c.caseTimeout()/time.Millisecond) {
			c.SwitchTimeoutMs = 250
		}
	}
	// a multi-attempt peer whose valid registration is meant to be late needs k x gap >= 2 x
	// the timeout in force for it
	for i := range c.Peers {
		p := &c.Peers[i]
		if p.Stall != stallMulti || p.Final != finalValidLate || len(p.Attempts) == 0 {
			continue
		}
		need := int(2 * c.peerTimeout(i) / time.Millisecond)
		for n := len(p.Attempts); len(p.Attempts)*p.GapMs < need; {
			p.Attempts = append(p.Attempts, p.Attempts[len(p.Attempts)%n])
		}
	}
}

// ---------------------------------------------------------------------------------------
// run
// ---------------------------------------------------------------------------------------

func TestProp_C17(t *testing.T) {
	if sweepFailed {
		t.Skip("the directed sweep (TestExh_C17) already recorded a violation")
	}
	ev.Run(t, "C17", genC17, runC17)
}

func runC17(c C17Case) ev.Outcome {
	switch c.Kind {
	case "sock":
		return runSock(c)
	case "reg":
	default:
		return ev.Outcome{Excluded: "unknown-kind"}
	}
	for _, p := range c.Peers {
		if !utf8.ValidString(p.Name) || !utf8.ValidString(p.Idx) {
			return ev.Outcome{Excluded: "non-utf8-string"} // cannot be sent in a protobuf string field
		}
		for _, a := range p.Attempts {
			if !utf8.ValidString(a.Name) || !utf8.ValidString(a.Idx) {
				return ev.Outcome{Excluded: "non-utf8-string"}
			}
			if a.Name != "" && twoDigits.MatchString(a.Idx) {
				return ev.Outcome{Excluded: "multi-attempt-not-invalid"} // the attempts ahead of the final one are invalid by construction
			}
		}
		if len(p.Extra) > 0 && (p.Name == "" || !twoDigits.MatchString(p.Idx) || len(p.Extra) > 4) {
			return ev.Outcome{Excluded: "extra-needs-valid-first-registration"}
		}
		for _, e := range p.Extra {
			if !utf8.ValidString(e.Name) || !utf8.ValidString(e.Idx) {
				return ev.Outcome{Excluded: "non-utf8-string"}
			}
		}
		if p.Stall == stallMulti && (p.GapMs < 1 || len(p.Attempts) > 40) {
			return ev.Outcome{Excluded: "multi-out-of-domain"}
		}
	}
	for _, e := range c.Events {
		if e < 1 || e > 13 {
			return ev.Outcome{Excluded: "undefined-event"}
		}
	}

	if c.TimeoutMs != 0 && (c.TimeoutMs < 50 || c.TimeoutMs > 500) || len(c.Peers) > 80 ||
		c.StartTimeoutMs != 0 && (c.StartTimeoutMs < 20 || c.StartTimeoutMs > 10000) ||
		c.SwitchTimeoutMs != 0 && (c.SwitchTimeoutMs < 50 || c.SwitchTimeoutMs > 500) {
		return ev.Outcome{Excluded: "reg-out-of-domain"}
	}
	for i, p := range c.Peers {
		if p.Stall == stallMulti && time.Duration(p.GapMs)*time.Millisecond > c.peerTimeout(i)*3/4 {
			return ev.Outcome{Excluded: "multi-gap-out-of-domain"} // gaps stay clearly below the registration timeout
		}
	}
	if _, ok := ttrpcOption(c.TTRPC, new(atomic.Int64)); !ok || len(c.TTRPC) > 6 {
		return ev.Outcome{Excluded: "ttrpc-options-out-of-domain"} // unknown token, or a list ttRPC refuses
	}
	defer setTimeouts(defaultTimeout) // runRegOnce sets the timeouts at the moments the case says

	o := regClasses(c)
	v := runRegOnce(c)
	o.Lenient = v.lenient
	if v.fail == "" {
		return o
	}
	if !v.timing {
		o.Fail, o.History = v.fail, v.history
		return o
	}
	// The verdict depends on the clock (a well-formed timely peer was not active in time, or
	// a peer meant to be late was treated as timely): re-execute up to three times; it is a
	// violation only if it fails every time.
	last := v
	for i := 0; i < 3; i++ {
		last = runRegOnce(c)
		if last.fail == "" {
			o.Lenient = last.lenient
			o.Overloaded = true
			ev.Get("C17").AddExtra("overloaded_"+v.clause, 1)
			return o
		}
		if !last.timing {
			break
		}
	}
	o.Fail = last.fail
	if last.timing {
		o.Fail += " (time clause: failed again in 3 re-executions)"
	}
	o.History = last.history
	return o
}

func bucket(n int) string {
	switch {
	case n <= 2:
		return fmt.Sprint(n)
	case n <= 5:
		return "3-5"
	default:
		return "6+"
	}
}

func crowdBucket(n int) string {
	switch {
	case n == 16:
		return "16"
	case n == 17:
		return "17"
	case n <= 20:
		return "18-20"
	case n <= 32:
		return "21-32"
	default:
		return "33+"
	}
}

func regClasses(c C17Case) ev.Outcome {
	var o ev.Outcome
	firstGood, nValid, badBeforeValid := -1, 0, false
	nInvalidSoFar, openSoFar := 0, 0
	classes := map[string]bool{}
	for i, p := range c.Peers {
		ok, _, _ := validity(p, c.peerTimeout(i))
		if p.Stall == stallMulti {
			classes["stall:multi"] = true
			classes["multi:"+p.Final] = true
			classes[fmt.Sprintf("multi:attempts-%s", bucket(len(p.Attempts)))] = true
		}
		if len(p.Extra) > 0 && allowsExtra(p.Stall) {
			classes["rereg"] = true
			outcome := p.Stall
			if outcome == stallNone {
				outcome = "ok"
				if p.Mask&^validBits != 0 {
					outcome = "bad-mask"
				}
			}
			classes["rereg:then-"+outcome] = true
			for _, e := range p.Extra {
				classes["rereg:phase-"+e.Phase] = true
				switch {
				case e.Name == "" || !twoDigits.MatchString(e.Idx):
					classes["rereg:invalid"] = true
				case e.Name == p.Name && e.Idx == p.Idx:
					classes["rereg:same-identity"] = true
				default:
					classes["rereg:different-identity"] = true
					if outcome != "ok" && outcome != stallSyncErr {
						classes["rereg:different-identity-then-configure-fails"] = true
					}
				}
			}
		}
		if isOpen(p, c.peerTimeout(i)) {
			openSoFar++ // neither certainly invalid nor valid: does not make a case non-trivial
			continue
		}
		if ok {
			nValid++
			if firstGood < 0 {
				firstGood = i
			}
			if nInvalidSoFar > 0 {
				badBeforeValid = true
			}
			classes["good-mask:"+maskClass(p.Mask)] = true
			continue
		}
		nInvalidSoFar++
		if p.Name == "" {
			classes["bad:empty-name"] = true
		}
		if k := idxClass(p.Idx); k != "two-digits" {
			classes["bad:idx"] = true
			classes["bad-idx:"+k] = true
			if k == "dash-suffix" && p.Name == "" {
				classes["bad-idx:dash-suffix+empty-name"] = true
			}
		}
		if k := maskClass(p.Mask); k == "negative" || k == "bit-13" || k == "high-bits" {
			classes["bad:mask"] = true
			classes["bad-mask:"+k] = true
		}
		if p.Stall != stallNone {
			classes["stall:"+p.Stall] = true
		}
		if p.Stall == stallCfgErr || p.Stall == stallSyncErr {
			form := p.ErrForm
			if form == "" {
				form = "plain"
			}
			classes["errform:"+form] = true
			if form == "status" {
				classes["errform:"+errClass(p)] = true
			}
		}
		if p.Stall == stallNoConfigure || p.Stall == stallNoSynchronize || p.Stall == stallNoService || (p.ErrForm == "status" && p.ErrCode == 12) {
			classes["answer:unimplemented"] = true
		}
	}
	_ = openSoFar
	if firstGood < 0 {
		firstGood = len(c.Peers)
	}
	if firstGood >= 16 {
		// the bad peers ahead are all pending at the same time (connected before the first is
		// timed out); the primary class of these cases
		o.Classes = append(o.Classes, "reg:crowd", "crowd:pending-"+crowdBucket(firstGood))
	}
	if firstGood > 3 {
		o.Classes = append(o.Classes, "reg:bad-ahead-4+")
	} else {
		o.Classes = append(o.Classes, fmt.Sprintf("reg:bad-ahead-%d", firstGood))
	}
	o.Classes = append(o.Classes, "reg", fmt.Sprintf("reg:valid-peers-%d", nValid))
	if nInvalidSoFar > firstGood {
		o.Classes = append(o.Classes, "reg:bad-after-good")
	}
	switch t0, t1 := c.startTimeout(), c.caseTimeout(); {
	case t0 > t1:
		classes["tmo:lowered-after-start"] = true
		if t0 >= 3*time.Second {
			classes["tmo:lowered-after-start-from>=3s"] = true
		}
	case t0 < t1:
		classes["tmo:raised-after-start"] = true
	default:
		classes["tmo:set-before-start"] = true
	}
	if c.switches() {
		classes["tmo:switched-between-peers"] = true
	}
	for _, t := range c.TTRPC {
		classes["ttrpc-options"] = true
		classes["ttrpc:"+t] = true
	}
	var ks []string
	for k := range classes {
		ks = append(ks, k)
	}
	sort.Strings(ks)
	o.Classes = append(o.Classes, ks...)
	// Non-trivial: at least one invalid peer precedes a valid one (the sentinel the runner
	// appends does not count).
	o.NonTrivial = badBeforeValid
	if badBeforeValid {
		o.Classes = append(o.Classes, "reg:invalid-before-valid")
	}
	return o
}

type regVerdict struct {
	fail    string
	timing  bool   // the failed clause depends on the clock
	clause  string // short name of the (first) failed time clause, for the evidence counters
	history any
	lenient []string
}

type firedEvent struct {
	Tag   string `json:"tag"`
	Event int32  `json:"event"`
	Err   string `json:"error,omitempty"`
}

type regHistory struct {
	Peers      []PeerRecord `json:"peers"`
	Fired      []firedEvent `json:"fired,omitempty"`
	Notes      []string     `json:"notes,omitempty"`
	SentinelMs float64      `json:"sentinel_active_at_ms,omitempty"`
}

func runRegOnce(c C17Case) (v regVerdict) {
	// The Adaptation is created and started under the start timeout; the case's own timeout
	// is set after Start() returned and before anybody connects.
	var icalls atomic.Int64
	var ropts []adaptation.Option
	if o, _ := ttrpcOption(c.TTRPC, &icalls); o != nil {
		ropts = append(ropts, o)
	}
	setTimeouts(c.startTimeout())
	rt, err := fx.NewRuntime(ropts...)
	setTimeouts(c.caseTimeout())
	if err != nil {
		return regVerdict{fail: "harness: cannot start an adaptation: " + err.Error()}
	}
	specs := append(append([]Peer{}, c.Peers...), Peer{Name: "verif-sentinel", Idx: "99", Mask: 0})
	tmo := make([]time.Duration, len(specs)) // timeout in force when each peer's handshake starts
	maxT := time.Duration(0)
	for i := range specs {
		tmo[i] = c.peerTimeout(i)
		if tmo[i] > maxT {
			maxT = tmo[i]
		}
	}
	var peers []*rawPeer
	var notes []string
	stuck := false // a request through the adaptation never returned: Stop() would block as well
	defer func() {
		for _, p := range peers {
			p.teardown()
		}
		if stuck {
			go rt.Stop() // leaked on purpose; the case is reported
			return
		}
		within(10*time.Second, func() error { rt.Stop(); return nil })
	}()

	// Connect in queue order from one goroutine: the kernel queues the connections in this
	// order and the runtime accepts them one at a time.
	t0 := time.Now()
	since := make([]time.Time, len(specs)) // when each peer connected: its time clause counts from here
	connect := func(from, to int) string {
		now := time.Now()
		for i := from; i < to; i++ {
			since[i] = now
			p, err := newRawPeer(rt.Socket, i, specs[i])
			if err != nil {
				return fmt.Sprintf("harness: peer %d cannot connect: %v", i, err)
			}
			p.timeout = tmo[i]
			peers = append(peers, p)
		}
		for i := from; i < to; i++ {
			peers[i].serve(t0)
			var pred *rawPeer
			if i > 0 {
				pred = peers[i-1]
			}
			go peers[i].script(pred)
		}
		return ""
	}
	first := len(specs)
	if c.switches() {
		first = c.SwitchAfter
	}
	if msg := connect(0, first); msg != "" {
		return regVerdict{fail: msg}
	}
	if first < len(specs) {
		// Change the timeouts between two peers: wait until the runtime is visibly done with
		// peer first-1 (every handshake so far has started, under the old value), switch, and
		// only then let the remaining peers connect.
		wait := slack
		for i := 0; i < first; i++ {
			wait += 2 * tmo[i]
		}
		select {
		case <-peers[first-1].settledC:
		case <-time.After(wait):
			notes = append(notes, fmt.Sprintf("peer %d was not settled after %v; switching the timeouts anyway", first-1, wait))
		}
		setTimeouts(msOr(c.SwitchTimeoutMs, defaultTimeout))
		if msg := connect(first, len(specs)); msg != "" {
			return regVerdict{fail: msg}
		}
	}
	sentinel := peers[len(peers)-1]

	hist := &regHistory{Notes: notes}
	clause := ""
	finish := func(fail string, timing bool) regVerdict {
		hist.Peers = hist.Peers[:0]
		for i, p := range peers {
			r := p.snapshot()
			r.Valid, r.Why, _ = validity(specs[i], tmo[i])
			r.TimeoutMs = int(tmo[i] / time.Millisecond)
			r.Sentinel = p == sentinel
			hist.Peers = append(hist.Peers, r)
		}
		return regVerdict{fail: fail, timing: timing, clause: clause, history: hist}
	}

	// "does not prevent later plugins from registering": the (well-formed, timely) sentinel
	// behind all b invalid peers is active within b x (registration + request timeout) + 2 s.
	// "Active" = it received a probe event fired through the adaptation.
	nInvalid := 0
	bound := slack
	for i, s := range c.Peers {
		if ok, _, _ := validity(s, tmo[i]); !ok {
			nInvalid++
			bound += 2 * tmo[i] // registration + request timeout in force for that peer
		}
	}
	deadline := since[len(specs)-1].Add(bound) // counted from the moment the sentinel connected
	for {
		// A request through the adaptation that does not come back would hang the harness; it
		// also keeps the runtime from activating anybody (it holds the adaptation's lock), so it
		// is the time clause that fails.
		perr, returned := within(time.Until(deadline)+slack, rt.Probe)
		if !returned {
			stuck = true
			clause = "probe-event-stuck"
			return finish(fmt.Sprintf("a probe event sent through the adaptation did not return, so the well-formed peer behind %d invalid ones was not active within %v", nInvalid, bound), true)
		}
		if perr != nil {
			hist.Notes = append(hist.Notes, "probe: "+perr.Error())
		}
		sentinel.mu.Lock()
		n := sentinel.probes
		sentinel.mu.Unlock()
		if n > 0 {
			break
		}
		// The sentinel sent RegisterPlugin right after connecting; once that call has failed
		// there is nothing to wait for (the re-execution protocol applies as for the deadline).
		select {
		case <-sentinel.scriptDone:
			if r := sentinel.snapshot(); r.RegErr != "" {
				clause = "sentinel-registration-failed"
				return finish(fmt.Sprintf("the well-formed peer behind %d invalid ones could not register: %s", nInvalid, regNote(r)), true)
			}
		default:
		}
		if time.Now().After(deadline) {
			clause = "sentinel-not-active-in-time"
			return finish(fmt.Sprintf("the well-formed peer behind %d invalid ones was not active within %v", nInvalid, bound), true)
		}
		time.Sleep(time.Millisecond)
	}
	hist.SentinelMs = float64(time.Since(t0).Microseconds()) / 1000

	// Late peers may not have made their registration attempt yet: wait for every script
	// (a late peer registers 2 x timeout after the peer ahead was settled, i.e. within the
	// sentinel's bound + 2 x timeout). A script that has still not finished then is not a
	// violation of anything the statement says (the sentinel is active, so nobody is being
	// prevented from registering; on the unchanged tree it does not happen): the peer is
	// judged on what it received so far, and the case is counted.
	scriptDeadline := time.After(time.Until(deadline) + 2*maxT + slack)
	unfinished := false
	for i, p := range peers {
		if unfinished {
			select {
			case <-p.scriptDone:
			default:
			}
			continue
		}
		select {
		case <-p.scriptDone:
		case <-scriptDeadline:
			unfinished = true
			hist.Notes = append(hist.Notes, fmt.Sprintf("peer %d's script had not finished when the events were fired", i))
		}
	}

	// Fire the lifecycle events. Delivery is synchronous: when the adaptation returns, every
	// subscribed active plugin has handled the event.
	for i, e := range c.Events {
		tag := fmt.Sprintf("ev-%d", i)
		err, returned := within(10*time.Second, func() error { return fire(rt, api.Event(e), tag) })
		if !returned {
			stuck = true
			clause = "event-stuck"
			return finish(fmt.Sprintf("event %d (%s) sent through the adaptation did not return within 10 s: the runtime is stuck and nobody can register any more", e, tag), true)
		}
		f := firedEvent{Tag: tag, Event: e}
		if err != nil {
			f.Err = err.Error()
		}
		hist.Fired = append(hist.Fired, f)
	}

	// ----- oracle -----
	var contentFails, timingFails, lenient []string
	if unfinished {
		lenient = append(lenient, "reg:script-unfinished")
	}
	note := func(c string) {
		if clause == "" {
			clause = c
		}
	}
	for i, p := range peers {
		r := p.snapshot()
		spec := specs[i]
		ok, why, timingOnly := validity(spec, tmo[i])
		var got []Call
		for _, cl := range r.Calls {
			if cl.Kind == "Event" {
				got = append(got, cl)
			}
		}
		if isOpen(spec, tmo[i]) {
			// The statement leaves it open whether this peer becomes active; if it did, it is
			// judged like any active plugin (Synchronize once, exactly the events of its mask).
			kind := "multi:early-valid"
			if spec.Stall != stallMulti {
				kind = "rereg:otherwise-valid"
			}
			if r.NSync == 0 && len(got) == 0 && r.Probes == 0 {
				lenient = append(lenient, kind+"-not-activated")
				continue
			}
			lenient = append(lenient, kind+"-activated")
			ok = true
		}
		if !ok {
			// "any other plugin never receives synchronization or events". A plugin that fails
			// (or does not implement) Synchronize necessarily was sent the Synchronize request;
			// it must not become active: no events, no later requests.
			var bad []string
			syncFails := spec.Stall == stallSyncErr || spec.Stall == stallNoSynchronize || spec.Stall == stallSyncHang
			if r.NSync > 0 && !syncFails {
				bad = append(bad, fmt.Sprintf("%d Synchronize", r.NSync))
			}
			// the same on the wire, which also sees requests no handler is registered for
			var later []string
			for _, m := range p.wireMethods() {
				if m == "Configure" || (m == "Synchronize" && (syncFails || r.NSync > 0)) {
					continue
				}
				later = append(later, m)
			}
			if len(later) > 0 && len(got) == 0 && r.Probes == 0 {
				bad = append(bad, fmt.Sprintf("%d further requests on the wire (first: %s)", len(later), later[0]))
			}
			if len(got) > 0 {
				bad = append(bad, fmt.Sprintf("%d events (first: event %d %s)", len(got), got[0].Event, got[0].Tag))
			}
			if r.Probes > 0 {
				bad = append(bad, fmt.Sprintf("%d probe events", r.Probes))
			}
			if len(bad) > 0 {
				msg := fmt.Sprintf("peer %d (name %q, index %q, mask 0x%x, stall %q) is invalid (%s) but received %s",
					i, spec.Name, spec.Idx, uint32(spec.Mask), spec.Stall, why, strings.Join(bad, ", "))
				if timingOnly {
					note("late-peer-activated")
					timingFails = append(timingFails, msg)
				} else {
					contentFails = append(contentFails, msg)
				}
			}
			continue
		}
		// valid: "becomes active": Synchronize (once), then exactly the events of its mask
		id := fmt.Sprintf("peer %d (name %q, index %q, mask 0x%x)", i, spec.Name, spec.Idx, uint32(spec.Mask))
		if r.NSync == 0 {
			note("valid-peer-not-synchronized")
			timingFails = append(timingFails, id+" is well-formed and timely but never received Synchronize"+regNote(r))
			continue
		}
		if r.NSync > 1 {
			contentFails = append(contentFails, fmt.Sprintf("%s received Synchronize %d times", id, r.NSync))
		}
		bad, b := 0, slack
		for j, s := range specs[:i] {
			if ok, _, _ := validity(s, tmo[j]); !ok {
				bad++
				b += 2 * tmo[j]
			}
		}
		if p.syncAt.Sub(since[i]) > b {
			note("valid-peer-synchronized-late")
			timingFails = append(timingFails, fmt.Sprintf("%s behind %d invalid peers was synchronized %v after it connected, bound %v", id, bad, p.syncAt.Sub(since[i]), b))
		}
		if !subscribed(spec.Mask, int32(api.Event_REMOVE_POD_SANDBOX)) && r.Probes > 0 {
			contentFails = append(contentFails, fmt.Sprintf("%s received %d RemovePodSandbox probe events outside its mask", id, r.Probes))
		}
		var want []firedEvent
		for _, f := range hist.Fired {
			if subscribed(spec.Mask, f.Event) {
				want = append(want, f)
			}
		}
		// got must equal want; a strict prefix-preserving subsequence (missing deliveries) can
		// be caused by a request timeout on an overloaded machine and is a time-clause failure,
		// anything else (extra, duplicated, reordered, wrong event number) is not.
		wi := 0
		extra := ""
		for _, g := range got {
			for wi < len(want) && want[wi].Tag != g.Tag {
				wi++
			}
			if wi == len(want) {
				extra = fmt.Sprintf("unexpected delivery of %s (event %d)", g.Tag, g.Event)
				break
			}
			if want[wi].Event != g.Event {
				extra = fmt.Sprintf("%s delivered as event %d, fired as %d", g.Tag, g.Event, want[wi].Event)
				break
			}
			wi++
		}
		switch {
		case extra != "":
			contentFails = append(contentFails, fmt.Sprintf("%s: %s; it should receive exactly %s", id, extra, tags(want)))
		case len(got) < len(want):
			note("valid-peer-missed-events")
			timingFails = append(timingFails, fmt.Sprintf("%s is active but received only %d of the %d fired events of its mask (%s of %s)", id, len(got), len(want), callTags(got), tags(want)))
		}
	}
	if len(contentFails) > 0 {
		return finish(strings.Join(contentFails, " | "), false)
	}
	if len(timingFails) > 0 {
		return finish(strings.Join(timingFails, " | "), true)
	}
	return regVerdict{lenient: lenient}
}

// within runs f on a goroutine of its own and waits at most d for it.
func within(d time.Duration, f func() error) (err error, returned bool) {
	done := make(chan error, 1)
	go func() { done <- f() }()
	select {
	case err = <-done:
		return err, true
	case <-time.After(d):
		return nil, false
	}
}

func regNote(r PeerRecord) string {
	switch {
	case !r.Registered:
		return " (its RegisterPlugin call did not return)"
	case r.RegErr != "":
		return fmt.Sprintf(" (RegisterPlugin sent at %.1f ms failed after %.1f ms: %s)", r.RegAtMs, r.RegDurMs, r.RegErr)
	default:
		return fmt.Sprintf(" (RegisterPlugin sent at %.1f ms succeeded after %.1f ms)", r.RegAtMs, r.RegDurMs)
	}
}

func tags(fs []firedEvent) string {
	var s []string
	for _, f := range fs {
		s = append(s, fmt.Sprintf("%s:%d", f.Tag, f.Event))
	}
	return "[" + strings.Join(s, " ") + "]"
}

func callTags(cs []Call) string {
	var s []string
	for _, c := range cs {
		s = append(s, fmt.Sprintf("%s:%d", c.Tag, c.Event))
	}
	return "[" + strings.Join(s, " ") + "]"
}

// fire sends one lifecycle event / request of the given type through the adaptation.
func fire(rt *fx.Runtime, e api.Event, tag string) error {
	ctx := context.Background()
	pod := &api.PodSandbox{Id: tag, Name: tag}
	ctr := &api.Container{Id: "c-" + tag, PodSandboxId: tag, Name: "c"}
	sc := &api.StateChangeEvent{Pod: pod, Container: ctr}
	a := rt.A
	switch e {
	case api.Event_RUN_POD_SANDBOX:
		return a.RunPodSandbox(ctx, sc)
	case api.Event_STOP_POD_SANDBOX:
		return a.StopPodSandbox(ctx, sc)
	case api.Event_REMOVE_POD_SANDBOX:
		return a.RemovePodSandbox(ctx, sc)
	case api.Event_CREATE_CONTAINER:
		_, err := a.CreateContainer(ctx, &api.CreateContainerRequest{Pod: pod, Container: ctr})
		return err
	case api.Event_POST_CREATE_CONTAINER:
		return a.PostCreateContainer(ctx, sc)
	case api.Event_START_CONTAINER:
		return a.StartContainer(ctx, sc)
	case api.Event_POST_START_CONTAINER:
		return a.PostStartContainer(ctx, sc)
	case api.Event_UPDATE_CONTAINER:
		_, err := a.UpdateContainer(ctx, &api.UpdateContainerRequest{Pod: pod, Container: ctr, LinuxResources: &api.LinuxResources{}})
		return err
	case api.Event_POST_UPDATE_CONTAINER:
		return a.PostUpdateContainer(ctx, sc)
	case api.Event_STOP_CONTAINER:
		_, err := a.StopContainer(ctx, &api.StopContainerRequest{Pod: pod, Container: ctr})
		return err
	case api.Event_REMOVE_CONTAINER:
		return a.RemoveContainer(ctx, sc)
	case api.Event_UPDATE_POD_SANDBOX:
		_, err := a.UpdatePodSandbox(ctx, &api.UpdatePodSandboxRequest{Pod: pod, OverheadLinuxResources: &api.LinuxResources{}, LinuxResources: &api.LinuxResources{}})
		return err
	case api.Event_POST_UPDATE_POD_SANDBOX:
		return a.PostUpdatePodSandbox(ctx, sc)
	}
	return fmt.Errorf("verif: event %d is not fired by this harness", e)
}
