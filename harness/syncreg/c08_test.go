package syncreg

import (
	"context"
	"fmt"
	"os"
	"path/filepath"
	"runtime"
	"sort"
	"strings"
	"sync"
	"sync/atomic"
	"testing"
	"time"

	"github.com/containerd/nri/pkg/adaptation"
	"github.com/containerd/nri/pkg/api"
	"github.com/containerd/nri/pkg/verifhook"
	"google.golang.org/protobuf/proto"
	"pgregory.net/rapid"

	"nriverif/ev"
	"nriverif/fx"
)

// ---------------------------------------------------------------------------------------
// The case: a plan. Schedules of the real goroutines are not reproducible; the plan is.
// ---------------------------------------------------------------------------------------

// A pause value: -1 = none, 0 = runtime.Gosched(), n > 0 = sleep n microseconds.

// CreatorPlan is one runtime goroutine creating containers the way the property prescribes:
// b := BlockPluginSync(); {store.Add(id); CreateContainer(id)} in the drawn order; b.Unblock().
type CreatorPlan struct {
	AddFirst bool `json:"add_first"` // bookkeeping before the creation request, or after it
	N        int  `json:"n"`         // creations made unconditionally; afterwards the creator goes on until every planned registration has synchronized
	Tail     int  `json:"tail"`      // creations made after that
	Hold     int  `json:"hold"`      // pause inside the block, between the two steps
	Gap      int  `json:"gap"`       // pause between two blocks
	// Unblock is documented "safe to call multiple times but only from a single goroutine".
	// Unblocks = how often the creator calls it on each of its blocks (1..3; 0 reads as 1). The
	// first call always follows the two steps at once (both stay inside the block). The second
	// follows after the pause Again (early release + a later one); the third is the "deferred"
	// one at the end of the step, after the pause Gap. With Late the last of these calls is
	// made even later: inside the creator's NEXT block, right after that block was granted
	// (an early release followed by a nested request before the deferred release runs).
	Unblocks int  `json:"unblocks,omitempty"`
	Again    int  `json:"again,omitempty"`
	Late     bool `json:"late,omitempty"`
	// LongAt > 0: the creator's LongAt-th creation (1-based, <= N) keeps its block for LongMs
	// milliseconds (between the two steps) instead of Hold: a request that takes long.
	LongAt int `json:"long_at,omitempty"`
	LongMs int `json:"long_ms,omitempty"`
	// FirstID, if not empty, is the id of the creator's first container (default "c<i>-0")
	FirstID string `json:"first_id,omitempty"`
	// the creator's first BigN containers carry BigKB KiB of annotations
	BigKB int `json:"big_kb,omitempty"`
	BigN  int `json:"big_n,omitempty"`
}

// PluginPlan is one plugin.
type PluginPlan struct {
	Idx      int `json:"idx"`       // plugin index 00..99 (invocation order)
	After    int `json:"after"`     // Start is issued once this many creations (all creators together) have completed; ignored for residents
	SyncUs   int `json:"sync_us"`   // pause inside the plugin's Synchronize handler
	CreateUs int `json:"create_us"` // pause inside the plugin's CreateContainer handler
	// InLong: Start is issued as soon as the first long block (CreatorPlan.LongAt) has been
	// granted, so that the registration stays pending behind it (After still applies as well).
	InLong bool `json:"in_long,omitempty"`
	// Name is the plugin's NRI name (default: the harness' own unique label res<i> / reg<i>).
	// Plugins of a plan may share index and name: several instances of one plugin.
	Name string `json:"name,omitempty"`
	// Leave: the plugin goes away (its stub is stopped) LeaveUs microseconds after a drawn
	// moment: 1 = as soon as its Start returned (with InLong: while its registration is still
	// pending behind the long block), 2 = when its Synchronize handler is entered, 3 = when it
	// receives its first CreateContainer request (it is active then). 0 = it stays.
	Leave   int `json:"leave,omitempty"`
	LeaveUs int `json:"leave_us,omitempty"`
}

const (
	leavePending = 1
	leaveInSync  = 2
	leaveActive  = 3
)

// PreStartPlan describes a sync block taken before the adaptation is started.
type PreStartPlan struct {
	HoldMs   int  `json:"hold_ms"`
	Create   bool `json:"create,omitempty"`
	AddFirst bool `json:"add_first,omitempty"`
}

// C08Case is a plan of concurrent creations and registrations.
type C08Case struct {
	Pre int `json:"pre"` // containers in the runtime's store before anything starts
	// PreKB, if not empty, gives the pre-existing containers explicitly (Pre = len): container i
	// carries PreKB[i] KiB of annotations. Big states make the snapshot exceed ttrpc's 4 MiB
	// message limit, so that the runtime has to split it. No container is larger than
	// maxCtrKB, so any 8 consecutive ones fit one message (the sender's floor, see C09).
	PreKB   []int  `json:"pre_kb,omitempty"`
	PreDist string `json:"pre_dist,omitempty"` // label of the size distribution (histogram only)
	// The id alphabet. Pods (default: one pod "pod0") are the runtime's pod sandboxes, all of
	// them part of every snapshot; container k (in store order) belongs to pod k mod len(Pods).
	// PreIDs[i], if not empty, is the id of pre-existing container i (default "pre-<i>"). Pod
	// ids and container ids are separate id spaces: a container may carry the id of its own or
	// of another pod (an infra/pause container exposed under the sandbox id), or an id that
	// is a prefix or an extension of one. Container ids are unique among containers, pod ids
	// among pods; ids are never empty.
	// PreStart, if set: a sync block is taken on the Adaptation before Start() (legal: the
	// block is honoured once the listener is up) and released HoldMs milliseconds after Start()
	// returned, by its own goroutine; with Create that goroutine makes one creation inside the
	// block just before it releases it. Residents and planned plugins with After = 0 register
	// while it is held. Only external plugins take part (Start() finds no pre-installed ones).
	PreStart  *PreStartPlan `json:"pre_start,omitempty"`
	Pods      []string      `json:"pods,omitempty"`
	PreIDs    []string      `json:"pre_ids,omitempty"`
	Residents []PluginPlan  `json:"residents"` // plugins registered and active before the creators start
	Creators  []CreatorPlan `json:"creators"`
	Plugins   []PluginPlan  `json:"plugins"` // plugins registering while the creators run
	Noise     int           `json:"noise"`   // goroutines issuing pod state-change events outside sync blocks (they contend for the adaptation lock, they create nothing)
	// Delays[k][j]: pause at yield point j (0 "adaptation.sync.requested", 1
	// "adaptation.sync.done", 2 "adaptation.sync.finishing") on its k-th hit in this case
	// (registrations are serial: k = ordinal of the registration, residents first).
	Delays [][3]int `json:"delays"`
	// ReqTimeoutMs > 0: the plugin request timeout (adaptation.SetPluginRequestTimeout) is set
	// to this for the execution of the plan instead of the package's 30 s; long blocks last
	// 2-3 times as long, so that a registration stays pending behind sync blocks for longer
	// than the request timeout. All handlers still answer within microseconds to 2 ms.
	ReqTimeoutMs int `json:"req_timeout_ms,omitempty"`
}

const (
	maxCreators  = 8
	maxPlugins   = 4
	maxResidents = 2
	maxN         = 25
	maxTail      = 15
	maxPauseUs   = 300
	maxHookUs    = 2000
	maxSyncUs    = 2000
	// extraCap bounds how long a creator goes on waiting for the registrations (in
	// creations); extraWall is the same in time. Both only limit the amount of work of a
	// case, no verdict depends on them.
	extraCap  = 1500
	extraWall = 1 * time.Second
	// maxCtrKB bounds one container's annotations: 8 x 450 KiB + a pod stay well below 4 MiB.
	maxCtrKB = 450
	// bigCoins: a generated plan has a big (split) state when this many fair coins all come up
	// heads (1 in 8); such a plan costs a few hundred ms.
	bigCoins = 3
	// longCoins: a generated plan has long blocks and a short request timeout when this many
	// fair coins all come up heads (1 in 16).
	longCoins = 4
	// pkgReqTimeout is the request timeout of every other plan (see TestMain).
	pkgReqTimeout = 30 * time.Second
	// activeBound is the property's time clause ("once the last block is released pending
	// registrations complete"): typical completion takes 5-20 ms.
	activeBound = 5 * time.Second
	// stuckBound: no creation made progress for this long (watchdog for the harness itself).
	stuckBound = 10 * time.Second
)

var hookNames = [3]string{"adaptation.sync.requested", "adaptation.sync.done", "adaptation.sync.finishing"}

func genPause(max int) *rapid.Generator[int] {
	return rapid.OneOf(rapid.Just(-1), rapid.Just(0), rapid.IntRange(1, max), rapid.IntRange(1, max))
}

func genC08(t *rapid.T) C08Case {
	var c C08Case
	c.Pre = rapid.IntRange(0, 6).Draw(t, "pre")
	g := rapid.IntRange(1, maxCreators).Draw(t, "g")
	sum := 0
	for i := 0; i < g; i++ {
		cp := CreatorPlan{
			AddFirst: rapid.Bool().Draw(t, "add_first"),
			N:        rapid.IntRange(1, maxN).Draw(t, "n"),
			Tail:     rapid.IntRange(0, maxTail).Draw(t, "tail"),
			Hold:     genPause(maxPauseUs).Draw(t, "hold"),
			Gap:      genPause(maxPauseUs).Draw(t, "gap"),
			Unblocks: rapid.SampledFrom([]int{1, 1, 2, 2, 3}).Draw(t, "unblocks"),
		}
		if cp.Unblocks > 1 {
			cp.Again = genPause(maxPauseUs).Draw(t, "again")
			cp.Late = rapid.Bool().Draw(t, "late")
		}
		sum += cp.N
		c.Creators = append(c.Creators, cp)
	}
	plug := func(resident bool) PluginPlan {
		pp := PluginPlan{
			Idx:      rapid.IntRange(0, 99).Draw(t, "idx"),
			SyncUs:   rapid.OneOf(rapid.Just(0), rapid.IntRange(1, maxSyncUs)).Draw(t, "sync_us"),
			CreateUs: rapid.OneOf(rapid.Just(0), rapid.IntRange(1, 100)).Draw(t, "create_us"),
		}
		if !resident {
			pp.After = rapid.IntRange(0, sum).Draw(t, "after")
		}
		return pp
	}
	res := rapid.IntRange(0, maxResidents).Draw(t, "residents")
	for i := 0; i < res; i++ {
		c.Residents = append(c.Residents, plug(true))
	}
	p := rapid.IntRange(1, maxPlugins).Draw(t, "p")
	for i := 0; i < p; i++ {
		c.Plugins = append(c.Plugins, plug(false))
	}
	c.Noise = rapid.IntRange(0, 2).Draw(t, "noise")
	// Plugins that leave: each planned plugin but the last one with probability 1/4 (the last
	// one always stays, so that something registers after a leaver), the only one if p = 1.
	for i := 0; i < p-1 || (p == 1 && i == 0); i++ {
		if rapid.Bool().Draw(t, "leaves") && rapid.Bool().Draw(t, "leaves") {
			pp := &c.Plugins[i]
			pp.Leave = rapid.SampledFrom([]int{leavePending, leavePending, leaveInSync, leaveActive}).Draw(t, "leave")
			pp.LeaveUs = rapid.OneOf(rapid.Just(0), rapid.IntRange(1, 2000)).Draw(t, "leave_us")
			if pp.Leave == leavePending {
				// keep it pending: it starts behind a block that lasts 20..60 ms
				pp.InLong, pp.After = true, sum
				cp := &c.Creators[rapid.IntRange(0, g-1).Draw(t, "long_creator")]
				if cp.LongAt == 0 {
					cp.LongAt = rapid.IntRange(1, min(3, cp.N)).Draw(t, "long_at")
					cp.LongMs = rapid.IntRange(20, 60).Draw(t, "long_ms")
				}
			}
		}
	}
	// a modest share of plans with long blocks (each costs about a second)
	// (rapid's integer generators favour small values; fair coins give a dependable share)
	big := true
	for i := 0; i < bigCoins; i++ {
		big = rapid.Bool().Draw(t, "big") && big
	}
	if big {
		small := rapid.IntRange(0, 4)
		c.PreDist = rapid.SampledFrom([]string{"heavy-head", "uniform", "heavy-tail", "random"}).Draw(t, "pre_dist")
		switch c.PreDist {
		case "uniform": // ~128 KiB x 40+
			n := rapid.IntRange(40, 48).Draw(t, "pre_n")
			kb := rapid.IntRange(110, 140).Draw(t, "pre_kb")
			for i := 0; i < n; i++ {
				c.PreKB = append(c.PreKB, kb)
			}
		case "heavy-head", "heavy-tail": // 10 heavy ones, then (or preceded by) small ones
			nh := rapid.IntRange(10, 12).Draw(t, "pre_heavy")
			kb := rapid.IntRange(400, maxCtrKB).Draw(t, "pre_kb")
			ns := rapid.IntRange(8, 30).Draw(t, "pre_small")
			var heavy, light []int
			for i := 0; i < nh; i++ {
				heavy = append(heavy, kb)
			}
			for i := 0; i < ns; i++ {
				light = append(light, small.Draw(t, "kb"))
			}
			if c.PreDist == "heavy-head" {
				c.PreKB = append(heavy, light...)
			} else {
				c.PreKB = append(light, heavy...)
			}
		default: // runs of heavy and small containers in drawn order
			n := rapid.IntRange(24, 48).Draw(t, "pre_n")
			for i := 0; i < n; i++ {
				c.PreKB = append(c.PreKB, rapid.OneOf(small, rapid.IntRange(100, maxCtrKB), rapid.IntRange(100, maxCtrKB)).Draw(t, "kb"))
			}
		}
		c.Pre = len(c.PreKB)
		for i := range c.Creators { // some containers created during the registrations are big, too
			if rapid.Bool().Draw(t, "creator_big") {
				c.Creators[i].BigKB = rapid.IntRange(64, maxCtrKB).Draw(t, "big_kb")
				c.Creators[i].BigN = rapid.IntRange(1, 3).Draw(t, "big_n")
			}
		}
	}
	// When the first block is taken relative to Start(): in a quarter of the plans before it.
	if rapid.Bool().Draw(t, "pre_start") && rapid.Bool().Draw(t, "pre_start") {
		c.PreStart = &PreStartPlan{
			HoldMs:   rapid.IntRange(1, 40).Draw(t, "pre_hold_ms"),
			Create:   rapid.Bool().Draw(t, "pre_create"),
			AddFirst: rapid.Bool().Draw(t, "pre_add_first"),
		}
		if res == 0 {
			c.Plugins[0].After = 0 // somebody registers while the block is held
		}
	}
	// The identity alphabet: in half of the plans every plugin (residents included) draws its
	// index from {10, 20} and its name from {logger, tracer}: twins, three of a kind, same index
	// with another name, same name with another index, next to distinct plugins.
	if rapid.Bool().Draw(t, "shared_identities") {
		ident := func(pp *PluginPlan) {
			pp.Idx = 10
			if rapid.Bool().Draw(t, "idx20") {
				pp.Idx = 20
			}
			pp.Name = "logger"
			if rapid.Bool().Draw(t, "tracer") {
				pp.Name = "tracer"
			}
		}
		for i := range c.Residents {
			ident(&c.Residents[i])
		}
		for i := range c.Plugins {
			ident(&c.Plugins[i])
		}
	}
	// The id alphabet: in half of the plans pods and containers draw their ids from one pool.
	if rapid.Bool().Draw(t, "shared_ids") {
		pool := []string{"sb0", "sb1", "sb", "sb00", "s", "0"}
		np := rapid.IntRange(1, 3).Draw(t, "pods")
		rest := append([]string(nil), pool...)
		take := func(from *[]string, label string) string {
			k := rapid.IntRange(0, len(*from)-1).Draw(t, label)
			id := (*from)[k]
			*from = append(append([]string(nil), (*from)[:k]...), (*from)[k+1:]...)
			return id
		}
		for i := 0; i < np; i++ {
			c.Pods = append(c.Pods, take(&rest, "pod_id"))
		}
		// candidates for containers: every pod id first (a container named like its own or another
		// pod), then the unused pool ids (prefixes / extensions of pod ids), then extensions
		cands := append([]string(nil), c.Pods...)
		cands = append(cands, rest...)
		for _, pid := range c.Pods {
			cands = append(cands, pid+"-", pid+"0x")
		}
		if c.Pre == 0 {
			c.Pre = 1
		}
		c.PreIDs = make([]string, c.Pre)
		// the first special id goes to a drawn pre-existing container and is a pod's id
		k := rapid.IntRange(0, c.Pre-1).Draw(t, "pre_special")
		j := rapid.IntRange(0, np-1).Draw(t, "pre_pod")
		c.PreIDs[k] = cands[j]
		cands = append(append([]string(nil), cands[:j]...), cands[j+1:]...)
		for n := rapid.IntRange(0, min(3, c.Pre-1)).Draw(t, "pre_more"); n > 0; n-- {
			if k = rapid.IntRange(0, c.Pre-1).Draw(t, "pre_special"); c.PreIDs[k] == "" {
				c.PreIDs[k] = take(&cands, "pre_id")
			}
		}
		for i := range c.Creators {
			if rapid.Bool().Draw(t, "first_id") && rapid.Bool().Draw(t, "first_id") && len(cands) > 0 {
				c.Creators[i].FirstID = take(&cands, "creator_id")
			}
		}
	}
	long := !big // a big state is not combined with a shortened request timeout
	for i := 0; i < longCoins; i++ {
		long = rapid.Bool().Draw(t, "long") && long
	}
	if long {
		c.ReqTimeoutMs = rapid.IntRange(300, 500).Draw(t, "req_timeout_ms")
		nl := rapid.IntRange(1, min(3, g)).Draw(t, "long_creators")
		for i := 0; i < nl; i++ {
			cp := &c.Creators[i]
			cp.LongAt = rapid.IntRange(1, min(3, cp.N)).Draw(t, "long_at")
			lo := 2 * c.ReqTimeoutMs
			if i > 0 {
				lo = 1 // further links of a chain may be shorter
			}
			cp.LongMs = rapid.IntRange(lo, 3*c.ReqTimeoutMs).Draw(t, "long_ms")
		}
		any := false
		for i := range c.Plugins {
			c.Plugins[i].InLong = rapid.Bool().Draw(t, "in_long") || c.Plugins[i].Leave == leavePending
			any = any || c.Plugins[i].InLong
		}
		if !any {
			c.Plugins[0].InLong = true
		}
		for i := range c.Plugins {
			if c.Plugins[i].InLong {
				c.Plugins[i].After = sum // not earlier than the long block, at the latest when all unconditional creations are done
			}
		}
		for i := range c.Plugins { // handlers answer quickly: only the lock wait is long
			c.Plugins[i].SyncUs = min(c.Plugins[i].SyncUs, 500)
		}
		for i := range c.Residents {
			c.Residents[i].SyncUs = min(c.Residents[i].SyncUs, 500)
		}
	}
	for k := 0; k < res+p; k++ {
		var d [3]int
		for j := range d {
			d[j] = genPause(maxHookUs).Draw(t, "delay")
		}
		c.Delays = append(c.Delays, d)
	}
	return c
}

// normalize bounds a (possibly hand-written) replayed case to the generated domain.
func normalize(c C08Case) C08Case {
	clamp := func(v, lo, hi int) int {
		if v < lo {
			return lo
		}
		if v > hi {
			return hi
		}
		return v
	}
	c.Pre = clamp(c.Pre, 0, 50)
	if len(c.PreKB) > 0 {
		if len(c.PreKB) > 64 {
			c.PreKB = c.PreKB[:64]
		}
		kb := make([]int, len(c.PreKB))
		for i, v := range c.PreKB {
			kb[i] = clamp(v, 0, maxCtrKB)
		}
		c.PreKB, c.Pre = kb, len(kb)
	}
	if len(c.Creators) > 16 {
		c.Creators = c.Creators[:16]
	}
	if len(c.Plugins) > 8 {
		c.Plugins = c.Plugins[:8]
	}
	if len(c.Residents) > 4 {
		c.Residents = c.Residents[:4]
	}
	sum := 0
	cs := make([]CreatorPlan, len(c.Creators))
	for i, cp := range c.Creators {
		cp.N = clamp(cp.N, 1, 200)
		cp.Tail = clamp(cp.Tail, 0, 200)
		cp.Hold = clamp(cp.Hold, -1, 5000)
		cp.Gap = clamp(cp.Gap, -1, 5000)
		cp.Unblocks = clamp(cp.Unblocks, 1, 3)
		cp.Again = clamp(cp.Again, -1, 5000)
		if cp.Unblocks == 1 {
			cp.Again, cp.Late = 0, false
		}
		cp.BigKB = clamp(cp.BigKB, 0, maxCtrKB)
		cp.BigN = clamp(cp.BigN, 0, 8)
		cp.LongAt = clamp(cp.LongAt, 0, cp.N)
		cp.LongMs = clamp(cp.LongMs, 0, 5000)
		if cp.LongAt == 0 {
			cp.LongMs = 0
		}
		sum += cp.N
		cs[i] = cp
	}
	c.Creators = cs
	fix := func(in []PluginPlan) []PluginPlan {
		out := make([]PluginPlan, len(in))
		for i, pp := range in {
			pp.Idx = clamp(pp.Idx, 0, 99)
			pp.After = clamp(pp.After, 0, sum)
			pp.SyncUs = clamp(pp.SyncUs, 0, 20000)
			pp.CreateUs = clamp(pp.CreateUs, 0, 2000)
			if len(pp.Name) > 32 || strings.ContainsAny(pp.Name, "/ \t\n") {
				pp.Name = ""
			}
			pp.Leave = clamp(pp.Leave, 0, 3)
			pp.LeaveUs = clamp(pp.LeaveUs, 0, 20000)
			out[i] = pp
		}
		return out
	}
	c.Residents, c.Plugins = fix(c.Residents), fix(c.Plugins)
	for i := range c.Residents {
		c.Residents[i].Leave, c.Residents[i].LeaveUs, c.Residents[i].InLong = 0, 0, false
	}
	c.Noise = clamp(c.Noise, 0, 4)
	if c.PreStart != nil {
		ps := *c.PreStart
		ps.HoldMs = clamp(ps.HoldMs, 0, 3000)
		c.PreStart = &ps
	}
	// ids: non-empty, bounded, unique within their own id space; defaults never collide with
	// explicit ones (an explicit id that looks like a default one is dropped)
	okID := func(id string) bool {
		return id != "" && len(id) <= 64 && id != "final" && id != "prestart" && !strings.HasPrefix(id, "pre-") &&
			!(len(id) > 1 && id[0] == 'c' && id[1] >= '0' && id[1] <= '9' && strings.Contains(id, "-"))
	}
	seenPod := map[string]bool{}
	var pods []string
	for _, id := range c.Pods {
		if okID(id) && !seenPod[id] && len(pods) < 8 && id != fx.ProbePodID && !strings.HasPrefix(id, "noise-pod-") {
			seenPod[id] = true
			pods = append(pods, id)
		}
	}
	c.Pods = pods
	seenCtr := map[string]bool{}
	if len(c.PreIDs) > c.Pre {
		c.PreIDs = c.PreIDs[:c.Pre]
	}
	ids := make([]string, len(c.PreIDs))
	for i, id := range c.PreIDs {
		if okID(id) && !seenCtr[id] {
			seenCtr[id] = true
			ids[i] = id
		}
	}
	c.PreIDs = ids
	if len(ids) == 0 {
		c.PreIDs = nil
	}
	for i := range c.Creators {
		if id := c.Creators[i].FirstID; id != "" {
			if okID(id) && !seenCtr[id] {
				seenCtr[id] = true
			} else {
				c.Creators[i].FirstID = ""
			}
		}
	}
	if c.ReqTimeoutMs != 0 {
		c.ReqTimeoutMs = clamp(c.ReqTimeoutMs, 100, 10000)
	}
	ds := make([][3]int, len(c.Delays))
	for k, d := range c.Delays {
		for j := range d {
			d[j] = clamp(d[j], -1, 20000)
		}
		ds[k] = d
	}
	c.Delays = ds
	return c
}

func pause(us int) {
	switch {
	case us < 0:
	case us == 0:
		runtime.Gosched()
	default:
		time.Sleep(time.Duration(us) * time.Microsecond)
	}
}

// ---------------------------------------------------------------------------------------
// Recorded history
// ---------------------------------------------------------------------------------------

// Creation is one container creation by a creator goroutine (times in µs since case start).
type Creation struct {
	ID      string `json:"id"`
	Creator int    `json:"creator"`
	TReq    int64  `json:"t_req"` // before BlockPluginSync
	TAcq    int64  `json:"t_acq"` // BlockPluginSync returned
	TAdd    int64  `json:"t_add"` // id added to the runtime's store
	TCall   int64  `json:"t_call"`
	TRet    int64  `json:"t_ret"` // CreateContainer returned
	TRel    int64  `json:"t_rel"` // Unblock returned
	Err     string `json:"err,omitempty"`
	LongMs  int    `json:"long_ms,omitempty"` // the block was kept this long on purpose
}

// Reg is one invocation of the runtime's SyncFn (= one registration reaching synchronization).
type Reg struct {
	Ord        int    `json:"ord"`
	Plugin     string `json:"plugin"` // filled in by the plugin's Synchronize handler
	TEntry     int64  `json:"t_entry"`
	TSnap      int64  `json:"t_snap"`
	THandler   int64  `json:"t_handler"`
	THandlerX  int64  `json:"t_handler_exit"`
	TReturn    int64  `json:"t_return"`
	SnapLen    int    `json:"snap_len"`
	SnapBytes  int    `json:"snap_bytes"` // proto.Size of the whole state as one SynchronizeRequest
	HeldEntry  int64  `json:"held_entry"` // harness' count of held sync blocks at these instants
	HeldSnap   int64  `json:"held_snap"`
	HeldHdl    int64  `json:"held_handler"`
	HeldHdlX   int64  `json:"held_handler_exit"`
	HeldReturn int64  `json:"held_return"`
	Err        string `json:"err,omitempty"`
	CbUs       int64  `json:"cb_us"`    // duration of the NRI sync callback
	Handlers   int    `json:"handlers"` // Synchronize handler invocations during this SyncFn call
	Overlap    int    `json:"overlap"`  // creation attempts blocked in BlockPluginSync during [t_entry, t_return] (or the hook-widened section)
	ExclFrom   int64  `json:"excl_from"`
	ExclTo     int64  `json:"excl_to"`
}

// HookHit is one hit of a yield point.
type HookHit struct {
	Point int   `json:"point"`
	Ord   int   `json:"ord"`
	T0    int64 `json:"t0"`
	T1    int64 `json:"t1"`
	Held0 int64 `json:"held0"`
	Held1 int64 `json:"held1"`
}

// PlugHist is what one plugin saw.
type PlugHist struct {
	Name      string   `json:"name"`
	Resident  bool     `json:"resident"`
	TStart    int64    `json:"t_start"`
	TStarted  int64    `json:"t_started"`
	StartErr  string   `json:"start_err,omitempty"`
	Active    bool     `json:"active"`
	TActive   int64    `json:"t_active"` // first probe seen
	SyncCalls int      `json:"sync_calls"`
	SnapN     int      `json:"snap_n"`
	CreatedN  int      `json:"created_n"`
	Neither   []string `json:"neither,omitempty"`
	Both      []string `json:"both,omitempty"`
	Dup       []string `json:"dup,omitempty"`
	Closed    bool     `json:"closed,omitempty"`
	Leave     int      `json:"leave,omitempty"`
	TLeft     int64    `json:"t_left,omitempty"`
}

// History goes into the replay file of a failing case.
type History struct {
	Attempt    int        `json:"attempt"`
	Hooks      bool       `json:"hooks"`
	Findings   []string   `json:"findings"`
	StoreN     int        `json:"store_n"`
	TLastRel   int64      `json:"t_last_release"`
	Regs       []Reg      `json:"regs"`
	HookHits   []HookHit  `json:"hook_hits,omitempty"`
	Plugins    []PlugHist `json:"plugins"`
	Creations  []Creation `json:"creations"` // the offending ones and those near an exclusive section (bounded)
	PerCreator []int      `json:"per_creator"`
	Stacks     string     `json:"stacks,omitempty"`
}

// ---------------------------------------------------------------------------------------
// Execution
// ---------------------------------------------------------------------------------------

type plug struct {
	plan     PluginPlan
	name     string
	resident bool
	p        *fx.Plugin

	mu        sync.Mutex
	snap      map[string]int
	created   map[string]int
	syncCalls int
	probes    int
	tActive   int64
	closed    bool

	launched atomic.Bool
	leaving  atomic.Bool // the plan made it go away (set before the stub is stopped)
	tLeft    atomic.Int64
	tStart   int64
	tStarted int64
	startErr string
	started  chan struct{}
}

type exec struct {
	c    C08Case
	base time.Time
	r    *fx.Runtime
	pods []*api.PodSandbox
	nctr atomic.Int64 // containers made so far (assigns pods round robin)

	held   atomic.Int64 // sync blocks held by the harness: a lower bound of the real number
	inSync atomic.Int64 // SyncFn invocations in progress

	storeMu sync.Mutex
	store   []*api.Container

	mu       sync.Mutex
	regs     []*Reg
	curReg   *Reg
	hookHits []HookHit
	hits     [3]int
	findings []string
	seenKind map[string]bool
	infra    []string
	tearing  bool

	plugs         []*plug // residents first
	target        int64   // SyncFn returns (or failed Starts) that end the creators' waiting
	finished      atomic.Int64
	done          atomic.Int64 // creations completed (plan's clock for Start points)
	progress      atomic.Int64
	stopNoise     atomic.Bool
	starting      atomic.Bool  // Adaptation.Start() is running (its SyncFn call is for pre-installed plugins: none)
	preRec        *Creation    // the creation made inside the pre-start block (under mu)
	tPreRel       atomic.Int64 // when the pre-start block was released (µs), 0 = not yet / none
	reqTimeout    time.Duration
	quickFails    []string     // registrations failed by the runtime although their synchronization was quick (under mu)
	longStarted   atomic.Bool  // the first long block has been granted
	extraUnblocks atomic.Int64 // Unblock calls beyond the first one of a block
	crecs         [][]Creation
}

var cur atomic.Pointer[exec]

// hookPoint is installed into pkg/verifhook for the whole process.
func hookPoint(name string) {
	x := cur.Load()
	if x == nil {
		return
	}
	for j, n := range hookNames {
		if n == name {
			x.onHook(j)
			return
		}
	}
}

func (x *exec) now() int64 { return int64(time.Since(x.base) / time.Microsecond) }

func (x *exec) onHook(j int) {
	x.mu.Lock()
	ord := x.hits[j]
	x.hits[j]++
	d := -1
	if ord < len(x.c.Delays) {
		d = x.c.Delays[ord][j]
	}
	x.mu.Unlock()
	h := HookHit{Point: j, Ord: ord, T0: x.now(), Held0: x.held.Load()}
	pause(d)
	h.T1, h.Held1 = x.now(), x.held.Load()
	x.mu.Lock()
	x.hookHits = append(x.hookHits, h)
	x.mu.Unlock()
}

// finding records a violated invariant (one text per kind, plus a count).
func (x *exec) finding(kind, format string, a ...any) {
	x.mu.Lock()
	defer x.mu.Unlock()
	if x.seenKind == nil {
		x.seenKind = map[string]bool{}
	}
	if x.seenKind[kind] {
		return
	}
	x.seenKind[kind] = true
	x.findings = append(x.findings, fmt.Sprintf(format, a...))
}

func (x *exec) infraf(format string, a ...any) {
	x.mu.Lock()
	if !x.tearing && len(x.infra) < 8 {
		x.infra = append(x.infra, fmt.Sprintf(format, a...))
	}
	x.mu.Unlock()
}

// syncFn is the runtime's SyncFn: it snapshots the store under the store's own lock and
// hands the snapshot to the NRI callback. It runs on the adaptation's accept goroutine.
func (x *exec) syncFn(ctx context.Context, cb adaptation.SyncCB) error {
	if x.starting.Load() {
		// Start() synchronizes its pre-installed plugins (none here) under the adaptation lock,
		// without the sync lock: not a registration, nothing to record or to judge.
		x.storeMu.Lock()
		snap := append([]*api.Container(nil), x.store...)
		x.storeMu.Unlock()
		_, err := cb(ctx, x.pods, snap)
		return err
	}
	reg := &Reg{TEntry: x.now()}
	x.inSync.Add(1)
	reg.HeldEntry = x.held.Load()
	x.mu.Lock()
	reg.Ord = len(x.regs)
	x.regs = append(x.regs, reg)
	x.curReg = reg
	x.mu.Unlock()

	x.storeMu.Lock()
	snap := make([]*api.Container, len(x.store))
	copy(snap, x.store)
	reg.HeldSnap = x.held.Load()
	reg.TSnap = x.now()
	x.storeMu.Unlock()
	reg.SnapLen = len(snap)
	reg.SnapBytes = proto.Size(&api.SynchronizeRequest{Pods: x.pods, Containers: snap})

	t0 := time.Now()
	_, err := cb(ctx, x.pods, snap)
	took := time.Since(t0)
	reg.CbUs = int64(took / time.Microsecond)

	reg.HeldReturn = x.held.Load()
	x.mu.Lock()
	x.curReg = nil
	x.mu.Unlock()
	if err != nil {
		reg.Err = err.Error()
		who := reg.Plugin
		if who == "" {
			who = x.oldestPending() // the handler has not run (yet); registrations are serial
		}
		if took < x.reqTimeout/2 {
			// Not a slow plugin or an overloaded machine: the NRI sync callback came back within
			// half the request timeout and still failed the registration. Judged under "once the
			// last block is released pending registrations complete" (re-execution protocol).
			x.mu.Lock()
			if len(x.quickFails) < 16 {
				x.quickFails = append(x.quickFails, fmt.Sprintf("the registration of plugin %q (pending from %d µs, sync lock granted at %d µs) was failed by the runtime: %v — although the sync callback took only %v of the %v request timeout (Synchronize handler invocations: %d)", who, x.startedAt(who), reg.TEntry, err, took.Round(10*time.Microsecond), x.reqTimeout, reg.Handlers))
			}
			x.mu.Unlock()
		} else {
			x.infraf("synchronization of %q failed after %v: %v", reg.Plugin, took, err)
		}
	}
	x.mu.Lock()
	reg.TReturn = x.now()
	x.mu.Unlock()
	x.inSync.Add(-1)
	x.finished.Add(1)
	return err
}

func (x *exec) newPlug(i int, pp PluginPlan, resident bool) *plug {
	pl := &plug{plan: pp, resident: resident, snap: map[string]int{}, created: map[string]int{}, started: make(chan struct{})}
	if resident {
		pl.name = fmt.Sprintf("res%d", i)
	} else {
		pl.name = fmt.Sprintf("reg%d", i)
	}
	mask := api.MustParseEventMask("CreateContainer", "StopPodSandbox", "RemovePodSandbox")
	nriName := pl.name
	if pp.Name != "" {
		nriName = pp.Name
	}
	p := &fx.Plugin{Name: nriName, Idx: fmt.Sprintf("%02d", pp.Idx), Mask: mask}
	p.OnSynchronize = func(_ context.Context, _ []*api.PodSandbox, ctrs []*api.Container) ([]*api.ContainerUpdate, error) {
		// A reading of the block count only counts while the runtime's SyncFn is in progress
		// (before and after the reading): a handler that runs after the runtime gave up on the
		// request (request timeout on an overloaded machine) says nothing about the sync lock.
		if pp.Leave == leaveInSync {
			pl.leaveAfter(x)
		}
		// The handler belongs to the SyncFn call that is in progress when it is ENTERED (the
		// runtime sends the request from inside that call); everything it records goes to that
		// registration. A handler that outlives its SyncFn call (the plugin left, or the runtime
		// gave up) must not be booked on the next registration, which may already be running.
		same := func(reg *Reg) bool {
			x.mu.Lock()
			defer x.mu.Unlock()
			return reg != nil && x.curReg == reg
		}
		x.mu.Lock()
		myReg := x.curReg
		x.mu.Unlock()
		in0 := myReg != nil
		t0, h0 := x.now(), x.held.Load()
		in0 = in0 && same(myReg)
		if !in0 {
			myReg = nil
		}
		pl.mu.Lock()
		pl.syncCalls++
		for _, c := range ctrs {
			pl.snap[c.GetId()]++
		}
		pl.mu.Unlock()
		pause(orNone(pp.SyncUs))
		in1 := same(myReg)
		t1, h1 := x.now(), x.held.Load()
		in1 = in1 && same(myReg)
		if (!in0 || !in1) && pp.Leave == 0 { // (a plugin that leaves makes the runtime give up on purpose)
			x.infraf("plugin %s: its Synchronize handler ran (partly) outside the runtime's SyncFn call", pl.name)
		}
		if !in0 {
			h0 = 0
		}
		if !in1 {
			h1 = 0
		}
		x.mu.Lock()
		if reg := myReg; reg != nil {
			reg.Handlers++
			if reg.Handlers == 1 {
				reg.Plugin, reg.THandler, reg.THandlerX, reg.HeldHdl, reg.HeldHdlX = pl.name, t0, t1, h0, h1
			}
		}
		x.mu.Unlock()
		if h0 != 0 || h1 != 0 {
			x.finding("held-at-handler", "plugin %s: its Synchronize handler ran while the harness held %d (entry) / %d (exit) sync block(s)", pl.name, h0, h1)
		}
		return nil, nil
	}
	p.OnCreate = func(_ context.Context, _ *api.PodSandbox, c *api.Container) (*api.ContainerAdjustment, []*api.ContainerUpdate, error) {
		pl.mu.Lock()
		pl.created[c.GetId()]++
		first := len(pl.created) == 1
		pl.mu.Unlock()
		if first && pp.Leave == leaveActive {
			pl.leaveAfter(x)
		}
		pause(orNone(pp.CreateUs))
		return nil, nil, nil
	}
	p.OnEvent = func(_ context.Context, _ api.Event, pod *api.PodSandbox, _ *api.Container) error {
		if fx.IsProbe(pod) {
			pl.mu.Lock()
			pl.probes++
			if pl.probes == 1 {
				pl.tActive = x.now()
			}
			pl.mu.Unlock()
		}
		return nil
	}
	p.OnClose = func() {
		x.mu.Lock()
		tearing := x.tearing
		x.mu.Unlock()
		if !tearing && !pl.leaving.Load() {
			pl.mu.Lock()
			pl.closed = true
			pl.mu.Unlock()
			x.infraf("plugin %s lost its connection", pl.name)
		}
	}
	pl.p = p
	return pl
}

func orNone(us int) int {
	if us <= 0 {
		return -1
	}
	return us
}

// leave makes the plugin go away: from then on nothing is owed to it.
func (pl *plug) leave(x *exec) {
	if pl.leaving.CompareAndSwap(false, true) {
		pl.tLeft.Store(x.now())
		pl.p.Stub.Stop()
	}
}

func (pl *plug) leaveAfter(x *exec) {
	go func() {
		pause(orNone(pl.plan.LeaveUs))
		pl.leave(x)
	}()
}

func (pl *plug) start(x *exec) {
	pl.tStart = x.now()
	err := pl.p.NewStub(x.r.Socket, nil)
	if err == nil {
		err = pl.p.Stub.Start(context.Background())
	}
	pl.tStarted = x.now()
	if err != nil {
		pl.startErr = err.Error()
		x.infraf("plugin %s: Start failed: %v", pl.name, err)
		if !pl.resident {
			x.finished.Add(1) // never reaches SyncFn: do not keep the creators waiting for it
		}
	}
	close(pl.started)
	if err == nil && pl.plan.Leave == leavePending {
		pause(orNone(pl.plan.LeaveUs))
		pl.leave(x)
	}
}

func (pl *plug) probeCount() int {
	pl.mu.Lock()
	defer pl.mu.Unlock()
	return pl.probes
}

// waitActive probes until each of the plugins has seen a probe, or the deadline passes.
// It returns the plugins that have not.
func (x *exec) waitActive(pls []*plug, deadline time.Time) (missing []*plug, fenced bool) {
	for {
		if err := x.r.Probe(); err != nil {
			x.infraf("probe event failed: %v", err)
			return pls, false
		}
		missing = nil
		for _, pl := range pls {
			if pl.probeCount() == 0 {
				missing = append(missing, pl)
			}
		}
		if len(missing) == 0 {
			return nil, fenced
		}
		if fenced {
			// Every missing plugin was synchronized successfully, the exclusive section of its
			// registration is over (a sync block was granted afterwards), and a probe sent after
			// that did not reach it: it has not become active and never will.
			return missing, true
		}
		if time.Now().After(deadline) {
			return missing, false
		}
		if x.syncedOK(missing) {
			got := make(chan struct{})
			go func() {
				b := x.r.A.BlockPluginSync()
				x.held.Add(1)
				x.held.Add(-1)
				b.Unblock()
				close(got)
			}()
			select {
			case <-got:
				fenced = true
				continue
			case <-time.After(time.Until(deadline)):
				return missing, false
			}
		}
		time.Sleep(500 * time.Microsecond)
	}
}

// syncedOK: the runtime's SyncFn call has returned without error for each of the plugins.
func (x *exec) syncedOK(pls []*plug) bool {
	ok := map[string]bool{}
	x.mu.Lock()
	for _, rg := range x.regs {
		if rg.TReturn != 0 && rg.Err == "" && rg.Handlers > 0 {
			ok[rg.Plugin] = true
		}
	}
	x.mu.Unlock()
	for _, pl := range pls {
		if !ok[pl.name] {
			return false
		}
	}
	return true
}

// notActivated turns a fenced miss into a finding, unless the plugin lost its connection or
// something else went wrong that the property does not talk about.
func (x *exec) notActivated(miss []*plug) bool {
	x.mu.Lock()
	bad := len(x.infra) > 0
	x.mu.Unlock()
	for _, pl := range miss {
		pl.mu.Lock()
		bad = bad || pl.closed
		pl.mu.Unlock()
	}
	if bad {
		return false
	}
	pl := miss[0]
	x.finding("not-activated", "plugin %s (index %02d, name %q) was synchronized successfully and the exclusive section of its registration is over (a sync block was granted afterwards), yet an event sent after that did not reach it: it completed registration without becoming active (%d plugin(s) affected)", pl.name, pl.plan.Idx, pl.p.Name, len(miss))
	return true
}

func (x *exec) leftCount() int {
	n := 0
	for _, pl := range x.plugs {
		if pl.leaving.Load() {
			n++
		}
	}
	return n
}

// startedAt returns when the named plugin's Start returned (µs), or -1.
func (x *exec) startedAt(name string) int64 {
	for _, pl := range x.plugs {
		if pl.name == name {
			select {
			case <-pl.started:
				return pl.tStarted
			default:
			}
		}
	}
	return -1
}

// oldestPending names the planned plugin whose Start returned first among those whose
// registration has not been synchronized yet (diagnostics only), or "".
func (x *exec) oldestPending() string {
	synced := map[string]bool{}
	x.mu.Lock()
	for _, rg := range x.regs {
		if rg.TReturn != 0 {
			synced[rg.Plugin] = true
		}
	}
	x.mu.Unlock()
	best, bestT := "", int64(0)
	for _, pl := range x.plugs {
		if st := x.startedAt(pl.name); !pl.resident && !synced[pl.name] && st >= 0 && pl.startErr == "" && (best == "" || st < bestT) {
			best, bestT = pl.name, st
		}
	}
	return best
}

// unsynced names a planned plugin whose Start was issued and whose registration has not
// been synchronized yet (its SyncFn call has not returned), or "".
func (x *exec) unsynced() string {
	synced := map[string]bool{}
	x.mu.Lock()
	for _, rg := range x.regs {
		if rg.TReturn != 0 {
			synced[rg.Plugin] = true
		}
	}
	x.mu.Unlock()
	for _, pl := range x.plugs {
		if !pl.resident && pl.launched.Load() && !synced[pl.name] && pl.plan.Leave == 0 {
			select {
			case <-pl.started:
				if pl.startErr != "" {
					continue
				}
			default:
			}
			return pl.name
		}
	}
	return ""
}

func (x *exec) add(c *api.Container) {
	x.storeMu.Lock()
	x.store = append(x.store, c)
	x.storeMu.Unlock()
}

// createOne performs one creation the way the property prescribes. carry is an earlier
// block of the same goroutine that has been unblocked already and is unblocked once more
// inside this block (a no-op by the documented contract). It returns the block when the
// plan wants it unblocked again after the step (atEnd) or inside the next block (late).
func (x *exec) createOne(creator int, id string, cp CreatorPlan, carry *adaptation.PluginSyncBlock, long bool, kb int) (rec Creation, atEnd, late *adaptation.PluginSyncBlock) {
	rec = Creation{ID: id, Creator: creator}
	pod := x.nextPod()
	ctr := newCtr(id, pod.Id, kb)
	rec.TReq = x.now()
	b := x.r.A.BlockPluginSync()
	rec.TAcq = x.now()
	x.held.Add(1)
	if n := x.inSync.Load(); n != 0 {
		x.finding("sync-at-acquire", "BlockPluginSync returned (creation %s) while a plugin was being synchronized (SyncFn in progress)", id)
	}
	hold := func() { pause(cp.Hold) }
	if long {
		rec.LongMs = cp.LongMs
		if x.longStarted.CompareAndSwap(false, true) {
			for _, pl := range x.plugs {
				if !pl.resident && pl.plan.InLong && pl.launched.CompareAndSwap(false, true) {
					go pl.start(x)
				}
			}
		}
		hold = func() { time.Sleep(time.Duration(cp.LongMs) * time.Millisecond) }
	}
	if carry != nil {
		carry.Unblock() // released long ago: must not affect the block just granted
		x.extraUnblocks.Add(1)
	}
	create := func() {
		rec.TCall = x.now()
		_, err := x.r.A.CreateContainer(context.Background(), &api.CreateContainerRequest{Pod: pod, Container: ctr})
		rec.TRet = x.now()
		if err != nil {
			rec.Err = err.Error()
			x.infraf("CreateContainer(%s) failed: %v", id, err)
		}
	}
	if cp.AddFirst {
		x.add(ctr)
		rec.TAdd = x.now()
		hold()
		create()
	} else {
		create()
		hold()
		x.add(ctr)
		rec.TAdd = x.now()
	}
	if n := x.inSync.Load(); n != 0 {
		x.finding("sync-at-release", "a plugin was being synchronized (SyncFn in progress) while the sync block of creation %s was still held", id)
	}
	// The harness' count follows the first Unblock only: later calls on the same block
	// release nothing.
	x.held.Add(-1)
	b.Unblock()
	rec.TRel = x.now()
	x.progress.Add(1)
	switch {
	case cp.Unblocks == 2 && cp.Late:
		late = b
	case cp.Unblocks >= 2:
		pause(cp.Again)
		b.Unblock()
		x.extraUnblocks.Add(1)
		if cp.Unblocks >= 3 {
			if cp.Late {
				late = b
			} else {
				atEnd = b
			}
		}
	}
	return rec, atEnd, late
}

// padding is shared by all padded containers (strings are immutable: no copies are made).
var padding = strings.Repeat("x", maxCtrKB<<10)

func newCtr(id, pod string, kb int) *api.Container {
	c := &api.Container{Id: id, PodSandboxId: pod, Name: id}
	if kb > 0 {
		c.Annotations = map[string]string{"verif/pad": padding[:min(kb, maxCtrKB)<<10]}
	}
	return c
}

func bigKB(cp CreatorPlan, k int) int {
	if k < cp.BigN {
		return cp.BigKB
	}
	return 0
}

func (x *exec) nextPod() *api.PodSandbox {
	return x.pods[int(x.nctr.Add(1)-1)%len(x.pods)]
}

func (x *exec) launchAt(n int64) {
	for _, pl := range x.plugs {
		if !pl.resident && int64(pl.plan.After) <= n && pl.launched.CompareAndSwap(false, true) {
			go pl.start(x)
		}
	}
}

func (x *exec) creator(i int, cp CreatorPlan) {
	t0 := time.Now()
	k := 0
	var carry *adaptation.PluginSyncBlock
	one := func() {
		id := fmt.Sprintf("c%d-%d", i, k)
		if k == 0 && cp.FirstID != "" {
			id = cp.FirstID
		}
		rec, atEnd, late := x.createOne(i, id, cp, carry, cp.LongAt > 0 && k+1 == cp.LongAt, bigKB(cp, k))
		carry = late
		x.crecs[i] = append(x.crecs[i], rec)
		k++
		x.launchAt(x.done.Add(1))
		pause(cp.Gap)
		if atEnd != nil {
			atEnd.Unblock() // the "deferred" call at the end of the step
			x.extraUnblocks.Add(1)
		}
	}
	for {
		if k >= cp.N && (x.finished.Load() >= x.target || k >= cp.N+extraCap || time.Since(t0) > extraWall) {
			break
		}
		one()
	}
	for t := 0; t < cp.Tail; t++ {
		one()
	}
	if carry != nil {
		carry.Unblock()
		x.extraUnblocks.Add(1)
	}
}

func (x *exec) noise(i int) {
	pod := &api.PodSandbox{Id: fmt.Sprintf("noise-pod-%d", i)}
	for !x.stopNoise.Load() {
		if err := x.r.A.StopPodSandbox(context.Background(), &api.StateChangeEvent{Pod: pod}); err != nil {
			x.infraf("noise event failed: %v", err)
			return
		}
		time.Sleep(20 * time.Microsecond)
	}
}

type result struct {
	out      ev.Outcome
	timeFail string // non-empty: only the time clause failed
	infra    string // non-empty: the case could not be judged (harness/infrastructure)
}

func stacks() string {
	buf := make([]byte, 1<<20)
	n := runtime.Stack(buf, true)
	var keep []string
	for _, g := range strings.Split(string(buf[:n]), "\n\n") {
		if strings.Contains(g, "pkg/adaptation") || strings.Contains(g, "syncreg") {
			if len(g) > 1500 {
				g = g[:1500]
			}
			keep = append(keep, g)
		}
		if len(keep) >= 24 {
			break
		}
	}
	return strings.Join(keep, "\n\n")
}

// execute runs the plan once.
func execute(c C08Case, attempt int) result {
	x := &exec{c: c, base: time.Now()}
	podIDs := c.Pods
	if len(podIDs) == 0 {
		podIDs = []string{"pod0"}
	}
	for _, id := range podIDs {
		x.pods = append(x.pods, &api.PodSandbox{Id: id, Name: "pod-" + id, Namespace: "ns", Uid: "uid-" + id})
	}
	for i := 0; i < c.Pre; i++ {
		id := fmt.Sprintf("pre-%d", i)
		kb := 0
		if i < len(c.PreKB) {
			kb = c.PreKB[i]
		}
		if i < len(c.PreIDs) && c.PreIDs[i] != "" {
			id = c.PreIDs[i]
		}
		x.store = append(x.store, newCtr(id, x.nextPod().Id, kb))
	}
	for i, pp := range c.Residents {
		x.plugs = append(x.plugs, x.newPlug(i, pp, true))
	}
	for i, pp := range c.Plugins {
		x.plugs = append(x.plugs, x.newPlug(i, pp, false))
	}
	x.crecs = make([][]Creation, len(c.Creators))
	cur.Store(x)
	x.reqTimeout = pkgReqTimeout
	if c.ReqTimeoutMs > 0 {
		x.reqTimeout = time.Duration(c.ReqTimeoutMs) * time.Millisecond
	}
	adaptation.SetPluginRequestTimeout(x.reqTimeout)

	// The adaptation is created here and started below, so that a plan can take its first
	// sync block before Start() (fx.NewRuntime starts at once; fx.Runtime is only used for its
	// Probe and Stop helpers).
	dir := fx.ShortDir()
	r := &fx.Runtime{Dir: dir, Socket: filepath.Join(dir, "nri.sock")}
	a, err := adaptation.New("verif", "0.0", x.syncFn,
		func(context.Context, []*api.ContainerUpdate) ([]*api.ContainerUpdate, error) { return nil, nil },
		adaptation.WithSocketPath(r.Socket),
		adaptation.WithPluginPath(filepath.Join(dir, "plugins")),
		adaptation.WithPluginConfigPath(filepath.Join(dir, "conf.d")))
	if err != nil {
		os.RemoveAll(dir)
		adaptation.SetPluginRequestTimeout(pkgReqTimeout)
		cur.CompareAndSwap(x, nil)
		return result{infra: "cannot create the adaptation: " + err.Error()}
	}
	r.A = a
	x.r = r

	hist := History{Attempt: attempt, Hooks: verifhook.Enabled}
	stuck, stuckFor := false, time.Duration(0)
	var timeFail string
	contentFail := false // a history invariant is already known to be violated: skip what only costs time

	teardown := func() {
		x.mu.Lock()
		x.tearing = true
		x.mu.Unlock()
		x.stopNoise.Store(true)
		// The adaptation goes first: closing the listener also fails the Start calls of plugins
		// still queued behind a blocked accept loop. A wedged adaptation is abandoned after 10 s
		// (its goroutines leak, fx removes the scratch directory when Stop gets through).
		done := make(chan struct{})
		go func() { defer close(done); r.Stop() }()
		select {
		case <-done:
		case <-time.After(10 * time.Second):
		}
		var swg sync.WaitGroup
		for _, pl := range x.plugs {
			if pl.launched.Load() {
				swg.Add(1)
				go func(pl *plug) {
					defer swg.Done()
					<-pl.started // Start returns at the latest when the stub's registration timeout expires
					if pl.p.Stub != nil {
						pl.p.Stub.Stop()
					}
				}(pl)
			}
		}
		sdone := make(chan struct{})
		go func() { swg.Wait(); close(sdone) }()
		select {
		case <-sdone:
		case <-time.After(2 * time.Second):
		}
		adaptation.SetPluginRequestTimeout(pkgReqTimeout)
		cur.CompareAndSwap(x, nil)
	}
	defer teardown()

	// --- the first block may be taken before Start() ------------------------------------------
	var pre *adaptation.PluginSyncBlock
	if c.PreStart != nil {
		pre = a.BlockPluginSync()
		x.held.Add(1)
	}
	x.starting.Store(true)
	err = a.Start()
	x.starting.Store(false)
	if err != nil {
		if pre != nil {
			x.held.Add(-1)
			pre.Unblock()
		}
		return result{infra: "cannot start the adaptation: " + err.Error()}
	}
	preDone := make(chan struct{})
	if pre == nil {
		close(preDone)
	} else {
		go func() {
			defer close(preDone)
			time.Sleep(time.Duration(c.PreStart.HoldMs) * time.Millisecond)
			if c.PreStart.Create {
				// one creation the way the property prescribes, inside the block taken before Start()
				id := "prestart"
				pod := x.nextPod()
				ctr := newCtr(id, pod.Id, 0)
				rec := Creation{ID: id, Creator: -2, TReq: 0, TAcq: 0}
				create := func() {
					rec.TCall = x.now()
					if _, err := a.CreateContainer(context.Background(), &api.CreateContainerRequest{Pod: pod, Container: ctr}); err != nil {
						rec.Err = err.Error()
						x.infraf("CreateContainer(%s) failed: %v", id, err)
					}
					rec.TRet = x.now()
				}
				if c.PreStart.AddFirst {
					x.add(ctr)
					rec.TAdd = x.now()
					create()
				} else {
					create()
					x.add(ctr)
					rec.TAdd = x.now()
				}
				x.mu.Lock()
				x.preRec = &rec
				x.mu.Unlock()
			}
			if n := x.inSync.Load(); n != 0 {
				x.finding("sync-at-release", "a plugin was being synchronized (SyncFn in progress) while the sync block taken before Start() was still held")
			}
			x.held.Add(-1)
			pre.Unblock()
			x.tPreRel.Store(x.now())
		}()
	}

	// --- residents: registered one after the other, active before any creator starts -------
	for _, pl := range x.plugs {
		if !pl.resident {
			continue
		}
		pl.launched.Store(true)
		pl.start(x)
		if pl.startErr != "" {
			continue
		}
		if miss, fenced := x.waitActive([]*plug{pl}, time.Now().Add(activeBound)); len(miss) != 0 && fenced && x.notActivated(miss) {
			contentFail = true
		} else if len(miss) != 0 && timeFail == "" {
			timeFail = fmt.Sprintf("resident plugin %s did not become active within %v although no sync block was held", pl.name, activeBound)
		}
	}
	x.target = int64(len(c.Residents) + len(c.Plugins))
	// residents that failed to start never reach SyncFn
	for _, pl := range x.plugs {
		if pl.resident && pl.startErr != "" {
			x.finished.Add(1)
		}
	}

	// --- creators, registrations, noise ----------------------------------------------------
	var nwg sync.WaitGroup
	if timeFail == "" && !contentFail {
		for i := 0; i < c.Noise; i++ {
			nwg.Add(1)
			go func(i int) { defer nwg.Done(); x.noise(i) }(i)
		}
		var wg sync.WaitGroup
		x.launchAt(0)
		for i, cp := range c.Creators {
			wg.Add(1)
			go func(i int, cp CreatorPlan) { defer wg.Done(); x.creator(i, cp) }(i, cp)
		}
		cdone := make(chan struct{})
		go func() { wg.Wait(); close(cdone) }()
		last, lastT := x.progress.Load(), time.Now()
	wait:
		for {
			select {
			case <-cdone:
				break wait
			case <-time.After(50 * time.Millisecond):
				if p := x.progress.Load(); p != last {
					last, lastT = p, time.Now()
				} else if idle := time.Since(lastT); idle > stuckBound ||
					(idle > activeBound && x.held.Load() == 0 && (x.unsynced() != "" || x.inSync.Load() == 0)) {
					// No creation has finished for `idle`: no block was released in that time, and with
					// held == 0 none is held, so no block has been held for `idle`. With a registration
					// still pending after activeBound the time clause has failed; otherwise the flat
					// watchdog applies.
					stuck, stuckFor = true, idle.Round(time.Second)
					break wait
				}
			}
		}
	}
	select { // the block taken before Start() is released by now (it lasts at most HoldMs after Start)
	case <-preDone:
		x.mu.Lock()
		if x.preRec != nil {
			x.crecs = append(x.crecs, []Creation{*x.preRec})
		}
		x.mu.Unlock()
	case <-time.After(activeBound):
		stuck, stuckFor = true, activeBound
	}
	hist.TLastRel = x.now()
	tLast := time.Now()
	x.stopNoise.Store(true)

	// --- time clause: once the last block is released pending registrations complete --------
	var pending []*plug
	for _, pl := range x.plugs {
		if !pl.resident && pl.launched.Load() && pl.plan.Leave == 0 {
			pending = append(pending, pl)
		}
	}
	// A plugin that went away before or during its synchronization accounts for one failed
	// synchronization (nothing is owed to it); any further one is the runtime's doing.
	x.mu.Lock()
	okReg := map[string]bool{}
	for _, rg := range x.regs {
		if rg.Err == "" && rg.TReturn != 0 {
			okReg[rg.Plugin] = true
		}
	}
	gone := 0
	for _, pl := range x.plugs {
		if pl.leaving.Load() && !okReg[pl.name] {
			gone++
		}
	}
	syncFail := ""
	if len(x.quickFails) > gone {
		syncFail = x.quickFails[gone]
		if gone > 0 {
			syncFail += fmt.Sprintf(" (%d earlier failure(s) are attributed to the %d plugin(s) that left)", gone, gone)
		}
	}
	x.mu.Unlock()
	if timeFail == "" && syncFail != "" {
		// that registration will never complete: no point in waiting activeBound for it
		timeFail = syncFail
	}
	if timeFail == "" {
		if stuck {
			// Creators are blocked inside BlockPluginSync / CreateContainer and made no progress
			// for stuckBound. The harness holds held.Load() blocks (those inside CreateContainer).
			hist.Stacks = stacks()
			// The adaptation may be wedged, so no probe is sent; a registration that has not even
			// been synchronized (its SyncFn call has not returned) has certainly not completed.
			if name := x.unsynced(); x.held.Load() == 0 && name != "" {
				timeFail = fmt.Sprintf("no sync block has been held for %v (every creator is waiting inside BlockPluginSync) and the pending registration of plugin %s still has not been synchronized", stuckFor, name)
			} else if x.held.Load() == 0 && x.inSync.Load() == 0 {
				// Sync blocks only ever wait for a registration in its exclusive section; with no block
				// held and no plugin being synchronized that section must end ("pending registrations
				// complete"), so BlockPluginSync must return.
				timeFail = fmt.Sprintf("no sync block has been held and no plugin has been synchronized for %v, yet no creator's BlockPluginSync has returned (%d plugin(s) left earlier)", stuckFor, x.leftCount())
			}
		} else {
			var ok []*plug
			for _, pl := range pending {
				select {
				case <-pl.started:
				case <-time.After(time.Until(tLast.Add(activeBound))):
				}
				select {
				case <-pl.started:
					if pl.startErr == "" {
						ok = append(ok, pl)
					}
				default:
					timeFail = fmt.Sprintf("plugin %s: Start did not return within %v after the last sync block was released", pl.name, activeBound)
				}
			}
			if timeFail == "" {
				if miss, fenced := x.waitActive(ok, tLast.Add(activeBound)); len(miss) != 0 && fenced && x.notActivated(miss) {
					contentFail = true
				} else if len(miss) != 0 {
					timeFail = fmt.Sprintf("plugin %s did not become active within %v after the last sync block was released (Start returned at %d µs, last release at %d µs)", miss[0].name, activeBound, miss[0].tStarted, hist.TLastRel)
				}
			}
		}
	}
	if !stuck {
		nwg.Wait()
	}

	// --- a final creation, after every registration completed: active plugins must get it ---
	if timeFail == "" && !stuck && !contentFail {
		rec, _, _ := x.createOne(-1, "final", CreatorPlan{AddFirst: true, Hold: -1, Unblocks: 1}, nil, false, 0)
		x.crecs = append(x.crecs, []Creation{rec})
	}

	// --- judge -----------------------------------------------------------------------------
	ev.Get("C08").AddExtra("extra_unblock_calls", int(x.extraUnblocks.Load()))
	x.mu.Lock()
	infra := append([]string(nil), x.infra...)
	regs := make([]Reg, len(x.regs))
	for i, rg := range x.regs {
		regs[i] = *rg
	}
	hits := append([]HookHit(nil), x.hookHits...)
	x.mu.Unlock()

	for i := range regs {
		rg := &regs[i]
		if rg.HeldEntry != 0 || rg.HeldSnap != 0 || rg.HeldReturn != 0 {
			x.finding("held-at-snapshot", "registration #%d (%s): the runtime's SyncFn ran while the harness held sync blocks (entry %d, snapshot %d, return %d)", rg.Ord, rg.Plugin, rg.HeldEntry, rg.HeldSnap, rg.HeldReturn)
		}
	}

	// the store: every id exactly once (the harness' own bookkeeping)
	x.storeMu.Lock()
	ids := make([]string, len(x.store))
	for i, ctr := range x.store {
		ids[i] = ctr.Id
	}
	x.storeMu.Unlock()
	hist.StoreN = len(ids)

	judgeXOR := len(infra) == 0 && !stuck && syncFail == ""
	offending := map[string]bool{}
	for _, pl := range x.plugs {
		pl.mu.Lock()
		ph := PlugHist{Name: pl.name, Resident: pl.resident,
			Active: pl.probes > 0, TActive: pl.tActive, SyncCalls: pl.syncCalls, SnapN: len(pl.snap), CreatedN: len(pl.created), Closed: pl.closed}
		ph.Leave = pl.plan.Leave
		if pl.leaving.Load() {
			ph.TLeft = pl.tLeft.Load()
		}
		if ph.Active && judgeXOR && pl.plan.Leave == 0 {
			for _, id := range ids {
				s, cr := pl.snap[id], pl.created[id]
				switch {
				case s == 0 && cr == 0:
					ph.Neither = append(ph.Neither, id)
				case s > 0 && cr > 0:
					ph.Both = append(ph.Both, id)
				case s+cr > 1:
					ph.Dup = append(ph.Dup, id)
				}
			}
		}
		pl.mu.Unlock()
		select {
		case <-pl.started:
			ph.TStart, ph.TStarted, ph.StartErr = pl.tStart, pl.tStarted, pl.startErr
		default:
		}
		for _, l := range [][]string{ph.Neither, ph.Both, ph.Dup} {
			for i, id := range l {
				if i < 8 {
					offending[id] = true
				}
			}
		}
		if n := len(ph.Neither); n > 0 {
			x.finding("neither", "plugin %s completed registration but never learned of %d container(s) of the runtime's store, e.g. %s: not in its snapshot (%d ids) and no CreateContainer request", pl.name, n, ph.Neither[0], ph.SnapN)
		}
		if n := len(ph.Both); n > 0 {
			x.finding("both", "plugin %s learned of %d container(s) twice, e.g. %s: in its snapshot and as a CreateContainer request", pl.name, n, ph.Both[0])
		}
		if n := len(ph.Dup); n > 0 {
			x.finding("dup", "plugin %s received %d container(s) more than once, e.g. %s", pl.name, n, ph.Dup[0])
		}
		ph.Neither, ph.Both, ph.Dup = head(ph.Neither, 20), head(ph.Both, 20), head(ph.Dup, 20)
		hist.Plugins = append(hist.Plugins, ph)
	}

	// overlap per registration (non-triviality), from timestamps
	nRes := len(c.Residents)
	overlapped, totalOverlap := 0, 0
	for i := range regs {
		rg := &regs[i]
		rg.ExclFrom, rg.ExclTo = rg.TEntry, rg.TReturn
		for _, h := range hits {
			if h.Ord == rg.Ord {
				if h.T0 < rg.ExclFrom && h.Point == 0 {
					rg.ExclFrom = h.T0
				}
				if h.T1 > rg.ExclTo && h.Point == 2 {
					rg.ExclTo = h.T1 // the point lies before finishedPluginSync: the section lasts at least until the callback returns
				}
			}
		}
		for _, cr := range x.crecs {
			for _, rec := range cr {
				if rec.TReq < rg.ExclTo && rec.TAcq > rg.ExclFrom {
					rg.Overlap++
				}
			}
		}
		if rg.Ord >= nRes && rg.Overlap > 0 {
			overlapped++
			totalOverlap += rg.Overlap
		}
	}
	hist.Regs = regs
	if os.Getenv("VERIF_C08_DEBUG") != "" {
		fmt.Fprintf(os.Stderr, "DEBUG tLastRel=%d judgeAt=%d timeFail=%q stuck=%v\n", hist.TLastRel, x.now(), timeFail, stuck)
		for _, rg := range regs {
			fmt.Fprintf(os.Stderr, "DEBUG reg %+v\n", rg)
		}
		for _, pl := range x.plugs {
			fmt.Fprintf(os.Stderr, "DEBUG plug %s leave=%d left=%d started=%d snap=%d\n", pl.name, pl.plan.Leave, pl.tLeft.Load(), x.startedAt(pl.name), len(pl.snap))
		}
	}
	hist.HookHits = hits
	for _, cr := range x.crecs {
		hist.PerCreator = append(hist.PerCreator, len(cr))
	}

	x.mu.Lock()
	findings := append([]string(nil), x.findings...)
	x.mu.Unlock()
	sort.Strings(findings)
	hist.Findings = findings

	fill := func() {
		// creations worth keeping: offending ids, and those touching an exclusive section ±1 ms
		n := 0
		for _, cr := range x.crecs {
			for _, rec := range cr {
				keep := offending[rec.ID] || rec.Err != ""
				if !keep {
					for _, rg := range regs {
						if rec.TReq < rg.ExclTo+1000 && rec.TRel > rg.ExclFrom-1000 {
							keep = true
							break
						}
					}
				}
				if keep && (n < 400 || offending[rec.ID]) {
					hist.Creations = append(hist.Creations, rec)
					n++
				}
			}
		}
	}

	classes := classesOf(c, regs, nRes, overlapped, totalOverlap)
	for _, pl := range x.plugs {
		if pl.plan.Leave == 0 {
			continue
		}
		kind := [...]string{"", "pending", "in-sync", "active"}[pl.plan.Leave]
		if !pl.leaving.Load() {
			classes = append(classes, "leave:"+kind+",never-left")
			continue
		}
		classes = append(classes, "leave:"+kind)
		if st := x.startedAt(pl.name); pl.plan.Leave == leavePending && st >= 0 && !stuck {
			// configured (Start returned) and gone while a block granted before that was still held
			left := pl.tLeft.Load()
			behind := false
			for _, cr := range x.crecs {
				for _, rec := range cr {
					if rec.LongMs > 0 && rec.TAcq < st && rec.TRel > left+200 {
						behind = true
					}
				}
			}
			if behind {
				classes = append(classes, "leave:pending,behind-block")
			}
		}
	}
	{
		// plugins that stay, by identity (index + name as the runtime sees them)
		count := map[string]int{}
		resident := map[string]bool{}
		most, mixed := 0, false
		for _, pl := range x.plugs {
			if pl.plan.Leave != 0 {
				continue
			}
			key := fmt.Sprintf("%02d-%s", pl.plan.Idx, pl.p.Name)
			count[key]++
			if count[key] > 1 && resident[key] != pl.resident {
				mixed = true
			}
			resident[key] = resident[key] || pl.resident
			most = max(most, count[key])
		}
		if most >= 2 {
			classes = append(classes, "identity:twins")
		}
		if most >= 3 {
			classes = append(classes, "identity:three-of-a-kind")
		}
		if mixed {
			classes = append(classes, "identity:twin-of-resident")
		}
		if len(c.Plugins) > 0 && c.Plugins[0].Name != "" {
			classes = append(classes, "identity:shared-alphabet")
		}
	}
	if len(c.Pods) > 0 {
		isPod := map[string]bool{}
		for _, id := range c.Pods {
			isPod[id] = true
		}
		related := func(id string) bool { // a proper prefix or extension of a pod id
			for _, pid := range c.Pods {
				if id != pid && (strings.HasPrefix(id, pid) || strings.HasPrefix(pid, id)) {
					return true
				}
			}
			return false
		}
		classes = append(classes, fmt.Sprintf("ids:shared-pool,pods:%d", len(c.Pods)))
		pre, prefix, created := false, false, false
		for _, id := range c.PreIDs {
			pre = pre || isPod[id]
			prefix = prefix || (id != "" && related(id))
		}
		for _, cp := range c.Creators {
			created = created || isPod[cp.FirstID]
			prefix = prefix || (cp.FirstID != "" && related(cp.FirstID))
		}
		if pre { // a container that exists before the registrations carries the id of a pod of the snapshot
			classes = append(classes, "ids:existing-ctr=pod")
		}
		if created {
			classes = append(classes, "ids:created-ctr=pod")
		}
		if prefix {
			classes = append(classes, "ids:prefix-related")
		}
	}
	if c.PreStart != nil {
		classes = append(classes, "prestart-block")
		if rel := x.tPreRel.Load(); rel > 0 {
			for _, rg := range regs {
				// configured (Start returned) while the block taken before Start() was still held
				if st := x.startedAt(rg.Plugin); st >= 0 && st < rel && rg.Err == "" {
					classes = append(classes, "prestart-block,reg-while-held")
					break
				}
			}
		}
		if c.PreStart.Create {
			classes = append(classes, "prestart-block,creating")
		}
	}
	if len(c.PreKB) > 0 {
		dist := c.PreDist
		if dist == "" {
			dist = "explicit"
		}
		classes = append(classes, "state:big", "state:"+dist)
		split := false
		for _, rg := range regs {
			if rg.Ord >= nRes && rg.SnapBytes > 4<<20 && rg.Err == "" {
				split = true
			}
		}
		if split { // a planned registration was synchronized with a state that does not fit one message
			classes = append(classes, "state:split", "state:split,"+dist)
		}
	}
	if c.ReqTimeoutMs > 0 {
		classes = append(classes, "long-hold")
		over := 0
		for _, rg := range regs {
			if st := x.startedAt(rg.Plugin); rg.Ord >= nRes && st >= 0 && rg.TEntry-st > int64(x.reqTimeout/time.Microsecond) {
				over++
			}
		}
		if over > 0 {
			// a registration (RegisterPlugin + Configure done: Start had returned) stayed pending
			// behind sync blocks for longer than the request timeout before it was synchronized
			classes = append(classes, "long-hold,pending>timeout")
		}
	}
	out := ev.Outcome{Classes: classes, NonTrivial: overlapped > 0}
	switch {
	case len(findings) > 0:
		fill()
		out.Fail = strings.Join(findings, "; ")
		out.History = hist
		return result{out: out}
	case len(infra) > 0 && syncFail == "":
		return result{out: out, infra: strings.Join(infra, "; ")}
	case timeFail != "":
		fill()
		if hist.Stacks == "" {
			hist.Stacks = stacks()
		}
		out.History = hist
		return result{out: out, timeFail: timeFail}
	case stuck:
		return result{out: out, infra: fmt.Sprintf("creators made no progress for %v (no registration pending)", stuckFor)}
	}
	return result{out: out}
}

func head(l []string, n int) []string {
	if len(l) > n {
		return l[:n]
	}
	return l
}

func bucket(n int) string {
	switch {
	case n == 0:
		return "0"
	case n <= 3:
		return "1-3"
	case n <= 15:
		return "4-15"
	case n <= 63:
		return "16-63"
	}
	return "64+"
}

func classesOf(c C08Case, regs []Reg, nRes, overlapped, totalOverlap int) []string {
	cl := []string{
		fmt.Sprintf("p:%d", len(c.Plugins)),
		fmt.Sprintf("g:%d", len(c.Creators)),
		fmt.Sprintf("residents:%d", len(c.Residents)),
		fmt.Sprintf("noise:%d", c.Noise),
		"overlap:" + bucket(totalOverlap),
		fmt.Sprintf("overlapped-regs:%d", overlapped),
	}
	if verifhook.Enabled {
		cl = append(cl, "hooks:on")
	} else {
		cl = append(cl, "hooks:off")
	}
	af, cf := 0, 0
	for _, cp := range c.Creators {
		if cp.AddFirst {
			af++
		} else {
			cf++
		}
	}
	switch {
	case af > 0 && cf > 0:
		cl = append(cl, "order:mixed")
	case af > 0:
		cl = append(cl, "order:add-first")
	default:
		cl = append(cl, "order:create-first")
	}
	maxU, late := 1, false
	for _, cp := range c.Creators {
		if cp.Unblocks > maxU {
			maxU = cp.Unblocks
		}
		late = late || (cp.Unblocks > 1 && cp.Late)
	}
	cl = append(cl, fmt.Sprintf("unblocks-max:%d", maxU))
	if maxU > 1 && len(c.Creators) >= 2 && overlapped > 0 {
		cl = append(cl, "multi-unblock,g>=2,overlap:1+")
	}
	if late && overlapped > 0 {
		cl = append(cl, "late-unblock,overlap:1+")
	}
	if overlapped > 0 {
		cl = append(cl, "overlap:1+")
		if len(c.Creators) >= 2 {
			cl = append(cl, "overlap:1+,g>=2")
		}
		if len(c.Plugins) >= 2 {
			cl = append(cl, "overlap:1+,p>=2")
		}
	}
	if overlapped == len(c.Plugins) {
		cl = append(cl, "every-reg-overlapped")
	}
	if verifhook.Enabled {
		// which yield points of an overlapped registration carried a real delay
		seen := [3]bool{}
		for _, rg := range regs {
			if rg.Ord >= nRes && rg.Overlap > 0 && rg.Ord < len(c.Delays) {
				for j, d := range c.Delays[rg.Ord] {
					if d > 0 {
						seen[j] = true
					}
				}
			}
		}
		for j, s := range seen {
			if s {
				cl = append(cl, "delayed:"+hookNames[j])
			}
		}
	}
	return cl
}

// timeConfirmed: a time-clause violation has been confirmed in this process (see runC08).
var timeConfirmed bool

// runC08 executes the plan and applies the Overloaded protocol to the time clause.
func runC08(c C08Case) ev.Outcome {
	c = normalize(c)
	if len(c.Creators) == 0 || len(c.Plugins) == 0 {
		return ev.Outcome{Excluded: "empty-plan"}
	}
	first := execute(c, 0)
	if first.out.Fail != "" || (first.timeFail == "" && first.infra == "") {
		return first.out
	}
	if first.timeFail != "" && timeConfirmed {
		// Only reachable while rapid shrinks (or re-checks) after a time-clause violation that was
		// confirmed by 4 executions out of 4 on an earlier case of this process: the exit code is
		// already decided, candidates are judged by one execution to keep shrinking affordable.
		// A replay (new process) always goes through the full protocol below.
		o := first.out
		o.Fail = "time clause (one execution; confirmed 4 out of 4 on an earlier case of this run): " + first.timeFail
		return o
	}
	// The time clause failed, or the case could not be judged (a request or a registration
	// failed for reasons the property does not talk about): re-execute up to three times.
	ev.Get("C08").AddExtra("reexecuted", 1)
	if os.Getenv("VERIF_C08_DEBUG") != "" {
		fmt.Fprintf(os.Stderr, "DEBUG re-executing: timeFail=%q infra=%q\n", first.timeFail, first.infra)
	}
	allTime := first.timeFail != ""
	last := first
	for attempt := 1; attempt <= 3; attempt++ {
		res := execute(c, attempt)
		if res.out.Fail != "" {
			return res.out // content/history invariants do not depend on speed
		}
		if res.timeFail == "" && res.infra == "" {
			o := res.out
			o.Overloaded = true
			o.NonTrivial = false
			return o
		}
		if res.timeFail == "" {
			allTime = false
		}
		last = res
	}
	if allTime {
		timeConfirmed = true
		o := last.out
		o.Fail = "time clause, 4 executions out of 4: " + last.timeFail
		return o
	}
	o := last.out
	o.Overloaded = true
	o.NonTrivial = false
	o.Excluded = "not-judged"
	ev.Get("C08").SetExtra("last_not_judged", last.infra+last.timeFail)
	return o
}

func TestProp_C08(t *testing.T) { ev.Run(t, "C08", genC08, runC08) }

// sweepCases are directed plans: registrations that stay pending behind long sync blocks
// for 2-3 times the (shortened) plugin request timeout, and states that must be split.
func sweepCases() []C08Case {
	// After is clamped to the sum of the unconditional creations: in effect only InLong counts
	pl := func(idx int) PluginPlan { return PluginPlan{Idx: idx, After: 1 << 20, CreateUs: 5, InLong: true} }
	cr := func(addFirst bool, n, longAt, longMs int) CreatorPlan {
		return CreatorPlan{AddFirst: addFirst, N: n, Tail: 3, Hold: -1, Gap: 0, Unblocks: 1, LongAt: longAt, LongMs: longMs}
	}
	d := func(n int) [][3]int {
		var out [][3]int
		for k := 0; k < n; k++ {
			out = append(out, [3]int{0, 200, -1})
		}
		return out
	}
	var heavyHead, uniform []int
	for i := 0; i < 20; i++ {
		if i < 10 {
			heavyHead = append(heavyHead, maxCtrKB)
		} else {
			heavyHead = append(heavyHead, 1)
		}
	}
	for i := 0; i < 44; i++ {
		uniform = append(uniform, 128)
	}
	bigCr := cr(false, 4, 0, 0)
	bigCr.BigKB, bigCr.BigN = 300, 2
	idCr := cr(false, 4, 0, 0)
	idCr.FirstID = "sb"
	multi := cr(true, 4, 2, 800)
	multi.Unblocks, multi.Again, multi.Late = 3, 0, true
	cases := []C08Case{
		// one long block, one plugin registering behind it
		{Pre: 2, Creators: []CreatorPlan{cr(true, 3, 1, 900)}, Plugins: []PluginPlan{pl(10)}, Delays: d(1), ReqTimeoutMs: 300},
		// bookkeeping after the request; a second, ordinary creator; two plugins; a resident; noise
		{Pre: 1, Residents: []PluginPlan{{Idx: 5}}, Creators: []CreatorPlan{cr(false, 3, 2, 1000), cr(true, 10, 0, 0)},
			Plugins: []PluginPlan{pl(20), pl(3)}, Noise: 1, Delays: d(3), ReqTimeoutMs: 400},
		// several long blocks of different creators, granted before the registration queues up
		{Creators: []CreatorPlan{cr(true, 2, 1, 900), cr(false, 2, 1, 600), cr(true, 3, 1, 1200)},
			Plugins: []PluginPlan{pl(50)}, Noise: 2, Delays: d(1), ReqTimeoutMs: 400},
		// long block of a creator that unblocks three times, the last time inside its next block
		{Pre: 3, Creators: []CreatorPlan{multi, cr(false, 6, 0, 0)}, Plugins: []PluginPlan{pl(7), pl(8)}, Delays: d(2), ReqTimeoutMs: 350},
		// big states that must be split: 10 x 450 KiB at the head of 20 containers, and 44 x 128 KiB
		{PreKB: heavyHead, PreDist: "heavy-head", Residents: []PluginPlan{{Idx: 9}}, Creators: []CreatorPlan{cr(true, 6, 0, 0), bigCr},
			Plugins: []PluginPlan{{Idx: 30, After: 2}, {Idx: 2, After: 9}}, Noise: 1, Delays: d(3)},
		{PreKB: uniform, PreDist: "uniform", Creators: []CreatorPlan{cr(false, 8, 0, 0), cr(true, 5, 0, 0)},
			Plugins: []PluginPlan{{Idx: 11, After: 3}}, Delays: d(1)},
		// one id alphabet for pods and containers: containers named like their own pod, like
		// another pod, like a prefix / an extension of a pod id; one created with a pod's id
		{Pre: 5, Pods: []string{"sb0", "sb1", "sb"}, PreIDs: []string{"sb1", "", "sb0", "s", "sb00"}, Residents: []PluginPlan{{Idx: 4}},
			Creators: []CreatorPlan{idCr, cr(true, 5, 0, 0)}, Plugins: []PluginPlan{{Idx: 12, After: 1}, {Idx: 1, After: 6}}, Delays: d(3)},
		// several instances of one plugin (same index, same name): a resident, one registering
		// early, one late; next to same-index/other-name and same-name/other-index plugins
		{Pre: 2, Residents: []PluginPlan{{Idx: 10, Name: "logger"}}, Creators: []CreatorPlan{cr(true, 8, 0, 0), cr(false, 6, 0, 0)},
			Plugins: []PluginPlan{{Idx: 10, Name: "logger", After: 1}, {Idx: 10, Name: "tracer", After: 3}, {Idx: 20, Name: "logger", After: 5}, {Idx: 10, Name: "logger", After: 12}},
			Noise:   1, Delays: d(5)},
		// the first block is taken before Start() and kept for 150 ms with a creation inside it,
		// while a resident and a planned plugin register
		{Pre: 1, PreStart: &PreStartPlan{HoldMs: 150, Create: true, AddFirst: true}, Residents: []PluginPlan{{Idx: 15}},
			Creators: []CreatorPlan{cr(true, 6, 0, 0), cr(false, 6, 0, 0)}, Plugins: []PluginPlan{{Idx: 40, After: 0}, {Idx: 3, After: 7}}, Delays: d(3)},
		{PreStart: &PreStartPlan{HoldMs: 100, Create: true}, Creators: []CreatorPlan{cr(false, 5, 0, 0)}, Plugins: []PluginPlan{{Idx: 8, After: 0}}, Delays: d(1)},
		// a plugin that leaves during its Synchronize with a handler that outlives the runtime's
		// SyncFn call, directly followed by a plugin whose synchronization takes 20 ms: the late
		// handler exit must not be booked on the second registration (harness regression)
		{Pre: 1, Creators: []CreatorPlan{{AddFirst: true, N: 25, Tail: 3, Hold: -1, Gap: 100, Unblocks: 1}},
			Plugins: []PluginPlan{{Idx: 0, SyncUs: 6000, Leave: leaveInSync}, {Idx: 98, After: 1, SyncUs: 20000, CreateUs: 5}}, Delays: d(2)},
	}
	if ev.Thorough() {
		// the default-sized timeout of the library (2 s) with a block of 2.5 s
		cases = append(cases, C08Case{Creators: []CreatorPlan{cr(true, 2, 1, 2500)}, Plugins: []PluginPlan{pl(1)}, Delays: d(1), ReqTimeoutMs: 2000})
	}
	return cases
}

func TestExh_C08(t *testing.T) {
	if i, _ := ev.Shard(); i != 0 {
		t.Skip("sweep runs in shard 0 only")
	}
	r := ev.Get("C08")
	defer r.Flush()
	n := 0
	for _, c := range sweepCases() {
		raw := ev.Snapshot(c)
		r.Journal(raw)
		o := runC08(c)
		r.ClearJournal()
		for i, k := range o.Classes { // keep the sweep out of the generator-health histogram keys
			o.Classes[i] = "sweep/" + k
		}
		o.Classes = append([]string{"sweep"}, o.Classes...)
		r.Record(raw, o)
		n++
		r.SetExtra("sweep_cases", n)
		if o.Fail != "" {
			t.Fatalf("C08 sweep case %d: %s", n, o.Fail)
		}
	}
}
