// Package syncreg holds the check for property C08: a plugin that completes registration
// learns of every container of the runtime exactly once (state snapshot XOR creation
// request) provided the runtime creates containers inside plugin-sync blocks; while a sync
// block is held no plugin is synchronized or becomes active; once the last block is
// released pending registrations complete.
//
// Code under test: pkg/adaptation/adaptation.go — acceptPluginConnections
// (requestPluginSync, syncFn(ctx, p.synchronize), activation under the adaptation lock,
// finishedPluginSync), BlockPluginSync and PluginSyncBlock.Unblock. Everything is driven
// through the public API: an in-process Adaptation on a real unix socket (fx.Runtime), stub
// based plugins (fx.Plugin) and the harness playing the runtime (container store, SyncFn,
// creator goroutines).
package syncreg

import (
	"os"
	"testing"
	"time"

	"github.com/containerd/nri/pkg/adaptation"
	"github.com/containerd/nri/pkg/verifhook"
)

func TestMain(m *testing.M) {
	// Handlers in this package answer at once apart from drawn widening sleeps of at most
	// 2 ms. The default request timeout (2 s) would turn a badly overloaded machine into a
	// timed-out CreateContainer request, i.e. a plugin that "never received" a creation: a
	// false alarm. The only time clause of the property is judged by the harness' own 5 s
	// bound (activeBound), not by these timeouts.
	adaptation.SetPluginRegistrationTimeout(30 * time.Second)
	adaptation.SetPluginRequestTimeout(30 * time.Second)
	// The yield points of pkg/verifhook are turned into the delays of the running case's
	// plan. Without the build tag "verif" Set is a no-op and the points do not exist.
	verifhook.Set(hookPoint)
	code := m.Run()
	verifhook.Set(nil)
	os.Exit(code)
}
