package adapt

import (
	"encoding/json"
	"fmt"
	"sort"
	"strings"

	"github.com/containerd/nri/pkg/api"
	rspec "github.com/opencontainers/runtime-spec/specs-go"
)

// View is the harness' canonical picture of a container: what a plugin is shown, what the
// model predicts, and what an OCI spec contains, all reduced to the same comparable form.
type View struct {
	Ann      map[string]string   `json:"ann"`
	Env      map[string]string   `json:"env"`
	EnvDup   []string            `json:"env_dup,omitempty"` // keys occurring more than once
	Mounts   map[string]string   `json:"mounts"`            // destination -> rendered mount
	Devices  map[string]string   `json:"devices"`           // path -> rendered device
	Args     []string            `json:"args"`
	Hooks    map[string][]string `json:"hooks"`   // list -> hook paths, in order
	Rlimits  []string            `json:"rlimits"` // "type:hard:soft", in order
	Res      map[string]string   `json:"res"`     // resource field -> value text (hugepages last-wins)
	ResDup   bool                `json:"-"`
	origArgs []string            // the runtime's command line (what a bare override marker restores)
	Cgroups  string              `json:"cgroups"`
	Oom      string              `json:"oom"`
	MountDup []string            `json:"mount_dup,omitempty"`
	DevDup   []string            `json:"dev_dup,omitempty"`
}

func newView() View {
	return View{Ann: map[string]string{}, Env: map[string]string{}, Mounts: map[string]string{}, Devices: map[string]string{},
		Hooks: map[string][]string{}, Res: map[string]string{}, Args: []string{}, Rlimits: []string{}}
}

func (v View) String() string { b, _ := json.Marshal(v); return string(b) }

func (v View) clone() View {
	var o View
	b, _ := json.Marshal(v)
	_ = json.Unmarshal(b, &o)
	o.ResDup = v.ResDup
	o.origArgs = v.origArgs
	return o
}

func fmtMount(dst, typ, src string, opts []string) string {
	return fmt.Sprintf("%s|%s|%s|%s", dst, typ, src, strings.Join(opts, ","))
}

func fmtDevice(path, typ string, major, minor int64, mode *uint32, uid, gid *uint32) string {
	p := func(x *uint32) string {
		if x == nil {
			return "-"
		}
		return fmt.Sprint(*x)
	}
	return fmt.Sprintf("%s|%s|%d:%d|%s|%s|%s", path, typ, major, minor, p(mode), p(uid), p(gid))
}

func fmtRlimit(t string, h, s uint64) string { return fmt.Sprintf("%s:%d:%d", t, h, s) }

// viewOfContainer renders an api.Container (what a plugin received).
func viewOfContainer(ct *api.Container) View {
	v := newView()
	for k, val := range ct.GetAnnotations() {
		v.Ann[k] = val
	}
	for _, e := range ct.GetEnv() {
		k, val, _ := strings.Cut(e, "=")
		if _, ok := v.Env[k]; ok {
			v.EnvDup = append(v.EnvDup, k)
		}
		v.Env[k] = val
	}
	for _, m := range ct.GetMounts() {
		if _, ok := v.Mounts[m.Destination]; ok {
			v.MountDup = append(v.MountDup, m.Destination)
		}
		v.Mounts[m.Destination] = fmtMount(m.Destination, m.Type, m.Source, m.Options)
	}
	for _, d := range ct.GetLinux().GetDevices() {
		if _, ok := v.Devices[d.Path]; ok {
			v.DevDup = append(v.DevDup, d.Path)
		}
		var mode, uid, gid *uint32
		if d.FileMode != nil {
			mode = &d.FileMode.Value
		}
		if d.Uid != nil {
			uid = &d.Uid.Value
		}
		if d.Gid != nil {
			gid = &d.Gid.Value
		}
		v.Devices[d.Path] = fmtDevice(d.Path, d.Type, d.Major, d.Minor, mode, uid, gid)
	}
	v.Args = append(v.Args, ct.GetArgs()...)
	if h := ct.GetHooks(); h != nil {
		for _, l := range hookKeys {
			for _, hk := range *hookList(h, l) {
				v.Hooks[l] = append(v.Hooks[l], hk.Path)
			}
		}
	}
	for _, r := range ct.GetRlimits() {
		v.Rlimits = append(v.Rlimits, fmtRlimit(r.Type, r.Hard, r.Soft))
	}
	v.Res, v.ResDup = resFields(ct.GetLinux().GetResources())
	v.Cgroups = ct.GetLinux().GetCgroupsPath()
	if o := ct.GetLinux().GetOomScoreAdj(); o != nil {
		v.Oom = fmt.Sprint(o.Value)
	}
	return v
}

var bioClasses = []string{"bio-rt", "bio-p0", "bio-p1", "bio-p2", "bio-p3", "bio-p4"}

// viewOfSpec renders an OCI spec.
func viewOfSpec(s *rspec.Spec) View {
	v := newView()
	for k, val := range s.Annotations {
		v.Ann[k] = val
	}
	if p := s.Process; p != nil {
		for _, e := range p.Env {
			k, val, _ := strings.Cut(e, "=")
			if _, ok := v.Env[k]; ok {
				v.EnvDup = append(v.EnvDup, k)
			}
			v.Env[k] = val
		}
		v.Args = append(v.Args, p.Args...)
		for _, r := range p.Rlimits {
			v.Rlimits = append(v.Rlimits, fmtRlimit(r.Type, r.Hard, r.Soft))
		}
		if p.OOMScoreAdj != nil {
			v.Oom = fmt.Sprint(*p.OOMScoreAdj)
		}
	}
	for _, m := range s.Mounts {
		if _, ok := v.Mounts[m.Destination]; ok {
			v.MountDup = append(v.MountDup, m.Destination)
		}
		v.Mounts[m.Destination] = fmtMount(m.Destination, m.Type, m.Source, m.Options)
	}
	if h := s.Hooks; h != nil {
		add := func(l string, hs []rspec.Hook) {
			for _, hk := range hs {
				v.Hooks[l] = append(v.Hooks[l], hk.Path)
			}
		}
		add("prestart", h.Prestart)
		add("createRuntime", h.CreateRuntime)
		add("createContainer", h.CreateContainer)
		add("startContainer", h.StartContainer)
		add("poststart", h.Poststart)
		add("poststop", h.Poststop)
	}
	if l := s.Linux; l != nil {
		for _, d := range l.Devices {
			if _, ok := v.Devices[d.Path]; ok {
				v.DevDup = append(v.DevDup, d.Path)
			}
			var mode *uint32
			if d.FileMode != nil {
				m := uint32(*d.FileMode)
				mode = &m
			}
			v.Devices[d.Path] = fmtDevice(d.Path, d.Type, d.Major, d.Minor, mode, d.UID, d.GID)
		}
		v.Cgroups = l.CgroupsPath
		if r := l.Resources; r != nil {
			cp := *r
			cp.Devices = nil
			v.Res, v.ResDup = resFields(api.FromOCILinuxResources(&cp, nil))
			if r.BlockIO != nil && r.BlockIO.Weight != nil && int(*r.BlockIO.Weight) <= len(bioClasses) && *r.BlockIO.Weight > 0 {
				v.Res["blockio"] = bioClasses[*r.BlockIO.Weight-1]
			}
		}
		if l.IntelRdt != nil {
			v.Res["rdt"] = l.IntelRdt.ClosID
		}
	}
	return v
}

// item identifies something a plugin can own on a container.
type item struct{ target, fam, key string }

func (i item) String() string { return i.target + ":" + i.fam + "/" + i.key }

// Expect is what the reference model predicts for a case.
type Expect struct {
	Fatal       string // "", "conflict", "selfupdate"
	FatalDesc   string
	FatalAt     int    // chain position whose response is rejected
	FatalFam    string // family of the first collision (class key)
	FatalKey    string // its key (adjustment path)
	SelfDups    int    // ignore-failure updates dropped because they list one hugepage size twice
	FatalPath   string // "adjust" | "update"
	FatalDist   int    // chain distance between the colliding plugins
	FatalTgt    string // target kind of the collision (SELF / T*)
	Hazard      string // non-empty: shape whose outcome the properties do not fix
	SpellingMix bool   // the case uses two spellings of one mount destination ("/m2" and "/m2/")
	Views       []View // create: view shown to chain position i (valid for i <= FatalAt)
	ReqRes      []map[string]string
	Final       View
	AdjRes      map[string]string // expected combined adjustment resources (field -> value)
	AdjOwner    map[string]int
	CDI         []string
	Updates     map[string]map[string]string // target sym -> committed field -> value
	Touched     map[string]bool              // targets named by any update (even dropped / empty)
	Dropped     int
	Releases    int // releases (lone or reset) of an item owned by another plugin
	LoneDelOrig int
	LoneDelPlug int
	Resets      int
	Appenders   map[string]int // hook/rlimit/cdi families: number of plugins appending
	Contrib     int            // plugins contributing to the adjustment
}

// applyOpsToView applies one plugin's ops to a view (documented semantics: removals first,
// then sets; hooks/rlimits append; CDI devices are not part of the view).
func applyOpsToView(v *View, s Script) {
	w := s.Plugin + 1
	for _, op := range s.Ops {
		if op.Act != "del" && op.Act != "reset" {
			continue
		}
		switch op.Fam {
		case "ann":
			delete(v.Ann, op.Key)
		case "env":
			delete(v.Env, op.Key)
		case "mount":
			delete(v.Mounts, op.Key)
		case "dev":
			delete(v.Devices, op.Key)
		case "args":
			if op.Act == "del" {
				// nothing set again: the command line is the runtime's once more
				v.Args = append([]string{}, v.origArgs...)
			}
		}
	}
	for _, op := range s.Ops {
		if op.Act == "del" {
			continue
		}
		w := famW(op.Fam, op.ValOf, w, true)
		switch op.Fam {
		case "ann":
			v.Ann[op.Key] = strVal(w, "ann", op.Key)
		case "env":
			v.Env[op.Key] = strVal(w, "env", op.Key)
		case "mount":
			m := mkMount(w, op.Key)
			v.Mounts[op.Key] = fmtMount(m.Destination, m.Type, m.Source, m.Options)
		case "dev":
			d := mkDevice(w, op.Key)
			v.Devices[op.Key] = fmtDevice(d.Path, d.Type, d.Major, d.Minor, &d.FileMode.Value, &d.Uid.Value, nil)
		case "cdi":
		case "rlimit":
			r := mkRlimit(w, op.Key)
			v.Rlimits = append(v.Rlimits, fmtRlimit(r.Type, r.Hard, r.Soft))
		case "huge":
			v.Res["huge/"+op.Key] = expectedResValue("huge/"+op.Key, w)
		case "unified":
			v.Res["unified/"+op.Key] = expectedResValue("unified/"+op.Key, w)
		case "args":
			v.Args = mkArgs(w)
		case "hook":
			v.Hooks[op.Key] = append(v.Hooks[op.Key], mkHook(w, op.Key).Path)
		case "cgroups":
			v.Cgroups = cgPath(w)
		case "oom":
			v.Oom = fmt.Sprint(oomVal(w))
		default:
			v.Res[op.Fam] = expectedResValue(op.Fam, w)
		}
	}
}

// Predict runs the reference model over a case.
func Predict(c Case) *Expect {
	e := &Expect{FatalAt: -1, AdjRes: map[string]string{}, AdjOwner: map[string]int{}, Updates: map[string]map[string]string{},
		Touched: map[string]bool{}, Appenders: map[string]int{}}
	owner := map[item]int{}    // item -> chain position of the owner
	tainted := map[item]bool{} // fields named by a dropped ignore-failure update
	var view View
	if c.Kind == "create" {
		view = viewOfContainer(origContainer(c, "x"))
		view.origArgs = append([]string{}, view.Args...)
	}
	req := map[string]string{}
	if c.Kind == "update" {
		req, _ = resFields(reqResources(c))
	}
	origHas := func(fam, key string) bool {
		switch fam {
		case "ann":
			return has(c.Orig.Ann, key)
		case "env":
			return has(c.Orig.Env, key)
		case "mount":
			return has(c.Orig.Mounts, key)
		case "dev":
			return has(c.Orig.Devices, key)
		}
		return false
	}
	fatal := func(kind, desc string, at int) {
		if e.Fatal == "" {
			e.Fatal, e.FatalDesc, e.FatalAt = kind, desc, at
		}
	}
	// two spellings of one directory: whether they name "the same mount destination" is not
	// fixed by the properties (the code compares destinations as written)
	plain, slash := has(c.Orig.Mounts, "/m2"), has(c.Orig.Mounts, "/m2/")
	for _, s := range c.Chain {
		for _, op := range s.Ops {
			if op.Fam == "mount" {
				plain = plain || op.Key == "/m2"
				slash = slash || op.Key == "/m2/"
			}
		}
	}
	e.SpellingMix = plain && slash
	for pos, s := range c.Chain {
		if e.Fatal != "" {
			break
		}
		if c.Kind == "create" {
			e.Views = append(e.Views, view.clone())
		} else if c.Kind == "update" {
			cp := map[string]string{}
			for k, v := range req {
				cp[k] = v
			}
			e.ReqRes = append(e.ReqRes, cp)
		}
		w := s.Plugin + 1
		// ---- adjustment: releases first --------------------------------------------------
		contributed := false
		for _, op := range s.Ops {
			contributed = true
			if op.Act == "del" || (op.Act == "reset" && op.Fam != "args") || (op.Act == "reset" && op.Fam == "args") {
				it := item{"SELF", op.Fam, op.Key}
				if o, ok := owner[it]; ok {
					if o != pos {
						e.Releases++
					}
					delete(owner, it)
					if op.Act == "del" {
						e.LoneDelPlug++
					}
				} else if op.Act == "del" && origHas(op.Fam, op.Key) {
					e.LoneDelOrig++
				}
				if op.Act == "reset" {
					e.Resets++
				}
			}
		}
		if contributed {
			e.Contrib++
		}
		// ---- adjustment: sets -------------------------------------------------------------
		for _, op := range s.Ops {
			if op.Act == "del" {
				continue
			}
			switch op.Fam {
			case "hook":
				e.Appenders["hook/"+op.Key]++
				continue
			}
			it := item{"SELF", op.Fam, op.Key}
			if o, ok := owner[it]; ok && o != pos {
				e.FatalFam, e.FatalPath, e.FatalDist, e.FatalTgt = op.Fam, "adjust", pos-o, "SELF"
				e.FatalKey = op.Key
				fatal("conflict", fmt.Sprintf("plugins at chain positions %d and %d both set %s", o, pos, it), pos)
				break
			}
			owner[it] = pos
			w := famW(op.Fam, op.ValOf, w, true)
			switch op.Fam {
			case "rlimit":
				e.Appenders["rlimit"]++
			case "cdi":
				e.Appenders["cdi"]++
				e.CDI = append(e.CDI, op.Key)
			case "huge", "unified":
				f := op.Fam + "/" + op.Key
				e.AdjRes[f] = expectedResValue(f, w)
				e.AdjOwner[f] = pos
			case "ann", "env", "mount", "dev", "args", "cgroups", "oom":
			default:
				e.AdjRes[op.Fam] = expectedResValue(op.Fam, w)
				e.AdjOwner[op.Fam] = pos
			}
		}
		if e.Fatal != "" {
			break
		}
		if c.Kind == "create" {
			applyOpsToView(&view, s)
		}
		// ---- updates ------------------------------------------------------------------------
		for _, u := range s.Updates {
			if c.Kind == "create" && u.Target == "SELF" {
				e.FatalFam, e.FatalPath, e.FatalTgt = "selfupdate", "update", "SELF"
				fatal("selfupdate", fmt.Sprintf("chain position %d updates the container being created", pos), pos)
				break
			}
			e.Touched[u.Target] = true
			if u.NoRes {
				continue
			}
			// resource items of a container are shared between adjustment and update paths
			// only for the created container, which updates cannot name; so the ledger for
			// updates is per target.
			conflictField := ""
			conflictOwner := 0
			for _, f := range u.Fields {
				it := item{u.Target, "res", f}
				if o, ok := owner[it]; ok && o != pos {
					// owned by an earlier plugin's committed update: a conflict whatever a
					// dropped update in between may have left behind
					conflictField, conflictOwner = f, o
					break
				}
				if tainted[it] {
					e.Hazard = "partial_claim"
				}
			}
			if conflictField == "" && u.SelfDup && u.Ignore && hugeField(u) != "" {
				conflictField, conflictOwner = hugeField(u), pos
				e.SelfDups++
			}
			if conflictField != "" {
				if u.Ignore {
					e.Dropped++
					for _, f := range u.Fields {
						tainted[item{u.Target, "res", f}] = true
					}
					continue
				}
				fam := conflictField
				if i := strings.IndexByte(fam, '/'); i > 0 {
					fam = fam[:i]
				}
				e.FatalFam, e.FatalPath, e.FatalDist, e.FatalTgt = fam, "update", pos-conflictOwner, u.Target
				fatal("conflict", fmt.Sprintf("plugins at chain positions %d and %d both set %s of %s", conflictOwner, pos, conflictField, u.Target), pos)
				break
			}
			if e.Updates[u.Target] == nil {
				e.Updates[u.Target] = map[string]string{}
			}
			for _, f := range u.Fields {
				owner[item{u.Target, "res", f}] = pos
				val := expectedResValue(f, famW(fieldFam(f), u.ValOf, w, false))
				e.Updates[u.Target][f] = val
				if c.Kind == "update" && u.Target == "SELF" {
					req[f] = val
				}
			}
		}
	}
	if c.Kind == "create" {
		e.Final = view
	}
	return e
}

func sortedKeys[V any](m map[string]V) []string {
	k := make([]string, 0, len(m))
	for s := range m {
		k = append(k, s)
	}
	sort.Strings(k)
	return k
}

// diffMaps describes the difference between two string maps ("" if equal).
func diffMaps(what string, got, want map[string]string) string {
	var d []string
	for _, k := range sortedKeys(want) {
		if g, ok := got[k]; !ok {
			d = append(d, fmt.Sprintf("%s[%s] missing (want %q)", what, k, want[k]))
		} else if g != want[k] {
			d = append(d, fmt.Sprintf("%s[%s] = %q want %q", what, k, g, want[k]))
		}
	}
	for _, k := range sortedKeys(got) {
		if _, ok := want[k]; !ok {
			d = append(d, fmt.Sprintf("%s[%s] = %q unexpected", what, k, got[k]))
		}
	}
	return strings.Join(d, "; ")
}

func diffLists(what string, got, want []string) string {
	if len(got) == 0 && len(want) == 0 {
		return ""
	}
	if strings.Join(got, "\x00") != strings.Join(want, "\x00") {
		return fmt.Sprintf("%s = %q want %q", what, got, want)
	}
	return ""
}

// diffViews compares two views; fields restricts the resource fields compared (nil = all).
func diffViews(got, want View, resFilter func(string) bool) string {
	var d []string
	add := func(s string) {
		if s != "" {
			d = append(d, s)
		}
	}
	add(diffMaps("annotation", got.Ann, want.Ann))
	add(diffMaps("env", got.Env, want.Env))
	if len(got.EnvDup) > 0 {
		add(fmt.Sprintf("duplicate env keys %v", got.EnvDup))
	}
	add(diffMaps("mount", got.Mounts, want.Mounts))
	if len(got.MountDup) > 0 {
		add(fmt.Sprintf("duplicate mount destinations %v", got.MountDup))
	}
	add(diffMaps("device", got.Devices, want.Devices))
	if len(got.DevDup) > 0 {
		add(fmt.Sprintf("duplicate device paths %v", got.DevDup))
	}
	add(diffLists("args", got.Args, want.Args))
	for _, l := range hookKeys {
		add(diffLists("hooks."+l, got.Hooks[l], want.Hooks[l]))
	}
	add(diffLists("rlimits", got.Rlimits, want.Rlimits))
	g, w := got.Res, want.Res
	if resFilter != nil {
		g, w = map[string]string{}, map[string]string{}
		for k, v := range got.Res {
			if resFilter(k) {
				g[k] = v
			}
		}
		for k, v := range want.Res {
			if resFilter(k) {
				w[k] = v
			}
		}
	}
	add(diffMaps("resources", g, w))
	if got.Cgroups != want.Cgroups {
		add(fmt.Sprintf("cgroups path = %q want %q", got.Cgroups, want.Cgroups))
	}
	if got.Oom != want.Oom {
		add(fmt.Sprintf("oom score adj = %q want %q", got.Oom, want.Oom))
	}
	return strings.Join(d, "; ")
}
