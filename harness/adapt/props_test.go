package adapt

import (
	"os"
	"testing"

	"pgregory.net/rapid"

	"nriverif/ev"
)

var allKinds = []string{"create", "create", "update", "stop"}

var biases = map[string]Bias{
	"C01": {Kinds: allKinds, Collide: 75, Release: 15, Populated: 20, Updates: 45, IgnoreFlags: 10, NearMiss: 10, MaxPar: 4},
	"C02": {Kinds: allKinds, Collide: 0, Release: 45, Populated: 50, Updates: 50, IgnoreFlags: 0, NearMiss: 50, MaxPar: 1, ReleaseBehindDrop: 15},
	"C03": {Kinds: []string{"create"}, Collide: 0, Release: 50, Populated: 30, Updates: 10, IgnoreFlags: 0, Append: 35, NearMiss: 15, MaxPar: 1},
	"C04": {Kinds: []string{"create", "create", "update"}, Collide: 5, Release: 40, Populated: 30, Updates: 60, IgnoreFlags: 20, Append: 25, NearMiss: 15, MaxPar: 1},
	"C05": {Kinds: []string{"create", "update", "update", "stop"}, Collide: 35, Release: 5, Populated: 40, Updates: 90, IgnoreFlags: 60, NearMiss: 25, MaxPar: 1},
}

func pick(v Verdicts, prop string) Verdict {
	switch prop {
	case "C01":
		return v.C01
	case "C02":
		return v.C02
	case "C03":
		return v.C03
	case "C04":
		return v.C04
	}
	return v.C05
}

func runProp(prop string) func(Case) ev.Outcome {
	return func(c Case) ev.Outcome {
		if c.Crowd != nil {
			return runCrowd(c.Crowd)
		}
		pal.Store(int32(c.Pal))
		exs, err := execute(c)
		if err != nil {
			return ev.Outcome{Excluded: "fixture_error", Overloaded: true, History: err.Error()}
		}
		var out ev.Outcome
		for i, ex := range exs {
			vs := judge(ex)
			v := pick(vs, prop)
			if i == 0 {
				out.NonTrivial = v.NonTrivial
				out.Classes = append(v.Classes, "pal:"+[]string{"plain", "big", "neg", "odd"}[c.Pal%numPals])
				out.Classes = append(out.Classes, caseFeatures(c, vs.Expect)...)
				if c.Share && len(exs) == 2 {
					out.Classes = append(out.Classes, "second_request_reusing_the_callers_resources_object")
				}
				out.Lenient = v.Lenient
				out.Excluded = v.Skip
			}
			if v.Fail != "" {
				if why := fixtureDamaged(ex.fixture); why != "" {
					// a pool plugin lost its connection (seen on machines loaded far beyond their
					// cores): its contributions are missing from the result although its handler
					// ran, which is the failing-plugin behaviour C07 describes, not a verdict on
					// this property. The fixture is rebuilt; the case counts as overloaded.
					return ev.Outcome{Excluded: "fixture_lost_a_plugin", Overloaded: true, History: map[string]any{"why": why, "would_have_failed": v.Fail}}
				}
				out.Fail = v.Fail
				out.History = vs.History
				return out
			}
		}
		return out
	}
}

// caseFeatures names the rarer input dimensions a case exercises (evidence classes).
func caseFeatures(c Case, e *Expect) []string {
	var out []string
	perFam := map[string]int{}
	delayed := false
	payload, bareArgs, bareArgsThenSet, equalHook := false, false, false, false
	for _, s := range c.Chain {
		if s.DelayMs > 0 {
			delayed = true
		}
		for _, op := range s.Ops {
			payload = payload || op.Payload
			if op.Fam == "hook" && (op.ValOf == "rt" || (len(op.ValOf) == 2 && op.ValOf[0] == 'p')) {
				equalHook = true
			}
			if op.Fam == "args" && c.Kind == "create" {
				if op.Act == "del" {
					bareArgs = true
				} else if bareArgs {
					bareArgsThenSet = true
				}
			}
			if op.Act != "del" {
				perFam[op.Fam]++
			}
		}
	}
	for _, n := range perFam {
		if n > 8 {
			out = append(out, "more_than_8_keys_of_one_family")
			break
		}
	}
	if delayed {
		out = append(out, "slow_handler")
	}
	if payload {
		out = append(out, "removal_marker_carrying_a_whole_entry")
	}
	if equalHook {
		out = append(out, "hook_equal_to_another_partys")
	}
	for _, s := range c.Chain {
		if len(s.Evict) > 0 {
			out = append(out, "response_with_an_eviction")
			break
		}
	}
	if c.Fixture < numFixtures && c.Kind == "update" && subscribers(c.Fixture, "update") == 0 {
		out = append(out, "update_request_nobody_is_subscribed_to")
	}
	if c.Fixture < numFixtures {
		pre, ext := false, false
		for _, s := range c.Chain {
			if fixtureSpecs[c.Fixture].launched[s.Plugin] {
				pre = true
			} else {
				ext = true
			}
		}
		if pre {
			out = append(out, "chain_with_a_pre-installed_plugin")
		}
		if pre && ext {
			out = append(out, "chain_mixing_pre-installed_and_external_plugins")
		}
	}
	if bareArgs {
		out = append(out, "bare_command_line_override_marker")
	}
	if bareArgsThenSet {
		out = append(out, "command_line_set_behind_a_bare_override_marker")
	}
	if e != nil && e.SelfDups > 0 {
		out = append(out, "first_update_collides_with_itself")
	}
	if c.Kind == "stop" && c.Fixture == 2 {
		lo, hi := false, false
		for _, s := range c.Chain {
			lo = lo || s.Plugin < 2
			hi = hi || s.Plugin > 2
		}
		if lo && hi {
			out = append(out, "stop_across_an_unsubscribed_plugin")
		}
	}
	return out
}

func testProp(t *testing.T, prop string) {
	b := biases[prop]
	ev.Run(t, prop, func(rt *rapid.T) Case { return GenCase(rt, b) }, runProp(prop))
}

func TestProp_C01(t *testing.T) { testProp(t, "C01") }
func TestProp_C02(t *testing.T) { testProp(t, "C02") }
func TestProp_C03(t *testing.T) { testProp(t, "C03") }
func TestProp_C04(t *testing.T) { testProp(t, "C04") }
func TestProp_C05(t *testing.T) { testProp(t, "C05") }

func TestMain(m *testing.M) {
	code := m.Run()
	cleanupFixtures()
	os.Exit(code)
}
