package adapt

import (
	"context"
	"fmt"
	"sync"
	"sync/atomic"
	"time"

	"github.com/containerd/nri/pkg/api"
	"google.golang.org/protobuf/proto"

	"nriverif/fx"
)

const (
	poolSize    = 5
	numFixtures = 3
)

// fixtureSpec: plugin indices by pool position (ascending, so chain order == pool order),
// base names chosen so that name order is the reverse of index order, and the order in
// which the plugins register.
var fixtureSpecs = [numFixtures]struct {
	idx   [poolSize]string
	order [poolSize]int
}{
	{[poolSize]string{"10", "20", "30", "40", "50"}, [poolSize]int{0, 1, 2, 3, 4}},
	{[poolSize]string{"10", "20", "30", "40", "50"}, [poolSize]int{4, 3, 2, 1, 0}},
	{[poolSize]string{"05", "06", "50", "98", "99"}, [poolSize]int{2, 0, 4, 1, 3}},
}

var baseNames = [poolSize]string{"e", "d", "c", "b", "a"}

// execution is one in-flight request of a case.
type execution struct {
	c   Case
	id  ids
	pod *api.PodSandbox
	sub *api.Container // the container as submitted by the runtime (pristine copy)

	mu       sync.Mutex
	seenCtr  map[int]*api.Container      // pool index -> container shown
	seenRes  map[int]*api.LinuxResources // pool index -> resources shown (update)
	seenPod  map[int]*api.PodSandbox
	invoked  []int // pool indices in invocation order
	resp     any
	err      error
	duration time.Duration
}

type fixture struct {
	rt      *fx.Runtime
	plugins [poolSize]*fx.Plugin
	execs   sync.Map // container id -> *execution
}

var (
	fixMu    sync.Mutex
	fixtures [numFixtures]*fixture
	idCtr    atomic.Int64
)

func getFixture(n int) (*fixture, error) {
	fixMu.Lock()
	defer fixMu.Unlock()
	if fixtures[n] != nil {
		return fixtures[n], nil
	}
	rt, err := fx.NewRuntime()
	if err != nil {
		return nil, err
	}
	f := &fixture{rt: rt}
	w := &fx.ActiveWatcher{}
	spec := fixtureSpecs[n]
	for _, pi := range spec.order {
		pi := pi
		p := &fx.Plugin{Name: baseNames[pi], Idx: spec.idx[pi]}
		p.OnEvent = func(_ context.Context, _ api.Event, pod *api.PodSandbox, _ *api.Container) error {
			if fx.IsProbe(pod) {
				w.Seen(p.Name)
			}
			return nil
		}
		p.OnCreate = func(_ context.Context, pod *api.PodSandbox, ct *api.Container) (*api.ContainerAdjustment, []*api.ContainerUpdate, error) {
			ex, s := f.lookup(ct.GetId(), pi, pod, ct, nil)
			if ex == nil || s == nil {
				return nil, nil, nil
			}
			return renderAdjust(*s), renderUpdates(*s, ex.id), nil
		}
		p.OnUpdate = func(_ context.Context, pod *api.PodSandbox, ct *api.Container, r *api.LinuxResources) ([]*api.ContainerUpdate, error) {
			ex, s := f.lookup(ct.GetId(), pi, pod, ct, r)
			if ex == nil || s == nil {
				return nil, nil
			}
			return renderUpdates(*s, ex.id), nil
		}
		p.OnStop = func(_ context.Context, pod *api.PodSandbox, ct *api.Container) ([]*api.ContainerUpdate, error) {
			ex, s := f.lookup(ct.GetId(), pi, pod, ct, nil)
			if ex == nil || s == nil {
				return nil, nil
			}
			return renderUpdates(*s, ex.id), nil
		}
		if err := rt.Connect(p); err != nil {
			return nil, fmt.Errorf("fixture %d: connect %s: %w", n, p.Name, err)
		}
		if err := rt.WaitActive(w, 10*time.Second, p.Name); err != nil {
			return nil, fmt.Errorf("fixture %d: %w", n, err)
		}
		f.plugins[pi] = p
	}
	fixtures[n] = f
	return f, nil
}

// lookup records what plugin pi was shown and returns its script (nil = not in the chain).
func (f *fixture) lookup(id string, pi int, pod *api.PodSandbox, ct *api.Container, r *api.LinuxResources) (*execution, *Script) {
	v, ok := f.execs.Load(id)
	if !ok {
		return nil, nil
	}
	ex := v.(*execution)
	ex.mu.Lock()
	ex.invoked = append(ex.invoked, pi)
	ex.seenCtr[pi] = proto.Clone(ct).(*api.Container)
	if pod != nil {
		ex.seenPod[pi] = proto.Clone(pod).(*api.PodSandbox)
	}
	if r != nil {
		ex.seenRes[pi] = proto.Clone(r).(*api.LinuxResources)
	}
	ex.mu.Unlock()
	for i := range ex.c.Chain {
		if ex.c.Chain[i].Plugin == pi {
			return ex, &ex.c.Chain[i]
		}
	}
	return ex, nil
}

// execute runs the case's request Par times concurrently (distinct ids) and returns the
// executions.
func execute(c Case) ([]*execution, error) {
	f, err := getFixture(c.Fixture)
	if err != nil {
		return nil, err
	}
	par := c.Par
	if par < 1 {
		par = 1
	}
	exs := make([]*execution, par)
	var wg sync.WaitGroup
	for k := 0; k < par; k++ {
		n := idCtr.Add(1)
		ex := &execution{c: c,
			id: ids{self: fmt.Sprintf("c%d", n), tgt: map[string]string{
				"T1": fmt.Sprintf("t1-%d", n), "T2": fmt.Sprintf("t2-%d", n), "T3": fmt.Sprintf("t3-%d", n)}},
			seenCtr: map[int]*api.Container{}, seenRes: map[int]*api.LinuxResources{}, seenPod: map[int]*api.PodSandbox{},
		}
		ex.pod = &api.PodSandbox{Id: "pod-" + ex.id.self, Name: "pod", Namespace: "ns", Annotations: map[string]string{"pa": "pv"}}
		exs[k] = ex
		f.execs.Store(ex.id.self, ex)
		wg.Add(1)
		go func() {
			defer wg.Done()
			defer f.execs.Delete(ex.id.self)
			ctx := context.Background()
			t0 := time.Now()
			ct := origContainer(c, ex.id.self)
			ex.sub = proto.Clone(ct).(*api.Container)
			switch c.Kind {
			case "create":
				r, err := f.rt.A.CreateContainer(ctx, &api.CreateContainerRequest{Pod: proto.Clone(ex.pod).(*api.PodSandbox), Container: ct})
				if r != nil {
					ex.resp = r
				}
				ex.err = err
			case "update":
				r, err := f.rt.A.UpdateContainer(ctx, &api.UpdateContainerRequest{Pod: proto.Clone(ex.pod).(*api.PodSandbox), Container: ct, LinuxResources: reqResources(c)})
				if r != nil {
					ex.resp = r
				}
				ex.err = err
			case "stop":
				r, err := f.rt.A.StopContainer(ctx, &api.StopContainerRequest{Pod: proto.Clone(ex.pod).(*api.PodSandbox), Container: ct})
				if r != nil {
					ex.resp = r
				}
				ex.err = err
			}
			ex.duration = time.Since(t0)
		}()
	}
	wg.Wait()
	return exs, nil
}

func (ex *execution) updates() []*api.ContainerUpdate {
	switch r := ex.resp.(type) {
	case *api.CreateContainerResponse:
		return r.GetUpdate()
	case *api.UpdateContainerResponse:
		return r.GetUpdate()
	case *api.StopContainerResponse:
		return r.GetUpdate()
	}
	return nil
}
