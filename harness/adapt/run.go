package adapt

import (
	"context"
	"fmt"
	"os"
	"path/filepath"
	"strings"
	"sync"
	"sync/atomic"
	"time"

	"github.com/containerd/nri/pkg/adaptation"
	"github.com/containerd/nri/pkg/api"
	"github.com/containerd/nri/pkg/stub"
	"github.com/containerd/ttrpc"
	"google.golang.org/protobuf/proto"

	"nriverif/fx"
)

const (
	poolSize    = 5
	numFixtures = 6
)

// fixtureSpec: plugin indices by pool position (ascending, so chain order == pool order),
// base names chosen so that name order is the reverse of index order, and the order in
// which the plugins register.
var fixtureSpecs = [numFixtures]struct {
	idx   [poolSize]string
	order [poolSize]int
	names [poolSize]string
	// noStop: the pool plugin does not subscribe to StopContainer (stop requests skip it)
	noStop [poolSize]bool
	// launched: the pool plugin is pre-installed: the Adaptation launches it (see launched.go)
	launched [poolSize]bool
	// noUpdate: the pool plugin does not subscribe to UpdateContainer
	noUpdate [poolSize]bool
}{
	// fixture 0: all indices share their first digit (code that compares plugins by a prefix
	// of "<index>-<name>" shows here for every pair)
	{[poolSize]string{"10", "11", "12", "13", "14"}, [poolSize]int{0, 1, 2, 3, 4}, baseNames, [poolSize]bool{}, [poolSize]bool{}, [poolSize]bool{}},
	{[poolSize]string{"10", "20", "30", "40", "50"}, [poolSize]int{4, 3, 2, 1, 0}, baseNames, [poolSize]bool{}, [poolSize]bool{}, [poolSize]bool{}},
	{[poolSize]string{"05", "06", "50", "98", "99"}, [poolSize]int{2, 0, 4, 1, 3}, baseNames, [poolSize]bool{false, false, true, false, false}, [poolSize]bool{}, [poolSize]bool{}},
	// twins: pool plugins 1 and 2 (and 3 and 4) register under the same index AND name (two
	// instances of one plugin binary). They are still two different plugins. Equal indices
	// leave their relative order to the implementation; the fixture observes it once (see
	// getFixture) and is only used if it is the registration order.
	{[poolSize]string{"10", "20", "20", "30", "30"}, [poolSize]int{0, 1, 2, 3, 4}, [poolSize]string{"e", "twin", "twin", "pair", "pair"}, [poolSize]bool{}, [poolSize]bool{}, [poolSize]bool{}},
	// pre-installed and external plugins mixed: pool plugins 0, 2 and 3 are launched by the
	// Adaptation from its plugin directory, 1 and 4 connect to the socket
	{[poolSize]string{"10", "20", "30", "40", "50"}, [poolSize]int{0, 4, 2, 1, 3}, [poolSize]string{"e" + launchedSuffix, "d", "c" + launchedSuffix, "b" + launchedSuffix, "a"},
		[poolSize]bool{}, [poolSize]bool{true, false, true, true, false}, [poolSize]bool{}},
	// nobody listens to updates: no pool plugin subscribes to UpdateContainer (update
	// requests are answered without asking anyone), two of them not to StopContainer either
	{[poolSize]string{"10", "20", "30", "40", "50"}, [poolSize]int{0, 1, 2, 3, 4}, baseNames,
		[poolSize]bool{false, true, false, true, false}, [poolSize]bool{}, [poolSize]bool{true, true, true, true, true}},
}

var baseNames = [poolSize]string{"e", "d", "c", "b", "a"}

// execution is one in-flight request of a case.
type execution struct {
	fixture int // the fixture the request actually ran on
	c       Case
	id      ids
	pod     *api.PodSandbox
	sub     *api.Container // the container as submitted by the runtime (pristine copy)

	mu      sync.Mutex
	seenCtr map[int]*api.Container      // pool index -> container shown
	seenRes map[int]*api.LinuxResources // pool index -> resources shown (update)
	seenPod map[int]*api.PodSandbox
	invoked []int // pool indices in invocation order
	// invokedAt: wall clock of each entry of invoked (fixtures with launched plugins, whose
	// records are merged in afterwards)
	invokedAt []int64
	resp      any
	err       error
	duration  time.Duration
}

type fixture struct {
	recDir  string // where launched plugins write what they were shown ("" = no launched plugins)
	rt      *fx.Runtime
	plugins [poolSize]*fx.Plugin
	execs   sync.Map // container id -> *execution
}

var (
	fixMu    sync.Mutex
	fixtures [numFixtures]*fixture
	idCtr    atomic.Int64
)

func init() {
	// This engine does not test timeouts: keep a loaded machine from getting fixture plugins
	// dropped for slowness (the default request timeout is 2 s).
	adaptation.SetPluginRequestTimeout(120 * time.Second)
	adaptation.SetPluginRegistrationTimeout(120 * time.Second)
}

// dropFixture discards a fixture whose plugins are no longer all attached.
func dropFixture(n int, f *fixture) {
	fixMu.Lock()
	if fixtures[n] == f {
		fixtures[n] = nil
	}
	fixMu.Unlock()
	go func() {
		for _, p := range f.plugins {
			if p != nil && p.Stub != nil {
				p.Stub.Stop()
			}
		}
		f.rt.Stop()
		if f.recDir != "" {
			os.RemoveAll(filepath.Dir(f.recDir))
		}
	}()
}

// subscribers is the number of pool plugins of a fixture that receive requests of a kind.
func subscribers(fixture int, kind string) int {
	n := poolSize
	if kind == "stop" {
		for _, b := range fixtureSpecs[fixture].noStop {
			if b {
				n--
			}
		}
	}
	if kind == "update" {
		for _, b := range fixtureSpecs[fixture].noUpdate {
			if b {
				n--
			}
		}
	}
	return n
}

// degraded reports whether a successful request failed to reach every subscribed pool plugin
// (each request is relayed to all of them; inactive ones answer with an empty response).
func (ex *execution) degraded() bool {
	if ex.err != nil {
		return false
	}
	seen := map[int]bool{}
	for _, pi := range ex.invoked {
		seen[pi] = true
	}
	return len(seen) != subscribers(ex.fixture, ex.c.Kind)
}

func getFixture(n int) (*fixture, error) {
	fixMu.Lock()
	defer fixMu.Unlock()
	if fixtures[n] != nil {
		return fixtures[n], nil
	}
	spec := fixtureSpecs[n]
	var opts []adaptation.Option
	recDir := ""
	if spec.launched != [poolSize]bool{} {
		plugins, records, err := launchedDir(n)
		if err != nil {
			return nil, err
		}
		opts, recDir = append(opts, adaptation.WithPluginPath(plugins)), records
	}
	rt, err := fx.NewRuntime(opts...)
	if err != nil {
		return nil, err
	}
	f := &fixture{rt: rt, recDir: recDir}
	w := &fx.ActiveWatcher{}
	for _, pi := range spec.order {
		pi := pi
		if spec.launched[pi] {
			continue // started, configured and synchronized by the Adaptation's Start()
		}
		p := &fx.Plugin{Name: spec.names[pi], Idx: spec.idx[pi]}
		if spec.noStop[pi] || spec.noUpdate[pi] {
			m := api.ValidEvents
			if spec.noStop[pi] {
				m.Clear(api.Event_STOP_CONTAINER)
			}
			if spec.noUpdate[pi] {
				m.Clear(api.Event_UPDATE_CONTAINER)
			}
			p.Mask = m
		}
		p.OnEvent = func(_ context.Context, _ api.Event, pod *api.PodSandbox, _ *api.Container) error {
			if fx.IsProbe(pod) {
				w.Seen(fmt.Sprintf("pool%d", pi))
			}
			return nil
		}
		p.OnCreate = func(_ context.Context, pod *api.PodSandbox, ct *api.Container) (*api.ContainerAdjustment, []*api.ContainerUpdate, error) {
			ex, s := f.lookup(ct.GetId(), pi, pod, ct, nil)
			if ex == nil || s == nil {
				return nil, nil, nil
			}
			return renderAdjust(*s), renderUpdates(*s, ex.id), nil
		}
		p.OnUpdate = func(_ context.Context, pod *api.PodSandbox, ct *api.Container, r *api.LinuxResources) ([]*api.ContainerUpdate, error) {
			ex, s := f.lookup(ct.GetId(), pi, pod, ct, r)
			if ex == nil || s == nil {
				return nil, nil
			}
			return renderUpdates(*s, ex.id), nil
		}
		p.OnStop = func(_ context.Context, pod *api.PodSandbox, ct *api.Container) ([]*api.ContainerUpdate, error) {
			ex, s := f.lookup(ct.GetId(), pi, pod, ct, nil)
			if ex == nil || s == nil {
				return nil, nil
			}
			return renderUpdates(*s, ex.id), nil
		}
		// the plugin's answers pass through an interceptor that adds the evictions of its
		// script (pkg/stub cannot express them)
		if err := p.NewStub(rt.Socket, nil, stub.WithTTRPCOptions(nil, []ttrpc.ServerOpt{ttrpc.WithUnaryServerInterceptor(f.evictions(pi))})); err != nil {
			return nil, fmt.Errorf("fixture %d: stub %s: %w", n, p.Name, err)
		}
		if err := p.Stub.Start(context.Background()); err != nil {
			return nil, fmt.Errorf("fixture %d: connect %s: %w", n, p.Name, err)
		}
		if err := rt.WaitActive(w, 60*time.Second, fmt.Sprintf("pool%d", pi)); err != nil {
			return nil, fmt.Errorf("fixture %d: %w", n, err)
		}
		f.plugins[pi] = p
	}
	// observe the invocation order once: the engine's model assumes chain order == pool order
	ex := &execution{fixture: n, c: Case{Kind: "create"}, id: ids{self: fmt.Sprintf("order-probe-%d", n), tgt: map[string]string{}},
		seenCtr: map[int]*api.Container{}, seenRes: map[int]*api.LinuxResources{}, seenPod: map[int]*api.PodSandbox{}}
	f.execs.Store(ex.id.self, ex)
	ex.pod = &api.PodSandbox{Id: "p", Annotations: map[string]string{}}
	f.brief(ex)
	// (a creation request: every plugin subscribes to it, and plugins are necessarily asked one
	// after the other because each is shown what the earlier ones did)
	_, err = rt.A.CreateContainer(context.Background(), &api.CreateContainerRequest{Pod: ex.pod, Container: &api.Container{Id: ex.id.self}})
	f.execs.Delete(ex.id.self)
	f.collect(ex)
	inOrder := err == nil && len(ex.invoked) == poolSize
	for k := 1; inOrder && k < len(ex.invoked); k++ {
		// index order between different indices; equal indices in any order (judge follows
		// the observed order per request)
		if spec.idx[ex.invoked[k-1]] > spec.idx[ex.invoked[k]] {
			inOrder = false
		}
	}
	if !inOrder {
		fixtureOrderBad[n] = true
		return nil, fmt.Errorf("fixture %d: invocation order %v (err %v) is not index order", n, ex.invoked, err)
	}
	fixtures[n] = f
	return f, nil
}

// fixtureOrderBad marks fixtures whose observed invocation order is not the pool order
// (possible only with equal indices); cases drawn for them run on fixture 0 instead.
var fixtureOrderBad [numFixtures]bool

// lookup records what plugin pi was shown and returns its script (nil = not in the chain).
func (f *fixture) lookup(id string, pi int, pod *api.PodSandbox, ct *api.Container, r *api.LinuxResources) (*execution, *Script) {
	v, ok := f.execs.Load(id)
	if !ok {
		return nil, nil
	}
	ex := v.(*execution)
	ex.mu.Lock()
	ex.invoked = append(ex.invoked, pi)
	ex.invokedAt = append(ex.invokedAt, time.Now().UnixNano())
	ex.seenCtr[pi] = proto.Clone(ct).(*api.Container)
	if pod != nil {
		ex.seenPod[pi] = proto.Clone(pod).(*api.PodSandbox)
	}
	if r != nil {
		ex.seenRes[pi] = proto.Clone(r).(*api.LinuxResources)
	}
	ex.mu.Unlock()
	for i := range ex.c.Chain {
		if ex.c.Chain[i].Plugin == pi {
			if d := ex.c.Chain[i].DelayMs; d > 0 {
				time.Sleep(time.Duration(d) * time.Millisecond) // a slow handler
			}
			return ex, &ex.c.Chain[i]
		}
	}
	return ex, nil
}

// execute runs the case's request Par times concurrently (distinct ids) and returns the
// executions.
func execute(c Case) ([]*execution, error) {
	fixMu.Lock()
	if fixtureOrderBad[c.Fixture] {
		c.Fixture = 0
	}
	fixMu.Unlock()
	f, err := getFixture(c.Fixture)
	if err != nil {
		fixMu.Lock()
		bad := fixtureOrderBad[c.Fixture]
		fixMu.Unlock()
		if !bad {
			return nil, err
		}
		c.Fixture = 0
		if f, err = getFixture(0); err != nil {
			return nil, err
		}
	}
	par := c.Par
	if par < 1 {
		par = 1
	}
	cases := make([]Case, par)
	for k := range cases {
		cases[k] = c
	}
	var shared *api.LinuxResources
	if c.Share && c.Kind == "update" {
		// two requests one after the other, the caller's resources object reused
		cases = []Case{c, followUp(c)}
		par = 2
		shared = reqResources(c)
		if len(c.Req) == 0 && c.Orig.NilParts && !c.ReqDevRules {
			cases = cases[:1] // nothing to share
			par = 1
		}
	}
	exs := make([]*execution, par)
	var wg sync.WaitGroup
	for k := 0; k < par; k++ {
		c := cases[k]
		n := idCtr.Add(1)
		ex := &execution{c: c, fixture: c.Fixture,
			id: ids{self: fmt.Sprintf("c%d", n), tgt: map[string]string{
				"T1": fmt.Sprintf("t1-%d", n), "T2": fmt.Sprintf("t2-%d", n), "T3": fmt.Sprintf("t3-%d", n), "T0": ""}},
			seenCtr: map[int]*api.Container{}, seenRes: map[int]*api.LinuxResources{}, seenPod: map[int]*api.PodSandbox{},
		}
		ex.pod = &api.PodSandbox{Id: "pod-" + ex.id.self, Name: "pod", Namespace: "ns", Annotations: map[string]string{"pa": "pv"}}
		if c.HugePod {
			ex.pod.Annotations["bulk"] = strings.Repeat("x", 4<<20+4<<10)
		}
		exs[k] = ex
		f.brief(ex)
		f.execs.Store(ex.id.self, ex)
		wg.Add(1)
		run := func() {
			defer wg.Done()
			defer f.execs.Delete(ex.id.self)
			ctx := context.Background()
			t0 := time.Now()
			ct := origContainer(c, ex.id.self)
			ex.sub = proto.Clone(ct).(*api.Container)
			switch c.Kind {
			case "create":
				r, err := f.rt.A.CreateContainer(ctx, &api.CreateContainerRequest{Pod: proto.Clone(ex.pod).(*api.PodSandbox), Container: ct})
				if r != nil {
					ex.resp = r
				}
				ex.err = err
			case "update":
				rr := reqResources(c)
				if len(c.Req) == 0 && c.Orig.NilParts && !c.ReqDevRules {
					rr = nil // an update request without a resources section at all
				}
				if shared != nil {
					rr = shared
				}
				r, err := f.rt.A.UpdateContainer(ctx, &api.UpdateContainerRequest{Pod: proto.Clone(ex.pod).(*api.PodSandbox), Container: ct, LinuxResources: rr})
				if r != nil {
					ex.resp = r
				}
				ex.err = err
			case "stop":
				r, err := f.rt.A.StopContainer(ctx, &api.StopContainerRequest{Pod: proto.Clone(ex.pod).(*api.PodSandbox), Container: ct})
				if r != nil {
					ex.resp = r
				}
				ex.err = err
			}
			ex.duration = time.Since(t0)
			f.collect(ex)
		}
		if shared != nil {
			run()
		} else {
			go run()
		}
	}
	wg.Wait()
	for _, ex := range exs {
		if ex.degraded() {
			dropFixture(c.Fixture, f)
			return nil, fmt.Errorf("fixture %d degraded: a request reached only plugins %v", c.Fixture, ex.invoked)
		}
	}
	return exs, nil
}

func (ex *execution) updates() []*api.ContainerUpdate {
	switch r := ex.resp.(type) {
	case *api.CreateContainerResponse:
		return r.GetUpdate()
	case *api.UpdateContainerResponse:
		return r.GetUpdate()
	case *api.StopContainerResponse:
		return r.GetUpdate()
	}
	return nil
}

// evictions is the server interceptor of pool plugin pi: after the handler has answered a
// creation or update request it adds the evictions the plugin's script names.
func (f *fixture) evictions(pi int) ttrpc.UnaryServerInterceptor {
	return func(ctx context.Context, unmarshal ttrpc.Unmarshaler, _ *ttrpc.UnaryServerInfo, method ttrpc.Method) (interface{}, error) {
		var req interface{}
		resp, err := method(ctx, func(i interface{}) error { req = i; return unmarshal(i) })
		if err != nil || resp == nil {
			return resp, err
		}
		id := ""
		switch r := req.(type) {
		case *api.CreateContainerRequest:
			id = r.GetContainer().GetId()
		case *api.UpdateContainerRequest:
			id = r.GetContainer().GetId()
		default:
			return resp, err
		}
		v, ok := f.execs.Load(id)
		if !ok {
			return resp, err
		}
		ex := v.(*execution)
		for i := range ex.c.Chain {
			if ex.c.Chain[i].Plugin != pi {
				continue
			}
			for _, tg := range ex.c.Chain[i].Evict {
				e := &api.ContainerEviction{ContainerId: ex.id.of(tg), Reason: "asked for by the script"}
				switch r := resp.(type) {
				case *api.CreateContainerResponse:
					r.Evict = append(r.Evict, e)
				case *api.UpdateContainerResponse:
					r.Evict = append(r.Evict, e)
				}
			}
		}
		return resp, err
	}
}

// fixtureDamaged tells whether a fixture has lost one of its plugins: an in-process plugin's
// stub reported a closed connection, or a probe request no longer reaches every pool plugin.
// A damaged fixture is discarded.
func fixtureDamaged(n int) string {
	fixMu.Lock()
	f := fixtures[n]
	fixMu.Unlock()
	if f == nil {
		return "the fixture was already discarded"
	}
	why := ""
	for pi, p := range f.plugins {
		if p != nil && p.Closed.Load() > 0 {
			why = fmt.Sprintf("pool plugin %d lost its connection", pi)
		}
	}
	if why == "" {
		ex := &execution{fixture: n, c: Case{Kind: "create"}, id: ids{self: fmt.Sprintf("intact-probe-%d-%d", n, idCtr.Add(1)), tgt: map[string]string{}},
			seenCtr: map[int]*api.Container{}, seenRes: map[int]*api.LinuxResources{}, seenPod: map[int]*api.PodSandbox{}}
		ex.pod = &api.PodSandbox{Id: "p", Annotations: map[string]string{}}
		f.brief(ex)
		f.execs.Store(ex.id.self, ex)
		_, err := f.rt.A.CreateContainer(context.Background(), &api.CreateContainerRequest{Pod: ex.pod, Container: &api.Container{Id: ex.id.self}})
		f.execs.Delete(ex.id.self)
		f.collect(ex)
		seen := map[int]bool{}
		for _, pi := range ex.invoked {
			seen[pi] = true
		}
		if err != nil || len(seen) != poolSize {
			why = fmt.Sprintf("a probe request reached only plugins %v (err %v)", ex.invoked, err)
		}
	}
	if why != "" {
		dropFixture(n, f)
	}
	return why
}
