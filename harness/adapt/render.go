package adapt

import (
	"fmt"
	"strings"
	"sync/atomic"

	"github.com/containerd/nri/pkg/api"
)

// who identifies the origin of a value: 0 = the runtime (original container / requested
// resources), p+1 = pool plugin p. Every value embeds its origin so provenance is visible.
func whoName(w int) string {
	if w <= 0 { // wZero / wRtTweak only reach here for families that have no such variant
		return "rt"
	}
	return fmt.Sprintf("p%d", w-1)
}

// special origins (see Op.ValOf)
const (
	wZero    = -1 // the zero / empty value, where writing it is a legal *set*
	wRtTweak = -2 // the runtime's value with a small same-shape difference (mounts, devices)
	wUnl     = -3 // -1 ("unlimited") in the signed resource fields
)

func indexOf(list []string, k string) int {
	for i, s := range list {
		if s == k {
			return i
		}
	}
	return len(list)
}

// valW resolves whose value an op / update writes (see Op.ValOf).
func valW(valOf string, own int) int {
	switch {
	case valOf == "zero":
		return wZero
	case valOf == "rt~":
		return wRtTweak
	case valOf == "unl":
		return wUnl
	case valOf == "rt":
		return 0
	case len(valOf) == 2 && valOf[0] == 'p' && valOf[1] >= '0' && valOf[1] <= '9':
		return int(valOf[1]-'0') + 1
	}
	return own
}

// pal is the value palette of the case being run (Case.Pal): the same symbolic case is
// rendered with ordinary values (0), with numbers above 2^62 (1), with negative numbers in
// the signed fields (2), or with strings full of separators and control characters (3). The
// model derives its expected values through the same functions, so the palette changes what
// travels through the code under test, not the oracle.
var pal atomic.Int32

const (
	palPlain = 0
	palBig   = 1
	palNeg   = 2
	palOdd   = 3
	numPals  = 4
)

const oddTail = " =\"q\"\n\t\u00e9\\$X;-"

func strVal(w int, fam, key string) string {
	if w == wZero {
		return "" // an empty annotation / env / unified value is a value
	}
	if pal.Load() == palOdd {
		return "=-" + whoName(w) + ":" + fam + "=" + key + oddTail
	}
	return whoName(w) + ":" + fam + ":" + key
}

var signedFields = map[string]bool{"memLimit": true, "memReservation": true, "memSwap": true, "memKernel": true,
	"memKernelTcp": true, "cpuQuota": true, "cpuRtRuntime": true, "pids": true}

func numVal(w int, field string) int64 {
	if w == wZero {
		return 0
	}
	if w == wUnl {
		return -1
	}
	if w < 0 {
		w = 0
	}
	v := int64(w*1000 + indexOf(allResFields(), field) + 1)
	switch pal.Load() {
	case palBig:
		return v + 1<<62
	case palNeg:
		if signedFields[field] {
			return -v
		}
	}
	return v
}

func mkMount(w int, key string) *api.Mount {
	if w == wRtTweak {
		// the runtime's mount with one option changed: same destination, type, source and
		// number of options
		return &api.Mount{Destination: key, Type: "bind", Source: "/src/rt", Options: []string{"rw", "x-rt"}}
	}
	if pal.Load() == palOdd {
		return &api.Mount{Destination: key, Type: "bind", Source: "/src/" + whoName(w) + " x=y", Options: []string{"ro", "x-" + whoName(w) + "=1 2"}}
	}
	return &api.Mount{Destination: key, Type: "bind", Source: "/src/" + whoName(w), Options: []string{"ro", "x-" + whoName(w)}}
}

func mkDevice(w int, key string) *api.LinuxDevice {
	if w == wRtTweak {
		d := mkDevice(0, key)
		d.FileMode = &api.OptionalFileMode{Value: 0o666}
		return d
	}
	if w < 0 {
		w = 0
	}
	return &api.LinuxDevice{Path: key, Type: "c", Major: int64(w + 1), Minor: int64(indexOf(devKeys, key)),
		FileMode: &api.OptionalFileMode{Value: uint32(0o600 + w)}, Uid: &api.OptionalUInt32{Value: uint32(w)}}
}

// famW restricts the special origins to the families where they make sense: writing the zero
// value must be a legal set (not "unset"), a tweak exists only for mounts and devices.
func famW(fam, valOf string, own int, adjust bool) int {
	w := valW(valOf, own)
	switch w {
	case wZero:
		switch fam {
		case "ann", "env", "unified", "huge", "oom", "memReservation", "memSwap", "memKernel", "memKernelTcp", "memSwappiness",
			"memDisableOom", "memUseHierarchy", "cpuShares", "cpuQuota", "cpuPeriod", "cpuRtRuntime", "cpuRtPeriod", "pids", "blockio", "rdt":
			return wZero
		case "memLimit":
			if !adjust { // the OCI generator treats a zero limit in an adjustment as "not requested" (Pre)
				return wZero
			}
		}
		return own
	case wRtTweak:
		if fam == "mount" || fam == "dev" {
			return wRtTweak
		}
		return 0
	case wUnl:
		if signedFields[fam] {
			return wUnl
		}
		return own
	}
	return w
}

func fieldFam(field string) string {
	if i := strings.IndexByte(field, '/'); i > 0 {
		return field[:i]
	}
	return field
}

func mkHook(w int, list string) *api.Hook {
	if pal.Load() == palOdd {
		return &api.Hook{Path: "/bin/hook-" + whoName(w) + "-" + list, Args: []string{"hook", "", whoName(w) + "=x y"}, Env: []string{"H=1=2", "E="}}
	}
	return &api.Hook{Path: "/bin/hook-" + whoName(w) + "-" + list, Args: []string{"hook", whoName(w)}}
}

func mkRlimit(w int, key string) *api.POSIXRlimit {
	v := uint64(w*1000 + indexOf(rlimitKeys, key) + 1)
	if pal.Load() == palBig {
		v += 1 << 62
	}
	return &api.POSIXRlimit{Type: key, Hard: v + 10, Soft: v}
}

func mkArgs(w int) []string {
	if pal.Load() == palOdd {
		return []string{"cmd-" + whoName(w), "", "a=b c", "--x=\n", "-"}
	}
	return []string{"cmd-" + whoName(w), "arg"}
}

func cgPath(w int) string {
	if pal.Load() == palOdd {
		return "/cg/" + whoName(w) + ":x=y z"
	}
	switch {
	case w > 0 && w%3 == 1:
		// the systemd cgroup driver's form: slice:prefix:name, no leading slash
		return "nri.slice:" + whoName(w) + ":ctr"
	case w > 0 && w%3 == 2:
		return "cg/" + whoName(w) + "/../rel" // a relative, unclean cgroupfs path
	}
	return "/cg/" + whoName(w)
}

func hookList(h *api.Hooks, list string) *[]*api.Hook {
	switch list {
	case "prestart":
		return &h.Prestart
	case "createRuntime":
		return &h.CreateRuntime
	case "createContainer":
		return &h.CreateContainer
	case "startContainer":
		return &h.StartContainer
	case "poststart":
		return &h.Poststart
	}
	return &h.Poststop
}

// setResField sets one resource field to the value origin w would give it.
func setResField(r *api.LinuxResources, field string, w int) {
	v := numVal(w, field)
	mem := func() *api.LinuxMemory {
		if r.Memory == nil {
			r.Memory = &api.LinuxMemory{}
		}
		return r.Memory
	}
	cpu := func() *api.LinuxCPU {
		if r.Cpu == nil {
			r.Cpu = &api.LinuxCPU{}
		}
		return r.Cpu
	}
	switch {
	case strings.HasPrefix(field, "huge/"):
		r.HugepageLimits = append(r.HugepageLimits, &api.HugepageLimit{PageSize: strings.TrimPrefix(field, "huge/"), Limit: uint64(v)})
	case strings.HasPrefix(field, "unified/"):
		if r.Unified == nil {
			r.Unified = map[string]string{}
		}
		r.Unified[strings.TrimPrefix(field, "unified/")] = strVal(w, "unified", strings.TrimPrefix(field, "unified/"))
	case field == "memLimit":
		mem().Limit = &api.OptionalInt64{Value: v}
	case field == "memReservation":
		mem().Reservation = &api.OptionalInt64{Value: v}
	case field == "memSwap":
		mem().Swap = &api.OptionalInt64{Value: v}
	case field == "memKernel":
		mem().Kernel = &api.OptionalInt64{Value: v}
	case field == "memKernelTcp":
		mem().KernelTcp = &api.OptionalInt64{Value: v}
	case field == "memSwappiness":
		mem().Swappiness = &api.OptionalUInt64{Value: uint64(v)}
	case field == "memDisableOom":
		mem().DisableOomKiller = &api.OptionalBool{Value: w > 0 && w%2 == 1}
	case field == "memUseHierarchy":
		mem().UseHierarchy = &api.OptionalBool{Value: w >= 0 && w%2 == 0}
	case field == "cpuShares":
		cpu().Shares = &api.OptionalUInt64{Value: uint64(v)}
	case field == "cpuQuota":
		cpu().Quota = &api.OptionalInt64{Value: v}
	case field == "cpuPeriod":
		cpu().Period = &api.OptionalUInt64{Value: uint64(v)}
	case field == "cpuRtRuntime":
		cpu().RealtimeRuntime = &api.OptionalInt64{Value: v}
	case field == "cpuRtPeriod":
		cpu().RealtimePeriod = &api.OptionalUInt64{Value: uint64(v)}
	case field == "cpus":
		if w < 0 {
			w = 0
		}
		cpu().Cpus = fmt.Sprintf("%d-%d", w, w+8)
	case field == "mems":
		if w < 0 {
			w = 0
		}
		cpu().Mems = fmt.Sprintf("%d", w)
	case field == "pids":
		r.Pids = &api.LinuxPids{Limit: v}
	case field == "blockio":
		if w == wZero {
			r.BlockioClass = &api.OptionalString{} // present but empty: "clear the class"
		} else {
			r.BlockioClass = &api.OptionalString{Value: "bio-" + whoName(w)}
		}
	case field == "rdt":
		if w == wZero {
			r.RdtClass = &api.OptionalString{}
		} else {
			r.RdtClass = &api.OptionalString{Value: "rdt-" + whoName(w)}
		}
	default:
		panic("unknown resource field " + field)
	}
}

// resFields renders resources as field -> value text (hugepages reduced last-entry-wins;
// the second result reports whether a page size occurred more than once).
func resFields(r *api.LinuxResources) (map[string]string, bool) {
	out := map[string]string{}
	dup := false
	if r == nil {
		return out, false
	}
	oi := func(name string, o *api.OptionalInt64) {
		if o != nil {
			out[name] = fmt.Sprint(o.Value)
		}
	}
	ou := func(name string, o *api.OptionalUInt64) {
		if o != nil {
			out[name] = fmt.Sprint(o.Value)
		}
	}
	ob := func(name string, o *api.OptionalBool) {
		if o != nil {
			out[name] = fmt.Sprint(o.Value)
		}
	}
	if m := r.Memory; m != nil {
		oi("memLimit", m.Limit)
		oi("memReservation", m.Reservation)
		oi("memSwap", m.Swap)
		oi("memKernel", m.Kernel)
		oi("memKernelTcp", m.KernelTcp)
		ou("memSwappiness", m.Swappiness)
		ob("memDisableOom", m.DisableOomKiller)
		ob("memUseHierarchy", m.UseHierarchy)
	}
	if c := r.Cpu; c != nil {
		ou("cpuShares", c.Shares)
		oi("cpuQuota", c.Quota)
		ou("cpuPeriod", c.Period)
		oi("cpuRtRuntime", c.RealtimeRuntime)
		ou("cpuRtPeriod", c.RealtimePeriod)
		if c.Cpus != "" {
			out["cpus"] = c.Cpus
		}
		if c.Mems != "" {
			out["mems"] = c.Mems
		}
	}
	for _, h := range r.HugepageLimits {
		k := "huge/" + h.PageSize
		if _, ok := out[k]; ok {
			dup = true
		}
		out[k] = fmt.Sprint(h.Limit)
	}
	for k, v := range r.Unified {
		out["unified/"+k] = v
	}
	if r.Pids != nil {
		out["pids"] = fmt.Sprint(r.Pids.Limit)
	}
	if r.BlockioClass != nil {
		out["blockio"] = r.BlockioClass.Value
	}
	if r.RdtClass != nil {
		out["rdt"] = r.RdtClass.Value
	}
	return out, dup
}

// expectedResValue is the text resFields gives for origin w's value of a field.
func expectedResValue(field string, w int) string {
	r := &api.LinuxResources{}
	setResField(r, field, w)
	m, _ := resFields(r)
	return m[field]
}

func has(list []string, k string) bool { return indexOf(list, k) < len(list) }

// origContainer renders the runtime's container for a create request.
func origContainer(c Case, id string) *api.Container {
	o := c.Orig
	ct := &api.Container{Id: id, PodSandboxId: "pod-" + id, Name: "ctr-" + id, State: api.ContainerState_CONTAINER_CREATED,
		Labels: map[string]string{"l": "v"}, Pid: 4242, CreatedAt: 1700000000, StatusReason: "r", StatusMessage: "m"}
	if c.Kind != "create" {
		// update / stop requests carry an existing container; give it a plausible fixed shape
		ct.State = api.ContainerState_CONTAINER_RUNNING
		ct.Annotations = map[string]string{"a1": strVal(0, "ann", "a1")}
		ct.Env = []string{"E1=" + strVal(0, "env", "E1")}
		ct.Args = mkArgs(0)
		ct.Linux = &api.LinuxContainer{Resources: &api.LinuxResources{}}
		setResField(ct.Linux.Resources, "memLimit", 0)
		return ct
	}
	if len(o.Ann) > 0 || !o.NilParts {
		ct.Annotations = map[string]string{}
	}
	for _, k := range o.Ann {
		ct.Annotations[k] = strVal(0, "ann", k)
	}
	for _, k := range o.Env {
		ct.Env = append(ct.Env, k+"="+strVal(0, "env", k))
	}
	// an untouched variable at both ends so order/adjacency bugs show
	ct.Env = append([]string{"PATH=/bin"}, ct.Env...)
	for _, k := range o.Mounts {
		ct.Mounts = append(ct.Mounts, mkMount(0, k))
	}
	ct.Mounts = append(ct.Mounts, &api.Mount{Destination: "/keep", Type: "tmpfs", Source: "tmpfs"})
	if o.Args {
		ct.Args = mkArgs(0)
	}
	if len(o.Hooks) > 0 || !o.NilParts {
		ct.Hooks = &api.Hooks{}
	}
	for _, l := range o.Hooks {
		p := hookList(ct.Hooks, l)
		*p = append(*p, mkHook(0, l))
	}
	for _, k := range o.Rlimits {
		ct.Rlimits = append(ct.Rlimits, mkRlimit(0, k))
	}
	needLinux := len(o.Devices) > 0 || len(o.Res) > 0 || o.Cgroups || o.Oom || !o.NilParts || o.DevRules
	if needLinux {
		ct.Linux = &api.LinuxContainer{Namespaces: []*api.LinuxNamespace{{Type: "pid"}, {Type: "network", Path: "/proc/1/ns/net"}}}
		for _, k := range o.Devices {
			ct.Linux.Devices = append(ct.Linux.Devices, mkDevice(0, k))
		}
		if len(o.Res) > 0 || !o.NilParts || o.DevRules {
			ct.Linux.Resources = &api.LinuxResources{}
			for _, f := range o.Res {
				setResField(ct.Linux.Resources, f, 0)
			}
			if o.DevRules {
				// device cgroup rules: part of the runtime's resources, no plugin can adjust them
				ct.Linux.Resources.Devices = devRules()
			}
		}
		if o.Cgroups {
			ct.Linux.CgroupsPath = cgPath(0)
		}
		if o.Oom {
			ct.Linux.OomScoreAdj = &api.OptionalInt{Value: -7}
		}
	}
	return ct
}

func devRules() []*api.LinuxDeviceCgroup {
	return []*api.LinuxDeviceCgroup{
		{Allow: false, Access: "rwm"},
		{Allow: true, Type: "c", Major: &api.OptionalInt64{Value: 1}, Minor: &api.OptionalInt64{Value: 3}, Access: "rw"},
		{Allow: true, Type: "b", Major: &api.OptionalInt64{Value: 8}, Access: "r"},
	}
}

// reqResources renders the runtime's requested resources of an update request.
func reqResources(c Case) *api.LinuxResources {
	r := &api.LinuxResources{}
	for _, f := range c.Req {
		setResField(r, f, 0)
	}
	if c.ReqDevRules {
		r.Devices = devRules()
	}
	return r
}

// renderAdjust renders a plugin's ops as a ContainerAdjustment, the way a plugin using the
// api helper methods would (removal markers before sets within list families).
func renderAdjust(s Script) *api.ContainerAdjustment {
	if len(s.Ops) == 0 {
		return nil
	}
	w := s.Plugin + 1
	a := &api.ContainerAdjustment{}
	marker := func(op Op) {
		if op.Payload {
			// the marker is the container's own entry marked in place: it carries a whole
			// entry (value, source, type, device numbers), which a removal marker's key
			// makes irrelevant
			switch op.Fam {
			case "ann":
				a.AddAnnotation(api.MarkForRemoval(op.Key), strVal(0, "ann", op.Key))
			case "env":
				a.AddEnv(api.MarkForRemoval(op.Key), strVal(0, "env", op.Key))
			case "mount":
				m := mkMount(0, op.Key)
				m.Destination = api.MarkForRemoval(m.Destination)
				a.AddMount(m)
			case "dev":
				d := mkDevice(0, op.Key)
				d.Path = api.MarkForRemoval(d.Path)
				a.AddDevice(d)
			}
			return
		}
		switch op.Fam {
		case "ann":
			a.RemoveAnnotation(op.Key)
		case "env":
			a.RemoveEnv(op.Key)
		case "mount":
			a.RemoveMount(op.Key)
		case "dev":
			a.RemoveDevice(op.Key)
		case "args":
			if op.Act == "del" {
				a.UpdateArgs(nil) // the bare override marker: Args == [""]
			}
		}
	}
	for pass := 0; pass < 3; pass++ { // pass 0: removal markers, pass 1: everything else, pass 2: late markers (Rev)
		for _, op := range s.Ops {
			isDel := op.Act == "del" || op.Act == "reset"
			if pass == 0 {
				if isDel && !op.Rev {
					marker(op)
				}
				continue
			}
			if pass == 2 {
				if isDel && op.Rev {
					marker(op)
				}
				continue
			}
			if op.Act == "del" {
				continue
			}
			w := famW(op.Fam, op.ValOf, w, true)
			switch op.Fam {
			case "ann":
				a.AddAnnotation(op.Key, strVal(w, "ann", op.Key))
			case "env":
				a.AddEnv(op.Key, strVal(w, "env", op.Key))
			case "mount":
				a.AddMount(mkMount(w, op.Key))
			case "dev":
				a.AddDevice(mkDevice(w, op.Key))
			case "cdi":
				a.AddCDIDevice(&api.CDIDevice{Name: op.Key})
			case "rlimit":
				r := mkRlimit(w, op.Key)
				a.AddRlimit(r.Type, r.Hard, r.Soft)
			case "huge":
				setAdjRes(a, "huge/"+op.Key, w)
			case "unified":
				setAdjRes(a, "unified/"+op.Key, w)
			case "args":
				if op.Act == "reset" {
					a.UpdateArgs(mkArgs(w))
				} else {
					a.SetArgs(mkArgs(w))
				}
			case "hook":
				h := &api.Hooks{}
				p := hookList(h, op.Key)
				*p = append(*p, mkHook(w, op.Key))
				a.AddHooks(h)
			case "cgroups":
				a.SetLinuxCgroupsPath(cgPath(w))
			case "oom":
				v := oomVal(w)
				a.SetLinuxOomScoreAdj(&v)
			default:
				setAdjRes(a, op.Fam, w)
			}
		}
	}
	return a
}

func oomVal(w int) int {
	if w == wZero {
		return 0
	}
	if w < 0 {
		w = 0
	}
	if pal.Load() == palNeg {
		return -(100 + w)
	}
	return 100 + w
}

func setAdjRes(a *api.ContainerAdjustment, field string, w int) {
	if a.Linux == nil {
		a.Linux = &api.LinuxContainerAdjustment{}
	}
	if a.Linux.Resources == nil {
		a.Linux.Resources = &api.LinuxResources{}
	}
	setResField(a.Linux.Resources, field, w)
}

// ids maps symbolic targets to the concrete container ids of one execution.
type ids struct {
	self string
	tgt  map[string]string
}

func (i ids) of(sym string) string {
	if sym == "SELF" {
		return i.self
	}
	if v, ok := i.tgt[sym]; ok {
		return v
	}
	// any further target symbol names a third-party container of its own ("T17" -> "t17-<n>")
	return "x" + strings.ToLower(sym) + "-" + strings.TrimPrefix(i.self, "c")
}

func (i ids) sym(id string) string {
	if id == i.self {
		return "SELF"
	}
	for k, v := range i.tgt {
		if v == id {
			return k
		}
	}
	if suf := "-" + strings.TrimPrefix(i.self, "c"); strings.HasPrefix(id, "xt") && strings.HasSuffix(id, suf) {
		return "T" + strings.TrimSuffix(strings.TrimPrefix(id, "xt"), suf)
	}
	return "?" + id
}

func renderUpdates(s Script, id ids) []*api.ContainerUpdate {
	var out []*api.ContainerUpdate
	w := s.Plugin + 1
	for _, u := range s.Updates {
		cu := &api.ContainerUpdate{ContainerId: id.of(u.Target), IgnoreFailure: u.Ignore}
		if !u.NoRes {
			cu.Linux = &api.LinuxContainerUpdate{Resources: &api.LinuxResources{}}
			for _, f := range u.Fields {
				setResField(cu.Linux.Resources, f, famW(fieldFam(f), u.ValOf, w, false))
			}
			if hf := hugeField(u); u.SelfDup && u.Ignore && hf != "" {
				// the same page size once more, with another limit
				cu.Linux.Resources.HugepageLimits = append(cu.Linux.Resources.HugepageLimits,
					&api.HugepageLimit{PageSize: strings.TrimPrefix(hf, "huge/"), Limit: 7})
			}
		}
		out = append(out, cu)
	}
	return out
}
