package adapt

import (
	"encoding/json"
	"fmt"
	"sort"
	"strings"

	"github.com/containerd/nri/pkg/api"
	nrigen "github.com/containerd/nri/pkg/runtime-tools/generate"
	rspec "github.com/opencontainers/runtime-spec/specs-go"
	ogen "github.com/opencontainers/runtime-tools/generate"
	"google.golang.org/protobuf/proto"
)

// Verdict of one property for one execution.
type Verdict struct {
	Fail       string
	Skip       string // not judged, with reason
	NonTrivial bool
	Classes    []string
	Lenient    []string
}

// Verdicts of all five properties.
type Verdicts struct {
	C01, C02, C03, C04, C05 Verdict
	Expect                  *Expect
	History                 map[string]any
}

func errText(err error) string {
	if err == nil {
		return "<nil>"
	}
	return err.Error()
}

// ---- OCI spec side (C03) -----------------------------------------------------------

func specOf(ct *api.Container) *rspec.Spec {
	s := &rspec.Spec{
		Version:  "1.1.0",
		Hostname: "host-untouched",
		Root:     &rspec.Root{Path: "/rootfs", Readonly: true},
		Process: &rspec.Process{
			Cwd:  "/cwd",
			User: rspec.User{UID: 12, GID: 34},
			Args: append([]string{}, ct.GetArgs()...),
			Env:  append([]string{}, ct.GetEnv()...),
		},
		Annotations: map[string]string{},
		Linux: &rspec.Linux{
			Namespaces: []rspec.LinuxNamespace{{Type: "pid"}, {Type: "mount"}},
			Sysctl:     map[string]string{"net.x": "1"},
		},
	}
	for k, v := range ct.GetAnnotations() {
		s.Annotations[k] = v
	}
	for _, m := range ct.GetMounts() {
		s.Mounts = append(s.Mounts, m.ToOCI(nil))
	}
	if h := ct.GetHooks(); h != nil {
		s.Hooks = &rspec.Hooks{}
		for _, l := range hookKeys {
			for _, hk := range *hookList(h, l) {
				o := hk.ToOCI()
				switch l {
				case "prestart":
					s.Hooks.Prestart = append(s.Hooks.Prestart, o)
				case "createRuntime":
					s.Hooks.CreateRuntime = append(s.Hooks.CreateRuntime, o)
				case "createContainer":
					s.Hooks.CreateContainer = append(s.Hooks.CreateContainer, o)
				case "startContainer":
					s.Hooks.StartContainer = append(s.Hooks.StartContainer, o)
				case "poststart":
					s.Hooks.Poststart = append(s.Hooks.Poststart, o)
				default:
					s.Hooks.Poststop = append(s.Hooks.Poststop, o)
				}
			}
		}
	}
	for _, r := range ct.GetRlimits() {
		s.Process.Rlimits = append(s.Process.Rlimits, rspec.POSIXRlimit{Type: r.Type, Hard: r.Hard, Soft: r.Soft})
	}
	if l := ct.GetLinux(); l != nil {
		for _, d := range l.Devices {
			s.Linux.Devices = append(s.Linux.Devices, d.ToOCI())
		}
		s.Linux.Resources = l.Resources.ToOCI()
		if bc := l.GetResources().GetBlockioClass(); bc != nil {
			if b, _ := resolveBlockIO(bc.Value); b != nil {
				s.Linux.Resources.BlockIO = b
			}
		}
		if rc := l.GetResources().GetRdtClass(); rc != nil {
			s.Linux.IntelRdt = &rspec.LinuxIntelRdt{ClosID: rc.Value}
		}
		s.Linux.CgroupsPath = l.CgroupsPath
		if l.OomScoreAdj != nil {
			v := int(l.OomScoreAdj.Value)
			s.Process.OOMScoreAdj = &v
		}
	}
	return s
}

func resolveBlockIO(class string) (*rspec.LinuxBlockIO, error) {
	for i, c := range bioClasses {
		if c == class {
			w := uint16(i + 1)
			return &rspec.LinuxBlockIO{Weight: &w}, nil
		}
	}
	return nil, fmt.Errorf("unknown block I/O class %q", class)
}

func resolveRdt(class string) (*rspec.LinuxIntelRdt, error) {
	return &rspec.LinuxIntelRdt{ClosID: class}, nil
}

// applyAdjust applies an adjustment with the project's own generator; returns the CDI
// device names handed to the injector.
func applyAdjust(spec *rspec.Spec, adj *api.ContainerAdjustment) ([]string, error) {
	var cdi []string
	gg := ogen.NewFromSpec(spec)
	g := nrigen.SpecGenerator(&gg,
		nrigen.WithBlockIOResolver(resolveBlockIO),
		nrigen.WithRdtResolver(resolveRdt),
		nrigen.WithCDIDeviceInjector(func(_ *rspec.Spec, names []string) error {
			cdi = append(cdi, names...)
			return nil
		}))
	err := g.Adjust(adj)
	return cdi, err
}

func specJSON(s *rspec.Spec) string { b, _ := json.Marshal(s); return string(b) }

func untouchedJSON(s *rspec.Spec) string {
	cp := struct {
		Version, Hostname string
		Root              *rspec.Root
		Cwd               string
		User              rspec.User
		NS                []rspec.LinuxNamespace
		Sysctl            map[string]string
	}{s.Version, s.Hostname, s.Root, s.Process.Cwd, s.Process.User, s.Linux.Namespaces, s.Linux.Sysctl}
	b, _ := json.Marshal(cp)
	return string(b)
}

// fields of the resources the OCI generator applies from an adjustment
func generatorApplies(f string) bool {
	switch f {
	case "cpuShares", "cpuQuota", "cpuPeriod", "cpuRtRuntime", "cpuRtPeriod", "cpus", "mems", "memLimit", "memSwap", "pids", "blockio", "rdt":
		return true
	}
	return strings.HasPrefix(f, "huge/") || strings.HasPrefix(f, "unified/")
}

// ---- judging --------------------------------------------------------------------------

// observedOrder returns the case with its chain in the order in which this execution's
// plugins were actually asked: equally indexed plugins (the twin fixture) have no prescribed
// relative order, so the model follows the order of their handler entries. Plugins with
// different indices keep their index order.
func observedOrder(ex *execution) Case {
	c := ex.c
	first := map[int]int{}
	for n, pi := range ex.invoked {
		if _, ok := first[pi]; !ok {
			first[pi] = n
		}
	}
	idx := fixtureSpecs[ex.fixture].idx
	chain := append([]Script{}, c.Chain...)
	sort.SliceStable(chain, func(a, b int) bool {
		pa, pb := chain[a].Plugin, chain[b].Plugin
		if idx[pa] != idx[pb] {
			return idx[pa] < idx[pb]
		}
		na, oka := first[pa]
		nb, okb := first[pb]
		if oka && okb {
			return na < nb
		}
		return oka && !okb
	})
	c.Chain = chain
	return c
}

func judge(ex *execution) Verdicts {
	ex.c = observedOrder(ex)
	c := ex.c
	e := Predict(c)
	v := Verdicts{Expect: e}
	kindClass := "kind:" + c.Kind
	v.History = map[string]any{
		"error": errText(ex.err), "invoked": ex.invoked, "model_fatal": e.Fatal, "model_fatal_desc": e.FatalDesc,
	}
	if ex.resp != nil {
		if m, ok := ex.resp.(proto.Message); ok {
			v.History["response"] = protoText(m)
		}
	}
	gotNil := ex.resp == nil
	if c.HugePod && ex.err != nil && len(ex.invoked) == 0 && strings.Contains(ex.err.Error(), "message length") {
		// a request above the protocol's message limit cannot be relayed to any plugin: it
		// is refused before the first plugin is asked, which no property speaks about
		for _, o := range []*Verdict{&v.C01, &v.C02, &v.C03, &v.C04, &v.C05} {
			o.Skip = "oversized_request_refused"
		}
		return v
	}

	if e.SpellingMix {
		// only C03's differential part (combined vs sequential through the same generator) is
		// independent of whether "/m2" and "/m2/" are one destination or two
		v.C01.Skip, v.C02.Skip, v.C04.Skip, v.C05.Skip = "spelling_mix", "spelling_mix", "spelling_mix", "spelling_mix"
		if c.Kind == "create" && ex.err == nil && e.Hazard == "" {
			judgeC03(ex, e, &v.C03)
		} else {
			v.C03.Skip = "spelling_mix"
		}
		return v
	}

	// ---------------- C01 ----------------
	switch {
	case e.Hazard != "":
		v.C01.Skip = e.Hazard
	case e.Fatal == "conflict":
		v.C01.NonTrivial = true
		dist := "adjacent"
		if e.FatalDist == 2 {
			dist = "one_between"
		} else if e.FatalDist > 2 {
			dist = "more_between"
		}
		tk := "third_party"
		if e.FatalTgt == "SELF" {
			tk = "own"
		}
		v.C01.Classes = []string{"collision:" + e.FatalPath + "/" + e.FatalFam, kindClass, "distance:" + dist, "target:" + tk, fmt.Sprintf("par:%d", c.Par)}
		if e.FatalPath == "adjust" && e.FatalAt-e.FatalDist >= 0 && e.FatalAt-e.FatalDist < len(c.Chain) {
			// how the earlier owner came to own the item
			if k := hasOp(&c.Chain[e.FatalAt-e.FatalDist], e.FatalFam, e.FatalKey); k >= 0 {
				op := c.Chain[e.FatalAt-e.FatalDist].Ops[k]
				how := op.Act
				if op.Rev {
					how += "_rev"
				}
				v.C01.Classes = append(v.C01.Classes, "owner_by:"+how)
			}
		}
		if ex.err == nil || !gotNil {
			v.C01.Fail = fmt.Sprintf("expected a conflict error (%s) but got err=%s response-nil=%v", e.FatalDesc, errText(ex.err), gotNil)
		}
	default:
		v.C01.Classes = []string{"no_collision", kindClass}
		// second sentence of C01: where the request succeeds, a value one plugin set for a
		// container's field is never silently replaced by another plugin's value
		if ex.err == nil {
			if d := replacedUpdateValue(ex, e); d != "" {
				v.C01.Fail = d
				v.C01.NonTrivial = true
			}
		}
	}

	// ---------------- C02 ----------------
	switch {
	case e.Hazard != "":
		v.C02.Skip = e.Hazard
	case e.Fatal != "":
		v.C02.Skip = "not_clean"
	case e.Dropped > 0 && e.Releases == 0:
		// a dropped ignore-failure update means two plugins did set one item: C05 owns "without
		// failing the request". Cases that also release another plugin's item stay in: the
		// release must hold whatever happens to the ignored update in the same response.
		v.C02.Skip = "ignored_conflict"
	default:
		sub := "a_disjoint"
		if e.Resets > 0 {
			sub = "c_reset"
		}
		if e.LoneDelPlug > 0 {
			sub = "b_lone_removal"
		}
		prepop := len(c.Orig.Res) > 0 || len(c.Req) > 0 || len(c.Orig.Ann)+len(c.Orig.Env)+len(c.Orig.Mounts)+len(c.Orig.Devices) > 0
		writers := 0
		for _, s := range c.Chain {
			if len(s.Ops) > 0 || len(s.Updates) > 0 {
				writers++
			}
		}
		v.C02.NonTrivial = writers >= 2 && (prepop || e.Releases > 0)
		v.C02.Classes = []string{"sub:" + sub, kindClass, fmt.Sprintf("writers:%d", writers)}
		if e.Releases > 0 {
			v.C02.Classes = append(v.C02.Classes, "release_of_other_plugins_item")
		}
		if len(c.Req) == len(allResFields()) || len(c.Orig.Res) == len(allResFields()) {
			v.C02.Classes = append(v.C02.Classes, "fully_prepopulated")
		}
		if ex.err != nil {
			v.C02.Fail = fmt.Sprintf("no two plugins set the same item, yet the request failed: %s", errText(ex.err))
		}
	}

	// ---------------- C04 ----------------
	if e.Hazard != "" && c.Kind == "update" {
		// a later ignore-failure update may or may not be dropped because of a leaked partial
		// claim, which changes what the plugins after it are shown
		v.C04.Skip = e.Hazard
	} else {
		judgeC04(ex, e, &v.C04)
		v.C04.Classes = append(v.C04.Classes, kindClass)
	}

	// ---------------- C03 ----------------
	switch {
	case c.Kind != "create":
		v.C03.Skip = "not_create"
	case e.Hazard != "":
		v.C03.Skip = e.Hazard
	case e.Fatal != "":
		v.C03.Skip = "not_clean"
	case ex.err != nil:
		v.C03.Skip = "request_failed"
	default:
		judgeC03(ex, e, &v.C03)
	}

	// ---------------- C05 ----------------
	switch {
	case e.Hazard != "":
		v.C05.Skip = e.Hazard
	case e.Fatal == "conflict":
		v.C05.Skip = "conflict"
	default:
		judgeC05(ex, e, &v.C05)
		v.C05.Classes = append(v.C05.Classes, kindClass)
	}
	return v
}

// replacedUpdateValue looks for a collected update whose field carries a value other than the
// one its single owner (by the model) wrote, although that owner's update was committed.
func replacedUpdateValue(ex *execution, e *Expect) string {
	for _, u := range ex.updates() {
		if u == nil {
			continue
		}
		sym := ex.id.sym(u.ContainerId)
		want := e.Updates[sym]
		got, _ := resFields(u.GetLinux().GetResources())
		for _, f := range sortedKeys(want) {
			g, ok := got[f]
			if !ok || g == want[f] {
				continue
			}
			// is it some plugin's value for that field? (the runtime's own requested value
			// showing through is C05's business)
			for _, s := range ex.c.Chain {
				for _, up := range s.Updates {
					if has(up.Fields, f) && g == expectedResValue(f, famW(fieldFam(f), up.ValOf, s.Plugin+1, false)) {
						return fmt.Sprintf("no conflict was reported, yet %s.%s carries %q (the value plugin p%d wrote in an update of %s) instead of its owner's %q",
							sym, f, g, s.Plugin, up.Target, want[f])
					}
				}
			}
		}
	}
	return ""
}

func rulesEqual(a, b []*api.LinuxDeviceCgroup) bool {
	if len(a) != len(b) {
		return false
	}
	for i := range a {
		if !proto.Equal(a[i], b[i]) {
			return false
		}
	}
	return true
}

func protoText(m proto.Message) string {
	b, err := json.Marshal(m)
	if err != nil {
		return fmt.Sprint(m)
	}
	return string(b)
}

// stripAdjustable clears everything plugins can adjust, leaving what must reach every plugin
// exactly as submitted (absent sections are normalised to empty ones: protobuf cannot tell).
func stripAdjustable(ct *api.Container) *api.Container {
	c := proto.Clone(ct).(*api.Container)
	c.Annotations, c.Env, c.Mounts, c.Args, c.Hooks, c.Rlimits = nil, nil, nil, nil, nil, nil
	if c.Linux == nil {
		c.Linux = &api.LinuxContainer{}
	}
	c.Linux.Devices, c.Linux.Resources, c.Linux.OomScoreAdj, c.Linux.CgroupsPath = nil, nil, nil, ""
	return c
}

func judgeC04(ex *execution, e *Expect, out *Verdict) {
	c := ex.c
	limit := len(c.Chain)
	if e.Fatal != "" {
		limit = e.FatalAt + 1
	}
	for pos := 0; pos < limit && pos < len(c.Chain); pos++ {
		pi := c.Chain[pos].Plugin
		ct, ok := ex.seenCtr[pi]
		if !ok {
			// not being invoked is C06/C07's business, and a failed earlier plugin (C02) stops the chain
			continue
		}
		if pod := ex.seenPod[pi]; pod == nil || !proto.Equal(pod, ex.pod) {
			out.Fail = fmt.Sprintf("chain position %d (plugin %d) was shown pod %v, runtime submitted %v", pos, pi, pod, ex.pod)
			return
		}
		switch c.Kind {
		case "stop":
			if !proto.Equal(ct, ex.sub) {
				out.Fail = fmt.Sprintf("chain position %d (plugin %d): the container of a stop request is not the one the runtime submitted", pos, pi)
				return
			}
		case "create":
			got := viewOfContainer(ct)
			want := e.Views[pos]
			if got.ResDup {
				out.Lenient = append(out.Lenient, "dup_key")
			}
			if d := diffViews(got, want, nil); d != "" {
				out.Fail = fmt.Sprintf("chain position %d (plugin %d) sees a container that is not the original with earlier adjustments applied: %s", pos, pi, d)
				return
			}
			if !rulesEqual(ct.GetLinux().GetResources().GetDevices(), ex.sub.GetLinux().GetResources().GetDevices()) {
				out.Fail = fmt.Sprintf("chain position %d (plugin %d): the device cgroup rules of the runtime's resources (no plugin can adjust them) are not what the runtime submitted: shown %v submitted %v",
					pos, pi, ct.GetLinux().GetResources().GetDevices(), ex.sub.GetLinux().GetResources().GetDevices())
				return
			}
			if len(ex.sub.GetLinux().GetResources().GetDevices()) > 0 {
				out.Classes = append(out.Classes, "original_has_device_cgroup_rules")
			}
			if a, b := stripAdjustable(ct), stripAdjustable(ex.sub); !proto.Equal(a, b) {
				out.Fail = fmt.Sprintf("chain position %d (plugin %d): fields no plugin can adjust differ from what the runtime submitted: shown %s submitted %s", pos, pi, protoText(a), protoText(b))
				return
			}
			if pos >= 1 && want.String() != e.Views[0].String() {
				out.NonTrivial = true
				out.Classes = append(out.Classes, fmt.Sprintf("changed_view_at:%d", pos))
			}
		case "update":
			if !proto.Equal(ct, ex.sub) {
				out.Fail = fmt.Sprintf("chain position %d (plugin %d): the container of an update request is not the one the runtime submitted: shown %s submitted %s", pos, pi, protoText(ct), protoText(ex.sub))
				return
			}
			got, dup := resFields(ex.seenRes[pi])
			if dup {
				out.Lenient = append(out.Lenient, "dup_key")
			}
			if d := diffMaps("resources", got, e.ReqRes[pos]); d != "" {
				out.Fail = fmt.Sprintf("chain position %d (plugin %d) sees update resources that are not the request with earlier updates applied: %s", pos, pi, d)
				return
			}
			if !rulesEqual(ex.seenRes[pi].GetDevices(), reqResources(c).GetDevices()) {
				out.Fail = fmt.Sprintf("chain position %d (plugin %d): the device cgroup rules of the runtime's requested resources (no plugin can change them) are not what the runtime submitted: shown %v submitted %v",
					pos, pi, ex.seenRes[pi].GetDevices(), reqResources(c).GetDevices())
				return
			}
			if c.ReqDevRules {
				out.Classes = append(out.Classes, "request_has_device_cgroup_rules")
			}
			if pos >= 1 && fmt.Sprint(e.ReqRes[pos]) != fmt.Sprint(e.ReqRes[0]) {
				out.NonTrivial = true
				out.Classes = append(out.Classes, fmt.Sprintf("changed_view_at:%d", pos))
			}
		}
	}
	if len(out.Classes) == 0 {
		out.Classes = []string{"unchanged_views"}
	}
}

func judgeC03(ex *execution, e *Expect, out *Verdict) {
	c := ex.c
	resp, _ := ex.resp.(*api.CreateContainerResponse)
	if resp == nil {
		out.Fail = "creation succeeded without a response"
		return
	}
	orig := origContainer(c, ex.id.self)
	lhs := specOf(orig)
	untouched := untouchedJSON(lhs)
	cdi, err := applyAdjust(lhs, resp.Adjust)
	if err != nil {
		out.Fail = "applying the combined adjustment failed: " + err.Error()
		return
	}
	// the same combined adjustment must give the same container every time it is applied
	// (the generator iterates over maps)
	for i := 0; i < 5; i++ {
		again := specOf(orig)
		if _, err := applyAdjust(again, resp.Adjust); err != nil {
			out.Fail = "applying the combined adjustment failed: " + err.Error()
			return
		}
		if d := diffViews(viewOfSpec(again), viewOfSpec(lhs), nil); d != "" {
			out.Fail = "applying the same combined adjustment twice gives different containers: " + d
			return
		}
		if a, b := specJSON(again), specJSON(lhs); a != b {
			out.Fail = "applying the same combined adjustment twice gives different specs (order of entries): " + a + " vs " + b
			return
		}
	}
	rhs := specOf(orig)
	var rhsCDI []string
	for _, s := range c.Chain {
		adj := renderAdjust(s)
		if adj != nil && len(adj.Args) > 0 && adj.Args[0] == "" {
			// the leading "" of UpdateArgs is a marker addressed to the adaptation ("replace,
			// whoever set them"), not part of the command line
			adj.Args = adj.Args[1:]
			if len(adj.Args) == 0 && rhs.Process != nil {
				// the bare marker: nothing is set again, the command line is the runtime's
				rhs.Process.Args = append([]string{}, specOf(orig).Process.Args...)
			}
		}
		n, err := applyAdjust(rhs, adj)
		if err != nil {
			out.Skip = "sequential_apply_failed"
			return
		}
		rhsCDI = append(rhsCDI, n...)
	}
	lv, rv := viewOfSpec(lhs), viewOfSpec(rhs)
	if d := diffViews(lv, rv, nil); d != "" {
		out.Fail = "spec from the combined adjustment differs from applying each plugin's adjustment in turn: " + d
		return
	}
	// mounts are applied in the order of the list: the two lists must agree in order too
	mountOrder := func(s *rspec.Spec) string {
		var d []string
		for _, m := range s.Mounts {
			d = append(d, m.Destination)
		}
		return fmt.Sprintf("%q", d)
	}
	if a, b := mountOrder(lhs), mountOrder(rhs); a != b {
		out.Fail = "spec from the combined adjustment differs from applying each plugin's adjustment in turn: order of the mounts " + a + " versus " + b
		return
	}
	if e.SpellingMix {
		out.Classes = []string{"spelling_mix_differential_only"}
		out.NonTrivial = e.Contrib >= 2
		return
	}
	// value-level expectations from the model
	want := e.Final.clone()
	// the generator only applies some resource fields; a memory limit also sets swap
	if _, ok := e.AdjRes["memLimit"]; ok {
		want.Res["memSwap"] = want.Res["memLimit"]
	} else if o, ok := e.Views[0].Res["memSwap"]; ok {
		want.Res["memSwap"] = o
	} else {
		delete(want.Res, "memSwap")
	}
	// an empty class name means "clear": the generator removes the block I/O / RDT section
	for _, f := range []string{"blockio", "rdt"} {
		if v, ok := want.Res[f]; ok && v == "" {
			delete(want.Res, f)
		}
	}
	if d := diffViews(lv, want, generatorApplies); d != "" {
		out.Fail = "spec from the combined adjustment does not carry the values of the final owners: " + d
		return
	}
	if d := diffLists("CDI devices", cdi, e.CDI); d != "" {
		out.Fail = "CDI devices are not all present in plugin order: " + d
		return
	}
	if d := diffLists("CDI devices (sequential)", rhsCDI, e.CDI); d != "" {
		out.Skip = "model_disagrees_with_sequential_cdi"
		return
	}
	if u := untouchedJSON(lhs); u != untouched {
		out.Fail = fmt.Sprintf("sections no plugin can adjust were changed: before %s after %s", untouched, u)
		return
	}
	// resources of the combined adjustment itself: exactly the fields plugins set, owner's value
	got, _ := resFields(resp.GetAdjust().GetLinux().GetResources())
	if d := diffMaps("adjustment resources", got, e.AdjRes); d != "" {
		out.Fail = "combined adjustment carries resource values no plugin set, or not its owner's: " + d
		return
	}
	multi := 0
	for _, n := range e.Appenders {
		if n >= 2 {
			multi++
		}
	}
	out.NonTrivial = e.Contrib >= 2 && (e.LoneDelOrig+e.LoneDelPlug+e.Resets > 0 || multi > 0)
	out.Classes = []string{fmt.Sprintf("contributors:%d", e.Contrib)}
	if e.LoneDelOrig > 0 {
		out.Classes = append(out.Classes, "lone_removal_of_original")
	}
	if e.LoneDelPlug > 0 {
		out.Classes = append(out.Classes, "lone_removal_of_plugin_item")
	}
	if e.Resets > 0 {
		out.Classes = append(out.Classes, "remove_then_set")
	}
	if multi > 0 {
		out.Classes = append(out.Classes, "multi_append")
	}
	fams := map[string]bool{}
	for _, s := range c.Chain {
		for _, op := range s.Ops {
			fams[op.Fam] = true
		}
	}
	for _, f := range sortedKeys(fams) {
		out.Classes = append(out.Classes, "fam:"+f)
	}
}

func judgeC05(ex *execution, e *Expect, out *Verdict) {
	c := ex.c
	if e.Fatal == "selfupdate" {
		out.NonTrivial = true
		out.Classes = []string{"self_update_during_create"}
		if ex.err == nil || ex.resp != nil {
			out.Fail = fmt.Sprintf("an update targeting the container being created must fail the request: err=%s response-nil=%v", errText(ex.err), ex.resp == nil)
		}
		return
	}
	if ex.err != nil {
		if e.Dropped > 0 {
			out.Fail = fmt.Sprintf("a conflicting ignore-failure update must be dropped without failing the request, but it failed: %s", errText(ex.err))
			out.NonTrivial = true
			return
		}
		out.Skip = "request_failed" // C02's business
		return
	}
	ups := ex.updates()
	var own *api.ContainerUpdate
	if c.Kind == "update" {
		if len(ups) == 0 {
			out.Fail = "update response has no entry (not even a placeholder) for the container being updated"
			return
		}
		own = ups[len(ups)-1]
		ups = ups[:len(ups)-1]
	}
	seen := map[string]bool{}
	for _, u := range ups {
		if u == nil {
			out.Fail = "nil entry in the middle of the update list"
			return
		}
		sym := ex.id.sym(u.ContainerId)
		if seen[sym] {
			out.Fail = fmt.Sprintf("target %s appears more than once in the collected updates", sym)
			return
		}
		seen[sym] = true
		if c.Kind == "update" && sym == "SELF" {
			out.Fail = "the container being updated appears before the last entry"
			return
		}
		if !e.Touched[sym] {
			out.Fail = fmt.Sprintf("collected updates name %s (%s), which no plugin updated", sym, u.ContainerId)
			return
		}
		got, _ := resFields(u.GetLinux().GetResources())
		want := e.Updates[sym]
		if want == nil {
			want = map[string]string{}
		}
		if len(want) == 0 && len(got) == 0 {
			out.Lenient = append(out.Lenient, "empty_entry")
		}
		if d := diffMaps("update["+sym+"]", got, want); d != "" {
			out.Fail = "collected update does not carry exactly the fields plugins set for it: " + d
			return
		}
	}
	for _, sym := range sortedKeys(e.Updates) {
		if len(e.Updates[sym]) == 0 || seen[sym] {
			continue
		}
		if c.Kind == "update" && sym == "SELF" {
			continue
		}
		out.Fail = fmt.Sprintf("target %s has committed fields %v but no entry in the response", sym, e.Updates[sym])
		return
	}
	if c.Kind == "update" {
		commits := e.Updates["SELF"]
		got, dup := resFields(own.GetLinux().GetResources())
		if dup {
			out.Lenient = append(out.Lenient, "dup_key")
		}
		switch {
		case len(commits) == 0 && !e.Touched["SELF"]:
			if own != nil && len(got) != 0 {
				out.Fail = fmt.Sprintf("no plugin changed the updated container, but its entry is not an empty placeholder: %v", got)
				return
			}
		case len(commits) == 0:
			// named by an update without fields (or only dropped ones): placeholder, empty entry,
			// or the bare requested resources
			req, _ := resFields(reqResources(c))
			if len(got) != 0 {
				if d := diffMaps("own", got, req); d != "" {
					out.Fail = "own entry without committed changes is neither empty nor the requested resources: " + d
					return
				}
			}
			out.Lenient = append(out.Lenient, "noop_own")
		default:
			if own == nil || own.ContainerId != ex.id.self {
				out.Fail = fmt.Sprintf("last entry is not the updated container's: %v", own)
				return
			}
			want, _ := resFields(reqResources(c))
			for k, val := range commits {
				want[k] = val
			}
			if d := diffMaps("own", got, want); d != "" {
				out.Fail = "own entry is not the requested resources overlaid with the plugins' changes: " + d
				return
			}
			if !rulesEqual(own.GetLinux().GetResources().GetDevices(), reqResources(c).GetDevices()) {
				out.Fail = fmt.Sprintf("own entry is not the requested resources overlaid with the plugins' changes: device cgroup rules %v, requested %v",
					own.GetLinux().GetResources().GetDevices(), reqResources(c).GetDevices())
				return
			}

		}
	}
	// classes / non-trivial
	distinct := len(e.Touched)
	repeated := false
	cnt := map[string]int{}
	for _, s := range c.Chain {
		for _, u := range s.Updates {
			cnt[u.Target]++
			if cnt[u.Target] >= 2 {
				repeated = true
			}
		}
	}
	ownPre := c.Kind == "update" && len(e.Updates["SELF"]) > 0 && len(c.Req) > 0
	out.NonTrivial = distinct >= 2 || repeated || e.Dropped > 0 || ownPre
	out.Classes = []string{fmt.Sprintf("targets:%d", distinct)}
	if repeated {
		out.Classes = append(out.Classes, "repeated_target")
	}
	if c.Kind == "update" && c.ReqDevRules && len(e.Updates["SELF"]) > 0 {
		out.Classes = append(out.Classes, "own_entry_over_a_request_with_device_cgroup_rules")
	}
	if e.Dropped > 0 {
		out.Classes = append(out.Classes, "ignored_conflict_dropped")
	}
	if ownPre {
		out.Classes = append(out.Classes, "own_update_over_prepopulated_request")
	}
	if has(c.Req, "pids") {
		out.Classes = append(out.Classes, "request_has_pids")
	}
}
