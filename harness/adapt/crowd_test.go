package adapt

// Crowds for C01: "for every number of plugins". A fresh runtime gets N filler plugins, each
// of which claims one item of its own in every creation / stop request, and two colliders
// behind them that set the same single item. The request must fail however many plugins
// have claimed something before (an ownership table indexed by a small integer type, a cache
// with a fixed number of slots, ... would show here). The crowd is part of Case so that a
// failing crowd replays like any other case.

import (
	"context"
	"fmt"
	"os"
	"path/filepath"
	"strings"
	"testing"
	"time"

	"github.com/containerd/nri/pkg/api"

	"nriverif/ev"
	"nriverif/fx"
)

var crowdItems = []string{"memLimit", "cpuShares", "oom", "cgroups", "args", "ann", "upd:cpuShares", "upd:memLimit"}

func crowdSet(a *api.ContainerAdjustment, item string, v int) {
	switch item {
	case "memLimit":
		a.SetLinuxMemoryLimit(int64(1000 + v))
	case "cpuShares":
		a.SetLinuxCPUShares(uint64(100 + v))
	case "oom":
		x := 10 + v
		a.SetLinuxOomScoreAdj(&x)
	case "cgroups":
		a.SetLinuxCgroupsPath(fmt.Sprintf("/crowd/%d", v))
	case "args":
		a.SetArgs([]string{"crowd", fmt.Sprint(v)})
	case "ann":
		a.AddAnnotation("crowd/shared", fmt.Sprint(v))
	}
}

func crowdUpdate(item, target string, v int) []*api.ContainerUpdate {
	u := &api.ContainerUpdate{}
	u.SetContainerId(target)
	switch item {
	case "upd:cpuShares":
		u.SetLinuxCPUShares(uint64(100 + v))
	case "upd:memLimit":
		u.SetLinuxMemoryLimit(int64(1000 + v))
	}
	return []*api.ContainerUpdate{u}
}

// runCrowd: Fillers filler plugins (index 10), collider A (index 50), collider B (index 60;
// absent when Control is set: then the request must succeed with A's value).
func runCrowd(cr *Crowd) ev.Outcome {
	o := ev.Outcome{NonTrivial: !cr.Control, Classes: []string{fmt.Sprintf("crowd:%d_claiming_plugins_ahead", cr.Fillers), "crowd:item:" + cr.Item}}
	if cr.Control {
		o.Classes = append(o.Classes, "crowd:control")
	}
	rt, err := fx.NewRuntime()
	if err != nil {
		return ev.Outcome{Excluded: "fixture_error", Overloaded: true, History: err.Error()}
	}
	var plugins []*fx.Plugin
	defer func() {
		for _, p := range plugins {
			if p.Stub != nil {
				p.Stub.Stop()
			}
		}
		rt.Stop()
	}()
	w := &fx.ActiveWatcher{}
	isUpd := strings.HasPrefix(cr.Item, "upd:")
	add := func(name, idx string, create func(ct *api.Container) (*api.ContainerAdjustment, []*api.ContainerUpdate)) error {
		p := &fx.Plugin{Name: name, Idx: idx}
		p.OnEvent = func(_ context.Context, _ api.Event, pod *api.PodSandbox, _ *api.Container) error {
			if fx.IsProbe(pod) {
				w.Seen(name)
			}
			return nil
		}
		p.OnCreate = func(_ context.Context, _ *api.PodSandbox, ct *api.Container) (*api.ContainerAdjustment, []*api.ContainerUpdate, error) {
			a, u := create(ct)
			return a, u, nil
		}
		plugins = append(plugins, p)
		return rt.Connect(p)
	}
	var names []string
	for i := 0; i < cr.Fillers; i++ {
		i := i
		name := fmt.Sprintf("f%03d", i)
		names = append(names, name)
		if err := add(name, "10", func(*api.Container) (*api.ContainerAdjustment, []*api.ContainerUpdate) {
			a := &api.ContainerAdjustment{}
			a.AddAnnotation(fmt.Sprintf("crowd/f%03d", i), "x")
			return a, nil
		}); err != nil {
			return ev.Outcome{Excluded: "fixture_error", Overloaded: true, History: err.Error()}
		}
	}
	collider := func(v int) func(*api.Container) (*api.ContainerAdjustment, []*api.ContainerUpdate) {
		return func(*api.Container) (*api.ContainerAdjustment, []*api.ContainerUpdate) {
			if isUpd {
				return nil, crowdUpdate(cr.Item, "crowd-victim", v)
			}
			a := &api.ContainerAdjustment{}
			crowdSet(a, cr.Item, v)
			return a, nil
		}
	}
	if err := add("a", "50", collider(1)); err != nil {
		return ev.Outcome{Excluded: "fixture_error", Overloaded: true, History: err.Error()}
	}
	names = append(names, "a")
	if !cr.Control {
		if err := add("b", "60", collider(2)); err != nil {
			return ev.Outcome{Excluded: "fixture_error", Overloaded: true, History: err.Error()}
		}
		names = append(names, "b")
	}
	if err := rt.WaitActive(w, 120*time.Second, names...); err != nil {
		return ev.Outcome{Excluded: "fixture_error", Overloaded: true, History: err.Error()}
	}
	rsp, err := rt.A.CreateContainer(context.Background(), &api.CreateContainerRequest{
		Pod:       &api.PodSandbox{Id: "crowd-pod", Name: "pod", Namespace: "ns"},
		Container: &api.Container{Id: "crowd-ctr", PodSandboxId: "crowd-pod", Name: "ctr", Args: []string{"orig"}},
	})
	switch {
	case cr.Control && err != nil:
		return ev.Failf("crowd control: %d claiming plugins and one plugin setting %s: the request failed: %v", cr.Fillers, cr.Item, err)
	case !cr.Control && err == nil:
		return ev.Failf("two plugins (a, b) both set %s behind %d other plugins that each claimed an item of their own, and the request succeeded: adjustment %s updates %v",
			cr.Item, cr.Fillers, protoText(rsp.GetAdjust()), rsp.GetUpdate())
	}
	return o
}

// TestExh_C01: a few crowds per run (the sizes around 256 and a control).
func TestExh_C01(t *testing.T) {
	r := ev.Get("C01")
	r.NoJournal()
	if _, err := os.Stat(filepath.Join(ev.OutDir(), "C01.fail.json")); err == nil && os.Getenv("VERIF_REPLAY") == "" {
		t.Skip("the generated search already failed in this process")
	}
	defer r.Flush()
	seed := 0
	fmt.Sscan(os.Getenv("VERIF_SEED"), &seed)
	sizes := []int{255, 256, 300}
	if os.Getenv("VERIF_TIER") == "thorough" {
		sizes = []int{3, 127, 254, 255, 256, 257, 300, 520}
	}
	for k, n := range sizes {
		item := crowdItems[(seed+k)%len(crowdItems)]
		controls := []bool{false}
		if k == 0 {
			controls = append(controls, true)
		}
		for _, control := range controls {
			c := Case{Kind: "create", Crowd: &Crowd{Fillers: n, Item: item, Control: control}}
			o := runCrowd(c.Crowd)
			r.Record(c, o)
			if o.Fail != "" {
				t.Fatalf("C01: %s", o.Fail)
			}
		}
	}
}
