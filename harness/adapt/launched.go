package adapt

// Pre-installed (runtime-launched) plugins for E1. Fixture 4 mixes plugins the Adaptation
// launches from its plugin directory with external ones. A launched plugin is this very test
// binary, started by the Adaptation through a symlink "<idx>-<name>-e1pre": init() below
// notices the plugin environment and turns the process into a stub plugin. It cannot look a
// case up in the harness' memory, so the harness hands every launched plugin its (already
// rendered) response in an annotation of the request's pod, and the plugin writes what it was
// shown to a record directory named by another pod annotation.

import (
	"context"
	"encoding/base64"
	"fmt"
	"net"
	"os"
	"path/filepath"
	"sort"
	"strconv"
	"strings"
	"time"

	"github.com/containerd/nri/pkg/api"
	"github.com/containerd/nri/pkg/stub"
	"google.golang.org/protobuf/proto"
)

const (
	launchedSuffix = "-e1pre"
	annDir         = "e1/dir"    // record directory
	annScript      = "e1/script" // + "/<plugin index>": base64 of the response to give
	annDelay       = "e1/delay"  // + "/<plugin index>": handler delay in ms
)

func init() {
	if os.Getenv(api.PluginSocketEnvVar) == "" || !strings.HasSuffix(os.Getenv(api.PluginNameEnvVar), launchedSuffix[1:]) {
		return
	}
	launchedMain()
}

type launchedPlugin struct {
	idx string
	seq int
}

// record writes what the plugin was shown; the file appears under its final name only when
// it is complete.
func (l *launchedPlugin) record(pod *api.PodSandbox, ct *api.Container, r *api.LinuxResources) {
	dir := pod.GetAnnotations()[annDir]
	if dir == "" {
		return
	}
	l.seq++
	b, err := proto.Marshal(&api.UpdateContainerRequest{Pod: pod, Container: ct, LinuxResources: r})
	if err != nil {
		return
	}
	name := fmt.Sprintf("%s.%s.%020d.%d", ct.GetId(), l.idx, time.Now().UnixNano(), l.seq)
	tmp := filepath.Join(dir, ".tmp-"+name)
	if os.WriteFile(tmp, b, 0o600) == nil {
		_ = os.Rename(tmp, filepath.Join(dir, name))
	}
}

func (l *launchedPlugin) script(pod *api.PodSandbox) *api.CreateContainerResponse {
	if d, err := strconv.Atoi(pod.GetAnnotations()[annDelay+"/"+l.idx]); err == nil && d > 0 {
		time.Sleep(time.Duration(d) * time.Millisecond)
	}
	s := pod.GetAnnotations()[annScript+"/"+l.idx]
	if s == "" {
		return nil
	}
	b, err := base64.StdEncoding.DecodeString(s)
	if err != nil {
		return nil
	}
	rsp := &api.CreateContainerResponse{}
	if proto.Unmarshal(b, rsp) != nil {
		return nil
	}
	return rsp
}

func (l *launchedPlugin) CreateContainer(_ context.Context, pod *api.PodSandbox, ct *api.Container) (*api.ContainerAdjustment, []*api.ContainerUpdate, error) {
	l.record(pod, ct, nil)
	if r := l.script(pod); r != nil {
		return r.Adjust, r.Update, nil
	}
	return nil, nil, nil
}

func (l *launchedPlugin) UpdateContainer(_ context.Context, pod *api.PodSandbox, ct *api.Container, res *api.LinuxResources) ([]*api.ContainerUpdate, error) {
	l.record(pod, ct, res)
	if r := l.script(pod); r != nil {
		return r.Update, nil
	}
	return nil, nil
}

func (l *launchedPlugin) StopContainer(_ context.Context, pod *api.PodSandbox, ct *api.Container) ([]*api.ContainerUpdate, error) {
	l.record(pod, ct, nil)
	if r := l.script(pod); r != nil {
		return r.Update, nil
	}
	return nil, nil
}

func launchedMain() {
	// never outlive the harness by much: the connection closing ends the process, and so does
	// a hard limit
	go func() {
		time.Sleep(3 * time.Hour)
		os.Exit(0)
	}()
	fd, err := strconv.Atoi(os.Getenv(api.PluginSocketEnvVar))
	if err != nil {
		os.Exit(91)
	}
	file := os.NewFile(uintptr(fd), "nri")
	conn, err := net.FileConn(file)
	if err != nil {
		os.Exit(92)
	}
	file.Close()
	l := &launchedPlugin{idx: os.Getenv(api.PluginIdxEnvVar)}
	st, err := stub.New(l, stub.WithConnection(conn), stub.WithOnClose(func() { os.Exit(0) }))
	if err != nil {
		os.Exit(93)
	}
	if err := st.Start(context.Background()); err != nil {
		os.Exit(94)
	}
	select {}
}

// ---- harness side ---------------------------------------------------------------------------

// launchedDir prepares the plugin directory of a fixture: one symlink to this test binary per
// launched pool plugin.
func launchedDir(n int) (plugins, records string, err error) {
	spec := fixtureSpecs[n]
	exe, err := os.Executable()
	if err != nil {
		return "", "", err
	}
	removeStale()
	base, err := os.MkdirTemp("/tmp", "nve1pre")
	if err != nil {
		return "", "", err
	}
	plugins, records = filepath.Join(base, "plugins"), filepath.Join(base, "rec")
	for _, d := range []string{plugins, records} {
		if err := os.Mkdir(d, 0o700); err != nil {
			return "", "", err
		}
	}
	for pi := 0; pi < poolSize; pi++ {
		if !spec.launched[pi] {
			continue
		}
		if err := os.Symlink(exe, filepath.Join(plugins, spec.idx[pi]+"-"+spec.names[pi])); err != nil {
			return "", "", err
		}
	}
	return plugins, records, nil
}

// brief puts the responses of the launched plugins of a case, and the record directory,
// into the pod of a request.
func (f *fixture) brief(ex *execution) {
	spec := fixtureSpecs[ex.fixture]
	if f.recDir == "" {
		return
	}
	ex.pod.Annotations[annDir] = f.recDir
	for _, s := range ex.c.Chain {
		if !spec.launched[s.Plugin] {
			continue
		}
		rsp := &api.CreateContainerResponse{Update: renderUpdates(s, ex.id)}
		if ex.c.Kind == "create" {
			rsp.Adjust = renderAdjust(s)
		}
		b, err := proto.Marshal(rsp)
		if err != nil {
			continue
		}
		ex.pod.Annotations[annScript+"/"+spec.idx[s.Plugin]] = base64.StdEncoding.EncodeToString(b)
		if s.DelayMs > 0 {
			ex.pod.Annotations[annDelay+"/"+spec.idx[s.Plugin]] = strconv.Itoa(s.DelayMs)
		}
	}
}

// collect reads what the launched plugins recorded for a request and rebuilds the
// invocation order of all plugins from the time stamps.
func (f *fixture) collect(ex *execution) {
	if f.recDir == "" {
		return
	}
	spec := fixtureSpecs[ex.fixture]
	files, _ := filepath.Glob(filepath.Join(f.recDir, ex.id.self+".*"))
	ex.mu.Lock()
	defer ex.mu.Unlock()
	for _, fn := range files {
		parts := strings.Split(filepath.Base(fn), ".")
		if len(parts) < 4 {
			continue
		}
		idx, ts := parts[len(parts)-3], parts[len(parts)-2]
		pi := -1
		for k := 0; k < poolSize; k++ {
			if spec.launched[k] && spec.idx[k] == idx {
				pi = k
			}
		}
		b, err := os.ReadFile(fn)
		_ = os.Remove(fn)
		if pi < 0 || err != nil {
			continue
		}
		rec := &api.UpdateContainerRequest{}
		if proto.Unmarshal(b, rec) != nil {
			continue
		}
		t, _ := strconv.ParseInt(ts, 10, 64)
		ex.invoked = append(ex.invoked, pi)
		ex.invokedAt = append(ex.invokedAt, t)
		ex.seenCtr[pi] = rec.Container
		if rec.Pod != nil {
			ex.seenPod[pi] = rec.Pod
		}
		if rec.LinuxResources != nil {
			ex.seenRes[pi] = rec.LinuxResources
		}
	}
	if len(ex.invokedAt) == len(ex.invoked) {
		order := make([]int, len(ex.invoked))
		for i := range order {
			order[i] = i
		}
		sort.SliceStable(order, func(a, b int) bool { return ex.invokedAt[order[a]] < ex.invokedAt[order[b]] })
		inv, at := make([]int, len(order)), make([]int64, len(order))
		for i, o := range order {
			inv[i], at[i] = ex.invoked[o], ex.invokedAt[o]
		}
		ex.invoked, ex.invokedAt = inv, at
	}
}

// cleanupFixtures stops every fixture and removes the directories of launched plugins (end of
// the test binary's run).
func cleanupFixtures() {
	fixMu.Lock()
	defer fixMu.Unlock()
	for n, f := range fixtures {
		if f == nil {
			continue
		}
		fixtures[n] = nil
		if f.recDir != "" {
			f.rt.Stop() // kills the launched plugins
			os.RemoveAll(filepath.Dir(f.recDir))
		}
	}
}

// removeStale removes plugin directories left behind by test binaries that were killed.
func removeStale() {
	old, _ := filepath.Glob("/tmp/nve1pre*")
	for _, d := range old {
		if st, err := os.Stat(d); err == nil && time.Since(st.ModTime()) > 3*time.Hour {
			os.RemoveAll(d)
		}
	}
}
