// Package adapt is engine E1: one generated runtime request (create / update / stop) through a
// chain of stub plugins attached to a real in-process Adaptation, judged by five oracles
// (C01 conflict detection, C02 no false conflicts, C03 combined adjustment, C04 plugin
// views, C05 collected updates).
package adapt

import (
	"fmt"
	"sort"
	"strings"

	"pgregory.net/rapid"

	"nriverif/gen"
)

// A case is written in terms of small symbolic operations; the harness renders them to
// protobuf messages deterministically (render.go), so the case stays small and readable
// and the reference model (model.go) never has to parse what the code under test parses.

// Op is one adjustment operation of a plugin.
//
//	Fam: ann env mount dev            — keyed, removable   (Act: set | del | reset)
//	     cdi rlimit huge unified      — keyed, set only    (Act: set)
//	     args                         — Act: set | reset (reset = UpdateArgs, leading "") | del (UpdateArgs with no arguments)
//	     hook                         — Key = hook list, Act: add (append, never conflicts)
//	     cgroups oom <scalar fields>  — Act: set
type Op struct {
	Fam string `json:"fam"`
	Key string `json:"key,omitempty"`
	Act string `json:"act"`
	// Rev renders a reset of a list family (env, mount, dev) as [set, removal marker] instead
	// of [removal marker, set]; the meaning is the same (a set wins over a removal of the
	// same key within one response whatever the order).
	Rev bool `json:"rev,omitempty"`
	// ValOf makes the plugin write somebody else's value instead of its own: "rt" = exactly
	// the runtime's original value of that item, "p<k>" = the value pool plugin k would
	// write. The plugin still *sets* the item (claims it); only the value coincides.
	ValOf string `json:"val_of,omitempty"`
	// Payload makes a removal marker (del / reset of ann, env, mount, dev) carry a whole entry
	// beside its marked key, as a plugin that marks the container's own entry in place sends it
	Payload bool `json:"payload,omitempty"`
}

// Upd is one container update requested by a plugin.
type Upd struct {
	Target string   `json:"target"`           // SELF (the request's container), T1, T2, T3
	Fields []string `json:"fields,omitempty"` // scalar fields, "huge/<size>", "unified/<key>"
	Ignore bool     `json:"ignore,omitempty"`
	NoRes  bool     `json:"nores,omitempty"` // update without a resources section
	// SelfDup (ignore-failure updates only): the first "huge/<size>" field is listed twice in
	// the update. The second entry collides with the first, which is the only way the FIRST
	// update of a container can conflict; the update must then be dropped in its entirety.
	SelfDup bool   `json:"self_dup,omitempty"`
	ValOf   string `json:"val_of,omitempty"` // as Op.ValOf, for all fields of this update
}

type Script struct {
	// DelayMs makes the plugin's handler answer late (well within every timeout)
	DelayMs int   `json:"delay_ms,omitempty"`
	Plugin  int   `json:"plugin"` // pool index 0..4 (chain order = fixture's index order)
	Ops     []Op  `json:"ops,omitempty"`
	Updates []Upd `json:"updates,omitempty"`
	// Evict: targets the plugin asks the runtime to evict (the evict field of a creation /
	// update response, which pkg/stub cannot express: the harness adds it on the wire).
	// No listed property speaks about evictions and the adaptation ignores the field: an
	// eviction must change nothing about what is collected for that container.
	Evict []string `json:"evict,omitempty"`
}

// Orig describes the runtime's original container (create) by the keys that are present;
// values are derived ("orig-<key>").
type Orig struct {
	Ann      []string `json:"ann,omitempty"`
	Env      []string `json:"env,omitempty"`
	Mounts   []string `json:"mounts,omitempty"`
	Devices  []string `json:"devices,omitempty"`
	Args     bool     `json:"args,omitempty"`
	Hooks    []string `json:"hooks,omitempty"` // hook lists that have one original hook
	Rlimits  []string `json:"rlimits,omitempty"`
	Res      []string `json:"res,omitempty"` // pre-populated resource fields (scalars, huge/<s>, unified/<k>)
	Cgroups  bool     `json:"cgroups,omitempty"`
	Oom      bool     `json:"oom,omitempty"`
	NilParts bool     `json:"nil_parts,omitempty"` // leave absent sections nil instead of empty
	DevRules bool     `json:"dev_rules,omitempty"` // the original's resources carry device cgroup rules
}

type Case struct {
	Fixture int      `json:"fixture"`
	Kind    string   `json:"kind"` // create | update | stop
	Orig    Orig     `json:"orig"`
	Req     []string `json:"req,omitempty"` // update: fields of the runtime's requested resources
	// ReqDevRules: the runtime's requested resources also carry device cgroup rules (part of
	// LinuxResources; no plugin can change them)
	ReqDevRules bool `json:"req_dev_rules,omitempty"`
	// HugePod: the pod of the request carries an annotation that alone makes the request
	// larger than the 4 MiB message limit of the plugin protocol
	HugePod bool `json:"huge_pod,omitempty"`
	// Crowd: instead of a fixture case, a crowd (see crowd_test.go)
	Crowd *Crowd   `json:"crowd,omitempty"`
	Chain []Script `json:"chain"`
	Par   int      `json:"par,omitempty"` // number of identical requests in flight (different ids)
	// Pal selects the value palette the case is rendered with (render.go: plain, big numbers,
	// negative numbers, odd strings).
	Pal int `json:"pal,omitempty"`
	// Share (update requests): the request is followed by a second update request for another
	// container whose requested-resources section is the SAME object the caller used for the
	// first (a runtime applying one resources object to several containers). In the second
	// request every update of the requested container keeps only its first field (see
	// followUp), so anything the first request left behind in the caller's object shows.
	Share bool `json:"share,omitempty"`
}

// followUp is the second request of a Share case.
func followUp(c Case) Case {
	d := c
	d.Share = false
	d.Chain = nil
	for _, s := range c.Chain {
		t := Script{Plugin: s.Plugin, Ops: s.Ops}
		for _, u := range s.Updates {
			if u.Target == "SELF" && len(u.Fields) > 1 {
				u.Fields = append([]string{}, u.Fields[:1]...)
			}
			t.Updates = append(t.Updates, u)
		}
		d.Chain = append(d.Chain, t)
	}
	return d
}

var (
	annKeys = []string{"a1", "a2", "a3", "a10", "+a"} // "a10": "a1" is a prefix of it; "+a": first byte sorts below the dash
	// (the last two are names that look like credentials: code that treats variables by what
	// their name suggests shows there)
	envKeys = []string{"E1", "E2", "E3", "E10", "DB_PASSWORD", "REGISTRY_API_TOKEN"}
	// keys that themselves begin with a dash: legal for items of the original container and
	// for removals ("--a1" marks "-a1"); they cannot be SET through an adjustment (a set of
	// "-a1" is the removal of "a1"), so they only occur in the original and in lone removals
	annDashKeys = []string{"-a1"}
	envDashKeys = []string{"-E1"}
	// Mount destinations are compared as written: two are not in clean form, one is also a
	// device path (a mount and a device at one path are different items), and "/m2" / "/m2/"
	// are two spellings of one directory (cases using both are judged by C03's differential
	// oracle only, see Expect.SpellingMix).
	mountKeys  = []string{"/m1", "/m2/", "/m1/./sub", "/dev/d1", "/m2", "/m10"}
	devKeys    = []string{"/dev/d1", "/dev/d2", "/dev/d3", "/dev/d10", "/dev/d1/x"}
	cdiKeys    = []string{"v.com/c=x1", "v.com/c=x2", "v.com/c=x3"}
	rlimitKeys = []string{"RLIMIT_NOFILE", "RLIMIT_NPROC", "RLIMIT_CORE"}
	hugeKeys   = []string{"2MB", "1GB"}
	// two made-up keys and three real cgroup v2 files that are the unified spelling of typed
	// fields (pids limit, memory limit, CPU shares): a typed field and its unified twin are
	// two different items
	unifiedKeys = []string{"u.a", "-u.a", "pids.max", "memory.max", "cpu.weight"} // "-u.a": unified keys have no removal markers, a dash is part of the name
	hookKeys    = []string{"prestart", "createRuntime", "createContainer", "startContainer", "poststart", "poststop"}
	scalarFams  = []string{"memLimit", "memReservation", "memSwap", "memKernel", "memKernelTcp", "memSwappiness",
		"memDisableOom", "memUseHierarchy", "cpuShares", "cpuQuota", "cpuPeriod", "cpuRtRuntime", "cpuRtPeriod",
		"cpus", "mems", "pids", "blockio", "rdt"}
	removableFams = []string{"ann", "env", "mount", "dev"}
	keyedSetFams  = []string{"cdi", "rlimit", "huge", "unified"}
	// T0 is the target with an EMPTY container id: an update that names no container is an
	// update of "the container with id ''", a third-party target like any other.
	targets = []string{"T1", "T2", "T3", "T0"}
)

func keysOf(fam string) []string {
	switch fam {
	case "ann":
		return annKeys
	case "env":
		return envKeys
	case "mount":
		return mountKeys
	case "dev":
		return devKeys
	case "cdi":
		return cdiKeys
	case "rlimit":
		return rlimitKeys
	case "huge":
		return hugeKeys
	case "unified":
		return unifiedKeys
	case "hook":
		return hookKeys
	}
	return []string{""}
}

// allResFields lists every resource field an update (or an update request) can carry.
func allResFields() []string {
	f := append([]string{}, scalarFams...)
	for _, h := range hugeKeys {
		f = append(f, "huge/"+h)
	}
	for _, u := range unifiedKeys {
		f = append(f, "unified/"+u)
	}
	return f
}

func subset(t *rapid.T, label string, all []string, pEach int) []string {
	var out []string
	for _, k := range all {
		if rapid.IntRange(0, 99).Draw(t, label+":"+k) < pEach {
			out = append(out, k)
		}
	}
	return out
}

// Bias selects which class of cases a property's generator favours.
type Bias struct {
	Kinds       []string // request kinds to draw from
	Collide     int      // percent chance to force a collision between two chain plugins
	Release     int      // percent chance to force a removal (lone or reset) of another plugin's item
	Populated   int      // percent chance for a fully pre-populated original / update request
	Updates     int      // percent chance that a plugin issues updates
	IgnoreFlags int      // percent chance of ignore-failure on an update
	Append      int      // percent chance to make 2-5 plugins append to one hook list / add distinct rlimit types or CDI names
	NearMiss    int      // percent chance to force two plugins onto sibling items (same family / field, different key / target)
	MaxPar      int
	// ReleaseBehindDrop: percent chance (creation requests, three or more plugins) of the story
	// "the response that carries a dropped ignore-failure update also releases an item of an
	// earlier plugin, which a later plugin sets again"
	ReleaseBehindDrop int
}

func genOrig(t *rapid.T, full bool) Orig {
	p := 40
	if full {
		p = 100
	}
	o := Orig{
		Ann:      subset(t, "oann", append(append([]string{}, annKeys...), annDashKeys...), p),
		Env:      subset(t, "oenv", append(append([]string{}, envKeys...), envDashKeys...), p),
		Mounts:   subset(t, "omnt", mountKeys[:4], p), // never both spellings of /m2 in the original
		Devices:  subset(t, "odev", devKeys, p),
		Args:     full || rapid.Bool().Draw(t, "oargs"),
		Hooks:    subset(t, "ohook", hookKeys, p/2),
		Rlimits:  subset(t, "orl", rlimitKeys, p),
		Res:      subset(t, "ores", allResFields(), p),
		Cgroups:  full || rapid.Bool().Draw(t, "ocg"),
		Oom:      full || rapid.Bool().Draw(t, "ooom"),
		NilParts: rapid.Bool().Draw(t, "nilparts"),
		DevRules: rapid.IntRange(0, 2).Draw(t, "devrules") == 0,
	}
	return o
}

// genOp draws one adjustment op for a plugin avoiding (fam,key) pairs it already used.
func genOp(t *rapid.T, used map[string]bool) (Op, bool) {
	var op Op
	switch rapid.IntRange(0, 9).Draw(t, "opclass") {
	case 0, 1, 2, 3:
		op.Fam = rapid.SampledFrom(removableFams).Draw(t, "fam")
		op.Key = rapid.SampledFrom(keysOf(op.Fam)).Draw(t, "key")
		op.Act = rapid.SampledFrom([]string{"set", "set", "del", "reset"}).Draw(t, "act")
		if op.Act == "reset" && op.Fam != "ann" {
			op.Rev = rapid.Bool().Draw(t, "rev")
		}
		if (op.Fam == "ann" || op.Fam == "env") && gen.Uniform(t, "dashkey", 6) == 0 {
			op.Key, op.Act, op.Rev = "-"+op.Key[:1]+"1", "del", false // "-a1" / "-E1"
		}
	case 4, 5:
		op.Fam = rapid.SampledFrom(keyedSetFams).Draw(t, "fam")
		op.Key = rapid.SampledFrom(keysOf(op.Fam)).Draw(t, "key")
		op.Act = "set"
	case 6:
		op.Fam = "args"
		// del = the bare override marker: UpdateArgs with no arguments (Args == [""])
		op.Act = rapid.SampledFrom([]string{"set", "reset", "del"}).Draw(t, "act")
	case 7:
		op.Fam = "hook"
		op.Key = rapid.SampledFrom(hookKeys).Draw(t, "key")
		op.Act = "add"
	case 8:
		op.Fam = rapid.SampledFrom([]string{"cgroups", "oom"}).Draw(t, "fam")
		op.Act = "set"
	default:
		op.Fam = rapid.SampledFrom(scalarFams).Draw(t, "fam")
		op.Act = "set"
	}
	id := op.Fam + "/" + op.Key
	if used[id] {
		return op, false
	}
	used[id] = true
	if op.Act != "del" {
		op.ValOf = genValOf(t) // hooks too: a hook equal to the runtime's or to another plugin's
	}
	return op, true
}

// genValOf: mostly the plugin's own value; sometimes exactly the runtime's, rarely another
// plugin's.
func genValOf(t *rapid.T) string {
	switch rapid.IntRange(0, 19).Draw(t, "valof") {
	case 0, 1, 2:
		return "rt"
	case 3:
		return fmt.Sprintf("p%d", rapid.IntRange(0, poolSize-1).Draw(t, "valofp"))
	case 4, 5:
		return "zero" // the zero / empty value (an empty class name, 0, false, "")
	case 6:
		return "rt~" // the runtime's mount / device with one option / the file mode changed
	case 7:
		return "unl" // -1, "unlimited", in the signed resource fields
	}
	return ""
}

// genUpd draws one update. A plugin may name a target in several updates of one response,
// but sets each (target, field) at most once (used tracks "target/field" and "target").
func genUpd(t *rapid.T, kind string, b Bias, used map[string]bool) (Upd, bool) {
	tg := append([]string{}, targets...)
	tg = append(tg, "SELF")
	u := Upd{Target: rapid.SampledFrom(tg).Draw(t, "target")}
	if used[u.Target] && rapid.IntRange(0, 2).Draw(t, "again") != 0 {
		return u, false // mostly one update per target, sometimes several
	}
	used[u.Target] = true
	if rapid.IntRange(0, 19).Draw(t, "nores") == 0 {
		u.NoRes = true
	} else {
		n := rapid.IntRange(0, 4).Draw(t, "nfields")
		all := allResFields()
		for i := 0; i < n; i++ {
			f := rapid.SampledFrom(all).Draw(t, "field")
			if !used[u.Target+"/"+f] {
				used[u.Target+"/"+f] = true
				u.Fields = append(u.Fields, f)
			}
		}
	}
	u.Ignore = rapid.IntRange(0, 99).Draw(t, "ignore") < b.IgnoreFlags
	if !u.NoRes {
		u.ValOf = genValOf(t)
	}
	if u.Ignore && hugeField(u) != "" && gen.Uniform(t, "selfdup", 4) == 0 {
		u.SelfDup = true
	}
	return u, true
}

// hugeField returns the first hugepage field of an update ("" if none).
func hugeField(u Upd) string {
	for _, f := range u.Fields {
		if strings.HasPrefix(f, "huge/") {
			return f
		}
	}
	return ""
}

// GenCase draws a case with the given bias.
func GenCase(t *rapid.T, b Bias) Case {
	c := Case{
		Fixture: rapid.IntRange(0, numFixtures-1).Draw(t, "fixture"),
		Kind:    rapid.SampledFrom(b.Kinds).Draw(t, "kind"),
		Par:     1,
	}
	if gen.Uniform(t, "palette", 10) < 6 {
		c.Pal = gen.Uniform(t, "pal", numPals-1) + 1
	}
	full := rapid.IntRange(0, 99).Draw(t, "full") < b.Populated
	if c.Kind == "create" {
		c.Orig = genOrig(t, full)
		c.HugePod = gen.Uniform(t, "hugepod", 120) == 0
	}
	if c.Kind == "update" {
		p := 40
		if full {
			p = 100
		}
		c.Req = subset(t, "req", allResFields(), p)
		if rapid.IntRange(0, 7).Draw(t, "emptyreq") == 0 {
			c.Req = nil
			c.Orig.NilParts = rapid.Bool().Draw(t, "nilreq") // nil vs empty resources section
		}
		c.Share = gen.Uniform(t, "share", 4) == 0
		c.ReqDevRules = gen.Uniform(t, "reqdevrules", 3) == 0
	}
	// chain: a non-empty subset of the pool, in chain order
	n := rapid.IntRange(1, poolSize).Draw(t, "nchain")
	perm := rapid.Permutation([]int{0, 1, 2, 3, 4}).Draw(t, "perm")
	members := append([]int{}, perm[:n]...)
	sort.Ints(members)
	for _, m := range members {
		s := Script{Plugin: m}
		used := map[string]bool{}
		if c.Kind == "create" {
			nops := rapid.IntRange(0, 5).Draw(t, "nops")
			for i := 0; i < nops; i++ {
				if op, ok := genOp(t, used); ok {
					s.Ops = append(s.Ops, op)
				}
			}
		}
		if rapid.IntRange(0, 99).Draw(t, "hasupd") < b.Updates {
			nu := rapid.IntRange(1, 3).Draw(t, "nupd")
			ut := map[string]bool{}
			for i := 0; i < nu; i++ {
				if u, ok := genUpd(t, c.Kind, b, ut); ok {
					s.Updates = append(s.Updates, u)
				}
			}
		}
		c.Chain = append(c.Chain, s)
	}
	// forced collision: copy one set-like op / update field from an earlier plugin to a later one
	if len(c.Chain) >= 2 && rapid.IntRange(0, 99).Draw(t, "collide") < b.Collide {
		i := rapid.IntRange(0, len(c.Chain)-2).Draw(t, "ci")
		j := rapid.IntRange(i+1, len(c.Chain)-1).Draw(t, "cj")
		forceCollision(t, &c, i, j)
	}
	// forced release: a later plugin removes (lone or reset) what an earlier one set, and
	// possibly a third sets it again
	if c.Kind == "create" && len(c.Chain) >= 2 && rapid.IntRange(0, 99).Draw(t, "release") < b.Release {
		forceRelease(t, &c)
		if rapid.IntRange(0, 2).Draw(t, "release2") == 0 {
			forceRelease(t, &c)
		}
	}
	if c.Kind == "create" && len(c.Chain) >= 2 && rapid.IntRange(0, 99).Draw(t, "append") < b.Append {
		forceAppend(t, &c)
	}
	if len(c.Chain) >= 3 && rapid.IntRange(0, 99).Draw(t, "ignstory") < b.Collide/4+b.IgnoreFlags/4 {
		forceIgnoredStory(t, &c, false)
	}
	if c.Kind == "create" && len(c.Chain) >= 3 && rapid.IntRange(0, 99).Draw(t, "relbehinddrop") < b.ReleaseBehindDrop {
		forceIgnoredStory(t, &c, true)
	}
	if len(c.Chain) >= 2 && rapid.IntRange(0, 99).Draw(t, "nearmiss") < b.NearMiss {
		forceNearMiss(t, &c)
	}
	if c.Kind == "create" && gen.Uniform(t, "bulk", 6) == 0 {
		forceBulk(t, &c)
	}
	if b.Updates > 0 && gen.Uniform(t, "bulktargets", 10) == 0 {
		forceBulkTargets(t, &c)
	}
	if c.Kind == "update" && b.IgnoreFlags > 0 && gen.Uniform(t, "selfdupstory", 8) == 0 {
		forceSelfDupStory(t, &c)
	}
	if c.Kind == "stop" && b.Collide > 0 && gen.Uniform(t, "stopstory", 3) == 0 {
		forceStopStory(t, &c)
	}
	if c.Kind == "create" && gen.Uniform(t, "payloads", 3) == 0 {
		// removal markers that carry a whole entry beside the marked key
		for i := range c.Chain {
			for k := range c.Chain[i].Ops {
				op := &c.Chain[i].Ops[k]
				if (op.Act == "del" || op.Act == "reset") && (op.Fam == "ann" || op.Fam == "env" || op.Fam == "mount" || op.Fam == "dev") {
					op.Payload = rapid.Bool().Draw(t, "payload")
				}
			}
		}
	}
	if (c.Kind == "create" || c.Kind == "update") && len(c.Chain) >= 2 && gen.Uniform(t, "evictions", 5) == 0 {
		// evictions: mostly of a target that plugins around the evicting one update
		named := map[string][]int{}
		for i, s := range c.Chain {
			for _, u := range s.Updates {
				if u.Target != "SELF" {
					named[u.Target] = append(named[u.Target], i)
				}
			}
		}
		for i := range c.Chain {
			s := &c.Chain[i]
			if fixtureSpecs[c.Fixture].launched[s.Plugin] {
				continue // a launched plugin is a plain stub: it cannot send the field
			}
			for _, tg := range sortedTargets(named) {
				pos := named[tg]
				if pos[0] < i && i < pos[len(pos)-1] && rapid.Bool().Draw(t, "evictbetween") {
					s.Evict = append(s.Evict, tg)
				}
			}
			if len(s.Evict) == 0 && gen.Uniform(t, "evictany", 4) == 0 {
				s.Evict = append(s.Evict, gen.Pick(t, "evicttarget", []string{"T1", "T2", "T3"}))
			}
		}
	}
	if gen.Uniform(t, "delays", 8) == 0 {
		for i := range c.Chain {
			if gen.Uniform(t, "delay", 3) == 0 {
				c.Chain[i].DelayMs = gen.Pick(t, "delayms", []int{1, 5, 20})
			}
		}
	}
	// a plugin that is not subscribed to UpdateContainer takes no part in update requests
	if c.Kind == "update" {
		kept := c.Chain[:0]
		for _, s := range c.Chain {
			if !fixtureSpecs[c.Fixture].noUpdate[s.Plugin] {
				kept = append(kept, s)
			}
		}
		c.Chain = kept
	}
	// a plugin that is not subscribed to StopContainer takes no part in stop requests
	if c.Kind == "stop" {
		kept := c.Chain[:0]
		for _, s := range c.Chain {
			if !fixtureSpecs[c.Fixture].noStop[s.Plugin] {
				kept = append(kept, s)
			}
		}
		c.Chain = kept
	}
	if b.MaxPar > 1 {
		c.Par = rapid.IntRange(1, b.MaxPar).Draw(t, "par")
	}
	return c
}

// bulkKey names the k-th key of a bulk set (more keys of one kind than any small fixed-size
// table would hold).
func bulkKey(fam string, k int) string {
	switch fam {
	case "ann":
		return fmt.Sprintf("b%d", k)
	case "env":
		return fmt.Sprintf("B%d", k)
	case "mount":
		return fmt.Sprintf("/b%d", k)
	case "dev":
		return fmt.Sprintf("/dev/b%d", k)
	case "cdi":
		return fmt.Sprintf("v.com/c=b%d", k)
	}
	return fmt.Sprintf("u.b%d", k)
}

// forceBulk makes one plugin set 9..16 distinct keys of one family and lets later plugins
// release (and possibly set again) some of them.
func forceBulk(t *rapid.T, c *Case) {
	fam := gen.Pick(t, "bfam", []string{"ann", "env", "mount", "dev", "cdi", "unified"})
	n := 9 + gen.Uniform(t, "bn", 8)
	i := gen.Uniform(t, "bi", len(c.Chain))
	for k := 0; k < n; k++ {
		c.Chain[i].Ops = append(c.Chain[i].Ops, Op{Fam: fam, Key: bulkKey(fam, k), Act: "set"})
	}
	if !has(removableFams, fam) {
		return
	}
	if i+1 < len(c.Chain) && gen.Uniform(t, "bcollide", 2) == 0 {
		// a later plugin lone-removes one of the first eight keys and then (itself, or a still
		// later plugin) plainly sets one of the later keys, which the bulk plugin still owns:
		// a conflict
		j := i + 1 + gen.Uniform(t, "bcj", len(c.Chain)-1-i)
		lo := gen.Uniform(t, "bclo", 8)
		hi := 8 + gen.Uniform(t, "bchi", n-8)
		// (in front of the plugin's other operations, so that nothing of this family is claimed
		// between the release and the colliding set)
		c.Chain[j].Ops = append([]Op{{Fam: fam, Key: bulkKey(fam, lo), Act: "del"}}, c.Chain[j].Ops...)
		k := j
		if fam == "ann" || gen.Uniform(t, "bcsame", 2) == 0 {
			if j+1 < len(c.Chain) {
				k = j + 1 + gen.Uniform(t, "bck", len(c.Chain)-1-j)
			}
		}
		if hasOp(&c.Chain[k], fam, bulkKey(fam, hi)) < 0 {
			c.Chain[k].Ops = append([]Op{{Fam: fam, Key: bulkKey(fam, hi), Act: "set"}}, c.Chain[k].Ops...)
		}
		return
	}
	owned := map[int]bool{}
	for k := 0; k < n; k++ {
		owned[k] = true
	}
	for j := i + 1; j < len(c.Chain); j++ {
		for r := gen.Uniform(t, "brel", 4); r > 0; r-- {
			k := gen.Uniform(t, "bk", n)
			key := bulkKey(fam, k)
			if hasOp(&c.Chain[j], fam, key) >= 0 {
				continue
			}
			switch gen.Uniform(t, "bact", 3) {
			case 0:
				c.Chain[j].Ops = append(c.Chain[j].Ops, Op{Fam: fam, Key: key, Act: "del"})
				owned[k] = false
			case 1:
				c.Chain[j].Ops = append(c.Chain[j].Ops, Op{Fam: fam, Key: key, Act: "reset", Rev: fam != "ann" && gen.Uniform(t, "brev", 2) == 0})
				owned[k] = true
			default:
				if !owned[k] {
					c.Chain[j].Ops = append(c.Chain[j].Ops, Op{Fam: fam, Key: key, Act: "set"})
					owned[k] = true
				}
			}
		}
	}
}

// forceBulkTargets makes the plugins of a request update 9..14 distinct third-party
// containers, and lets later updates name some of them again (another field).
func forceBulkTargets(t *rapid.T, c *Case) {
	n := 9 + gen.Uniform(t, "btn", 6)
	all := allResFields()
	f1 := gen.Uniform(t, "btf1", len(all))
	f2 := (f1 + 1 + gen.Uniform(t, "btf2", len(all)-1)) % len(all)
	i := gen.Uniform(t, "bti", len(c.Chain))
	for k := 0; k < n; k++ {
		// spread over the plugins from i on, in target order
		q := i + (k*(len(c.Chain)-i))/n
		c.Chain[q].Updates = append(c.Chain[q].Updates, Upd{Target: fmt.Sprintf("T%d", 10+k), Fields: []string{all[f1]}})
	}
	for r := 1 + gen.Uniform(t, "btr", 3); r > 0; r-- {
		k := gen.Uniform(t, "btk", n)
		if gen.Uniform(t, "btninth", 2) == 0 {
			k = 8 // the ninth distinct target
		}
		q := len(c.Chain) - 1 - gen.Uniform(t, "btq", 2)
		if q < 0 {
			q = 0
		}
		tgt := fmt.Sprintf("T%d", 10+k)
		if !plugHasField(&c.Chain[q], tgt, all[f2]) && !plugHasField(&c.Chain[q], tgt, all[f1]) {
			c.Chain[q].Updates = append(c.Chain[q].Updates, Upd{Target: tgt, Fields: []string{all[f2]}})
		}
	}
}

// forceSelfDupStory (update requests): the first update any plugin makes to the container
// being updated is an ignore-failure update that collides with itself (one hugepage size
// listed twice) and must be dropped; a later plugin then updates that container.
func forceSelfDupStory(t *rapid.T, c *Case) {
	if len(c.Chain) < 2 {
		return
	}
	for i := range c.Chain {
		kept := c.Chain[i].Updates[:0]
		for _, u := range c.Chain[i].Updates {
			if u.Target != "SELF" {
				kept = append(kept, u)
			}
		}
		c.Chain[i].Updates = kept
	}
	i := gen.Uniform(t, "sdi", len(c.Chain)-1)
	j := i + 1 + gen.Uniform(t, "sdj", len(c.Chain)-1-i)
	hf := "huge/" + gen.Pick(t, "sdsize", hugeKeys)
	first := Upd{Target: "SELF", Fields: []string{hf}, Ignore: true, SelfDup: true}
	if gen.Uniform(t, "sdmore", 2) == 0 {
		first.Fields = append([]string{gen.Pick(t, "sdf", scalarFams)}, first.Fields...)
	}
	c.Chain[i].Updates = append(c.Chain[i].Updates, first)
	later := gen.Pick(t, "sdlater", scalarFams)
	if has(first.Fields, later) {
		return // would be a partial-claim hazard case; keep the story clean
	}
	c.Chain[j].Updates = append(c.Chain[j].Updates, Upd{Target: "SELF", Fields: []string{later}})
}

// forceStopStory (stop requests, fixture 2): two plugins on either side of the pool plugin
// that is not subscribed to StopContainer collide on a field of one container; the earlier
// one marks its updates ignore-failure and answers late. In index order the later plugin's
// update conflicts and fails the request.
func forceStopStory(t *rapid.T, c *Case) {
	c.Fixture = 2
	lo, hi := -1, -1
	for i, s := range c.Chain {
		if s.Plugin < 2 && lo < 0 {
			lo = i
		}
		if s.Plugin > 2 {
			hi = i
		}
	}
	if lo < 0 || hi < 0 {
		return
	}
	forceCollision(t, c, lo, hi)
	for k := range c.Chain[lo].Updates {
		c.Chain[lo].Updates[k].Ignore = true
		c.Chain[lo].Updates[k].SelfDup = false
	}
	c.Chain[lo].DelayMs = gen.Pick(t, "ssdelay", []int{10, 30})
}

// forceAppend makes several plugins contribute to one appended list: hooks of one kind (any
// number of plugins), or distinct rlimit types / CDI names (one key per plugin, so up to
// three), so that order and completeness of the combined list are exercised.
func forceAppend(t *rapid.T, c *Case) {
	fam := gen.Pick(t, "afam", []string{"hook", "rlimit", "cdi"})
	keys := keysOf(fam)
	hk := gen.Pick(t, "ahook", hookKeys)
	next := gen.Uniform(t, "afirst", len(keys))
	used := 0
	for i := range c.Chain {
		if rapid.IntRange(0, 9).Draw(t, "ajoin") >= 8 {
			continue
		}
		s := &c.Chain[i]
		if fam == "hook" {
			if hasOp(s, "hook", hk) < 0 {
				// a third of the appended hooks equal the runtime's own hook of that list or
				// another plugin's (all of them must still be present, in plugin order)
				s.Ops = append(s.Ops, Op{Fam: "hook", Key: hk, Act: "add", ValOf: gen.Pick(t, "ahookval", []string{"", "", "", "", "rt", "p0", "p1"})})
			}
			continue
		}
		if used >= len(keys) {
			break
		}
		k := keys[(next+used)%len(keys)]
		// keep the case conflict-free: nobody else may set this key
		free := true
		for j := range c.Chain {
			if j != i && hasOp(&c.Chain[j], fam, k) >= 0 {
				free = false
			}
		}
		if free && hasOp(s, fam, k) < 0 {
			s.Ops = append(s.Ops, Op{Fam: fam, Key: k, Act: "set"})
		}
		used++
	}
}

// plugHasField tells whether a plugin already sets a field of a target in some update.
func plugHasField(s *Script, target, field string) bool {
	for _, u := range s.Updates {
		if u.Target == target && has(u.Fields, field) {
			return true
		}
	}
	return false
}

// forceIgnoredStory writes a three-plugin story around a dropped ignore-failure update:
// plugin i sets field G of target X; plugin j sets field F of X in one update and, in a
// SEPARATE later update of the same response marked ignore-failure, G (which collides and
// is dropped); plugin k then sets F of X again (flagged or not). F is owned by j, so k must
// conflict (or be dropped if flagged) - whatever the dropped update did to the bookkeeping.
func forceIgnoredStory(t *rapid.T, c *Case, withRelease bool) {
	n := len(c.Chain)
	i := rapid.IntRange(0, n-3).Draw(t, "si")
	j := rapid.IntRange(i+1, n-2).Draw(t, "sj")
	k := rapid.IntRange(j+1, n-1).Draw(t, "sk")
	tg := append([]string{}, targets...)
	if c.Kind != "create" {
		tg = append(tg, "SELF")
	}
	x := gen.Pick(t, "sx", tg)
	all := allResFields()
	fi := gen.Uniform(t, "sf", len(all))
	gi := (fi + 1 + gen.Uniform(t, "sg", len(all)-1)) % len(all)
	f, g := all[fi], all[gi]
	a, b, d := &c.Chain[i], &c.Chain[j], &c.Chain[k]
	if plugHasField(a, x, f) || plugHasField(b, x, f) || plugHasField(b, x, g) || plugHasField(d, x, g) {
		return
	}
	if !plugHasField(a, x, g) {
		first := Upd{Target: x, Fields: []string{g}}
		if gen.Uniform(t, "szero", 3) == 0 {
			first.ValOf = "zero" // everything collected for x so far is a zero / empty value
		}
		a.Updates = append(a.Updates, first)
	}
	if gen.Uniform(t, "sonly", 2) == 0 {
		// the dropped update is all the second plugin says about x
		b.Updates = append(b.Updates, Upd{Target: x, Fields: []string{g}, Ignore: true})
	} else {
		b.Updates = append(b.Updates, Upd{Target: x, Fields: []string{f}}, Upd{Target: x, Fields: []string{g}, Ignore: true})
	}
	if c.Kind == "create" && (withRelease || gen.Uniform(t, "srel", 2) == 0) {
		// the response that carries the dropped update also releases an item the first plugin
		// set on the created container; the third plugin sets it again (no conflict)
		fam := gen.Pick(t, "srelfam", removableFams)
		key := gen.Pick(t, "srelkey", keysOf(fam))
		free := true
		for q := range c.Chain {
			if hasOp(&c.Chain[q], fam, key) >= 0 {
				free = false
			}
		}
		if free && !(fam == "mount" && (key == "/m2" || key == "/m2/")) {
			a.Ops = append(a.Ops, Op{Fam: fam, Key: key, Act: "set"})
			b.Ops = append(b.Ops, Op{Fam: fam, Key: key, Act: "del"})
			d.Ops = append(d.Ops, Op{Fam: fam, Key: key, Act: "set"})
		}
	}
	if gen.Uniform(t, "sthird", 2) == 0 {
		// the third plugin collides with the FIRST one's field, behind the dropped update
		if !plugHasField(d, x, g) {
			d.Updates = append(d.Updates, Upd{Target: x, Fields: []string{g}, Ignore: rapid.Bool().Draw(t, "signore2")})
		}
		return
	}
	if !plugHasField(d, x, f) {
		d.Updates = append(d.Updates, Upd{Target: x, Fields: []string{f}, Ignore: rapid.Bool().Draw(t, "signore")})
	}
}

// forceNearMiss makes two plugins write sibling items that must NOT collide: two keys of
// one keyed family, the same resource field of two different target containers, two
// different fields of one target, or (create) a field of the created container through the
// adjustment and the same field of a third-party container through an update.
func forceNearMiss(t *rapid.T, c *Case) {
	i := rapid.IntRange(0, len(c.Chain)-2).Draw(t, "ni")
	j := rapid.IntRange(i+1, len(c.Chain)-1).Draw(t, "nj")
	a, b := &c.Chain[i], &c.Chain[j]
	addOp := func(s *Script, op Op) {
		if hasOp(s, op.Fam, op.Key) < 0 {
			s.Ops = append(s.Ops, op)
		}
	}
	addUpd := func(s *Script, target, field string) {
		if plugHasField(s, target, field) {
			return
		}
		for k := range s.Updates {
			if s.Updates[k].Target == target {
				s.Updates[k].NoRes = false
				s.Updates[k].Fields = append(s.Updates[k].Fields, field)
				return
			}
		}
		s.Updates = append(s.Updates, Upd{Target: target, Fields: []string{field}})
	}
	mode := rapid.IntRange(0, 5).Draw(t, "nmode")
	if c.Kind != "create" && mode == 0 {
		mode = 1
	}
	switch mode {
	case 5: // two fields that belong together in the kernel's view, one plugin each, same target
		pr := gen.Pick(t, "npair", [][2]string{{"memLimit", "memSwap"}, {"memLimit", "memReservation"}, {"cpuQuota", "cpuPeriod"},
			{"cpuRtRuntime", "cpuRtPeriod"}, {"cpus", "mems"}, {"memLimit", "memKernel"}, {"blockio", "rdt"}})
		if gen.Uniform(t, "npairswap", 2) == 0 {
			a, b = b, a
		}
		vo := gen.Pick(t, "npairval", []string{"", "unl", "unl", "zero", "rt"})
		if c.Kind == "create" && gen.Uniform(t, "npairadj", 2) == 0 {
			if hasOp(a, pr[0], "") < 0 && hasOp(b, pr[1], "") < 0 && hasOp(a, pr[1], "") < 0 && hasOp(b, pr[0], "") < 0 {
				a.Ops = append(a.Ops, Op{Fam: pr[0], Act: "set", ValOf: vo})
				b.Ops = append(b.Ops, Op{Fam: pr[1], Act: "set"})
			}
			return
		}
		tg := append([]string{}, targets...)
		if c.Kind != "create" {
			tg = append(tg, "SELF", "SELF", "SELF")
		}
		target := gen.Pick(t, "npairtarget", tg)
		if plugHasField(a, target, pr[0]) || plugHasField(b, target, pr[1]) || plugHasField(a, target, pr[1]) || plugHasField(b, target, pr[0]) {
			return
		}
		a.Updates = append(a.Updates, Upd{Target: target, Fields: []string{pr[0]}, ValOf: vo})
		b.Updates = append(b.Updates, Upd{Target: target, Fields: []string{pr[1]}})
		if c.Kind == "update" && target == "SELF" && !has(c.Req, pr[1]) && gen.Uniform(t, "npairreq", 2) == 0 {
			c.Req = append(c.Req, pr[1]) // the runtime's own request carries the partner field
		}
	case 4: // a typed field and its unified twin, same target (or the created container): no conflict
		tw := gen.Pick(t, "ntwin", [][2]string{{"pids", "pids.max"}, {"memLimit", "memory.max"}, {"cpuShares", "cpu.weight"}})
		if gen.Uniform(t, "ntwinswap", 2) == 0 {
			a, b = b, a
		}
		if gen.Uniform(t, "ntwinsame", 3) == 0 {
			b = a // one plugin sets both
		}
		if c.Kind == "create" && gen.Uniform(t, "ntwinadj", 2) == 0 {
			addOp(a, Op{Fam: tw[0], Act: "set"})
			addOp(b, Op{Fam: "unified", Key: tw[1], Act: "set"})
			return
		}
		tg := append([]string{}, targets...)
		if c.Kind != "create" {
			tg = append(tg, "SELF", "SELF")
		}
		target := gen.Pick(t, "ntwintarget", tg)
		addUpd(a, target, tw[0])
		addUpd(b, target, "unified/"+tw[1])
	case 0: // two keys of one keyed family
		fam := gen.Pick(t, "nfam", append(append([]string{}, removableFams...), keyedSetFams...))
		keys := keysOf(fam)
		k1 := gen.Uniform(t, "nk1", len(keys))
		k2 := (k1 + 1 + gen.Uniform(t, "nk2", len(keys)-1)) % len(keys)
		// only if neither plugin already touches the other's key
		if hasOp(a, fam, keys[k2]) < 0 && hasOp(b, fam, keys[k1]) < 0 {
			addOp(a, Op{Fam: fam, Key: keys[k1], Act: "set"})
			addOp(b, Op{Fam: fam, Key: keys[k2], Act: "set"})
		}
	case 1: // same field, two different targets
		f := gen.Pick(t, "nfield", allResFields())
		tg := append([]string{}, targets...)
		if c.Kind != "create" {
			tg = append(tg, "SELF")
		}
		t1 := gen.Uniform(t, "nt1", len(tg))
		t2 := (t1 + 1 + gen.Uniform(t, "nt2", len(tg)-1)) % len(tg)
		addUpd(a, tg[t1], f)
		addUpd(b, tg[t2], f)
	case 2: // two different fields of one target
		all := allResFields()
		f1 := gen.Uniform(t, "nf1", len(all))
		f2 := (f1 + 1 + gen.Uniform(t, "nf2", len(all)-1)) % len(all)
		tg := append([]string{}, targets...)
		if c.Kind != "create" {
			tg = append(tg, "SELF", "SELF")
		}
		target := gen.Pick(t, "ntarget", tg)
		addUpd(a, target, all[f1])
		addUpd(b, target, all[f2])
	default: // created container's field via adjustment vs a third-party's via update
		if c.Kind != "create" {
			return
		}
		f := gen.Pick(t, "nsfield", scalarFams)
		addOp(a, Op{Fam: f, Act: "set"})
		addUpd(b, gen.Pick(t, "nstarget", targets), f)
	}
}

func hasOp(s *Script, fam, key string) int {
	for i, o := range s.Ops {
		if o.Fam == fam && o.Key == key {
			return i
		}
	}
	return -1
}

func forceCollision(t *rapid.T, c *Case, i, j int) {
	viaUpdate := c.Kind != "create" || rapid.IntRange(0, 2).Draw(t, "viaupd") == 0
	if !viaUpdate {
		// adjustment path: pick a family/key, make both plugins set it
		var op Op
		// all 29 item kinds of the adjustment path, uniformly
		all := append(append(append([]string{}, removableFams...), keyedSetFams...), "args", "cgroups", "oom")
		all = append(all, scalarFams...)
		// the removable families have the richest ownership rules (release by a marker, either
		// list order): three times the weight of the others
		all = append(append(all, removableFams...), removableFams...)
		op.Fam = gen.Pick(t, "cfam", all)
		op.Key = gen.Pick(t, "ckey", keysOf(op.Fam))
		op.Act = "set"
		relDel := ""
		if has(removableFams, op.Fam) && gen.Uniform(t, "crel", 2) == 0 {
			// the later collider also marks ANOTHER item for removal whose key is a proper prefix
			// of the contested one ("/dev/d1" next to "/dev/d10"): that releases nothing of the
			// contested item
			if rel := relativeKey(op.Fam, op.Key); rel != "" {
				if len(rel) > len(op.Key) {
					op.Key, rel = rel, op.Key
				}
				relDel = rel
			}
		}
		for n, idx := range []int{i, j} {
			s := &c.Chain[idx]
			o := op
			switch rapid.IntRange(0, 7).Draw(t, "cvalof") {
			case 6:
				o.ValOf = "zero" // e.g. one of the colliders sets an empty class / a zero
			case 7:
				o.ValOf = "rt~"
			case 0:
				o.ValOf = "rt" // e.g. the first collider re-asserts the original value
			case 1:
				if n == 1 {
					o.ValOf = fmt.Sprintf("p%d", c.Chain[i].Plugin) // the later one writes the same value as the earlier
				}
			}
			if n == 0 && has(removableFams, op.Fam) && gen.Uniform(t, "cfirstreset", 3) == 0 {
				// the first collider may itself remove-then-set (either list order): it still owns the item
				o.Act = "reset"
				o.Rev = op.Fam != "ann" && rapid.Bool().Draw(t, "crev")
			}
			if k := hasOp(s, op.Fam, op.Key); k >= 0 {
				s.Ops[k] = o
			} else {
				s.Ops = append(s.Ops, o)
			}
		}
		if relDel != "" && hasOp(&c.Chain[j], op.Fam, relDel) < 0 {
			c.Chain[j].Ops = append(c.Chain[j].Ops, Op{Fam: op.Fam, Key: relDel, Act: "del"})
		}
		return
	}
	// update path: both plugins update the same target with a common field
	tg := append([]string{}, targets...)
	if c.Kind != "create" {
		tg = append(tg, "SELF", "SELF")
	}
	target := rapid.SampledFrom(tg).Draw(t, "ctarget")
	field := gen.Pick(t, "cfield", allResFields())
	for _, idx := range []int{i, j} {
		s := &c.Chain[idx]
		if plugHasField(s, target, field) {
			continue
		}
		found := false
		for k := range s.Updates {
			if s.Updates[k].Target == target {
				found = true
				s.Updates[k].NoRes = false
				s.Updates[k].Fields = append(s.Updates[k].Fields, field)
				break
			}
		}
		if !found {
			s.Updates = append(s.Updates, Upd{Target: target, Fields: []string{field}})
		}
	}
}

// relativeKey returns a key of the family's alphabet that is a proper prefix of key or that
// key is a proper prefix of ("" if none).
func relativeKey(fam, key string) string {
	for _, k := range keysOf(fam) {
		if k != key && (strings.HasPrefix(key, k) || strings.HasPrefix(k, key)) {
			return k
		}
	}
	return ""
}

// forceRelease writes a conflict-free "story" for one removable item across the chain: each
// participating plugin, in chain order, lone-removes it, sets it (only while nobody owns
// it) or removes-then-sets it. This produces every order of releases and claims: removal
// before the first set, repeated removals, set / remove / set by three plugins, a reset of
// a reset, and so on.
func forceRelease(t *rapid.T, c *Case) {
	fam := gen.Pick(t, "rfam", []string{"ann", "env", "mount", "dev", "args"})
	key := gen.Pick(t, "rkey", keysOf(fam))
	owned := false
	participants := 0
	for i := range c.Chain {
		s := &c.Chain[i]
		last := i == len(c.Chain)-1
		if !(rapid.IntRange(0, 9).Draw(t, "rjoin") < 7 || (last && participants < 2)) {
			// a bystander must not touch the item at all
			if k := hasOp(s, fam, key); k >= 0 {
				s.Ops = append(s.Ops[:k], s.Ops[k+1:]...)
			}
			continue
		}
		participants++
		var acts []string
		if fam == "args" {
			acts = []string{"reset", "del"}
			if !owned {
				acts = append(acts, "set", "set")
			}
		} else {
			acts = []string{"del", "reset"}
			if !owned {
				acts = append(acts, "set", "set")
			}
		}
		act := gen.Pick(t, "ract", acts)
		rev := act == "reset" && fam != "ann" && fam != "args" && rapid.Bool().Draw(t, "rrev")
		op := Op{Fam: fam, Key: key, Act: act, Rev: rev}
		if act != "del" {
			op.ValOf = genValOf(t)
		}
		if k := hasOp(s, fam, key); k >= 0 {
			s.Ops[k] = op
		} else {
			s.Ops = append(s.Ops, op)
		}
		owned = act != "del"
	}
}

func (o Op) String() string { return fmt.Sprintf("%s:%s/%s", o.Act, o.Fam, o.Key) }

func sortedTargets(m map[string][]int) []string {
	var out []string
	for k := range m {
		out = append(out, k)
	}
	sort.Strings(out)
	return out
}

// Crowd: N filler plugins that each claim an item of their own, and two colliders behind them.
type Crowd struct {
	Fillers int    `json:"fillers"`
	Item    string `json:"item"`
	Control bool   `json:"control,omitempty"` // only one collider: the request must succeed
}
