package samples

// Case type and generator for C20.

import (
	"fmt"
	"math"
	"strings"

	"pgregory.net/rapid"
)

// Annotation key families. The keys are fixed by the plugins' READMEs.
const (
	famDev  = "dev"  // devices.nri.io           (device-injector)
	famCDI  = "cdi"  // cdi-devices.nri.io       (device-injector)
	famMnt  = "mnt"  // mounts.nri.io            (device-injector)
	famRlim = "rlim" // ulimits.nri.containerd.io (ulimit-adjuster)
)

var families = []string{famDev, famCDI, famMnt, famRlim}

var famKey = map[string]string{
	famDev:  "devices.nri.io",
	famCDI:  "cdi-devices.nri.io",
	famMnt:  "mounts.nri.io",
	famRlim: "ulimits.nri.containerd.io",
}

const (
	scopeCtr  = "ctr"  // <key>/container.<Target>
	scopePod  = "pod"  // <key>/pod
	scopeBare = "bare" // <key>
)

// The Linux resource limit names of setrlimit(2).
var rlimitNames = []string{"AS", "CORE", "CPU", "DATA", "FSIZE", "LOCKS", "MEMLOCK", "MSGQUEUE", "NICE",
	"NOFILE", "NPROC", "RSS", "RTPRIO", "RTTIME", "SIGPENDING", "STACK"}

type Dev struct {
	Path     string  `json:"path"`
	Type     string  `json:"type"`
	Major    int64   `json:"major"`
	Minor    int64   `json:"minor"`
	FileMode *uint32 `json:"file_mode,omitempty"` // nil: field not written
	UID      *uint32 `json:"uid,omitempty"`
	GID      *uint32 `json:"gid,omitempty"`
}

type Mnt struct {
	Source      string   `json:"source"`
	Destination string   `json:"destination"`
	Type        string   `json:"type"`
	Options     []string `json:"options"` // nil: field not written; empty: "options: []"
}

type Rlim struct {
	Type string  `json:"type"`           // as written in the annotation
	Hard *uint64 `json:"hard,omitempty"` // nil: field not written (documented to mean 0)
	Soft *uint64 `json:"soft,omitempty"`
}

// Ann is one pod annotation of the case.
type Ann struct {
	Family string `json:"family"`
	Scope  string `json:"scope"`
	Target string `json:"target,omitempty"` // container name for scope "ctr"
	Style  string `json:"style"`
	// Ill: "" = well-formed; "nullish" = empty/null document (outcome left open by the
	// statement); anything else names the way the payload was made ill-formed.
	Ill string `json:"ill,omitempty"`
	// Extra: irregularities on top of the payload (unknown_field, dup_key, anchor_alias,
	// second_document); they never turn a malformed payload into a well-formed one.
	Extra   []string `json:"extra,omitempty"`
	Devices []Dev    `json:"devices,omitempty"`
	CDI     []string `json:"cdi,omitempty"`
	Mounts  []Mnt    `json:"mounts,omitempty"`
	Rlimits []Rlim   `json:"rlimits,omitempty"`
	Text    string   `json:"text"` // the annotation value sent to the plugins
}

// PluginOpts is the command line the two plugin processes serving the case were started
// with (the flags main() of each plugin defines: -verbose, -name, -idx). The statement does
// not depend on any of them.
type PluginOpts struct {
	InjVerbose bool `json:"injector_verbose,omitempty"` // device-injector -verbose
	AdjVerbose bool `json:"adjuster_verbose,omitempty"` // ulimit-adjuster -verbose (debug log level)
	NameIdx    bool `json:"name_idx_flags,omitempty"`   // both: explicit -name / -idx
}

func (o PluginOpts) injectorFlags() []string {
	var f []string
	if o.NameIdx {
		f = append(f, "-name", "injector-by-flag", "-idx", "07")
	}
	if o.InjVerbose {
		f = append(f, "-verbose")
	}
	return f
}

func (o PluginOpts) adjusterFlags() []string {
	var f []string
	if o.NameIdx {
		f = append(f, "-idx", "93", "-name", "adjuster-by-flag")
	}
	if o.AdjVerbose {
		f = append(f, "-verbose")
	}
	return f
}

// the option sets in use (each one costs a pair of plugin processes per shard)
var optionSets = []PluginOpts{
	{},
	{InjVerbose: true},
	{AdjVerbose: true},
	{InjVerbose: true, AdjVerbose: true},
	{NameIdx: true},
	{InjVerbose: true, AdjVerbose: true, NameIdx: true},
}

type C20Case struct {
	Ctr  string     `json:"ctr"` // name of the container being created
	Opts PluginOpts `json:"opts"`
	Anns []Ann      `json:"anns"`
	// Req is everything else in the request (the container's own spec, labels, other pod
	// annotations). The expected adjustment does not depend on it.
	Req *ReqCtx `json:"req,omitempty"`
	// Then: further requests sent to the same plugin processes right after this one, each
	// judged on its own by the same oracle (the plugins must not remember anything).
	Then []Step `json:"then,omitempty"`
}

// Step is one follow-up request of a case.
//
//	same     the first request once more, byte for byte
//	renamed  the first request for a container of another name: the annotation TEXTS are the
//	         same, the container-scoped keys of the created container follow the new name
//	other    an unrelated request (same plugin options)
type Step struct {
	Kind  string   `json:"kind"`
	Name  string   `json:"name,omitempty"`  // renamed: the new container name
	Other *C20Case `json:"other,omitempty"` // other: the request
}

// stepCase returns the request of a follow-up step of c.
func (c C20Case) stepCase(s Step) C20Case {
	switch s.Kind {
	case "other":
		o := *s.Other
		o.Opts, o.Then = c.Opts, nil
		return o
	case "renamed":
		o := C20Case{Ctr: s.Name, Opts: c.Opts, Req: c.Req}
		for _, a := range c.Anns {
			if a.Scope == scopeCtr && a.Target == c.Ctr {
				a.Target = s.Name
			} else if a.Scope == scopeCtr && a.Target == s.Name {
				a.Target = c.Ctr // keep the keys distinct: the two names swap
			}
			o.Anns = append(o.Anns, a)
		}
		return o
	}
	o := c
	o.Then = nil
	return o
}

func (a *Ann) key() string {
	switch a.Scope {
	case scopeCtr:
		return famKey[a.Family] + "/container." + a.Target
	case scopePod:
		return famKey[a.Family] + "/pod"
	}
	return famKey[a.Family]
}

// --- value -> node ---------------------------------------------------------------------

func devNode(d Dev) *node {
	m := nM().put("path", nS(d.Path)).put("type", nS(d.Type)).put("major", nI(d.Major)).put("minor", nI(d.Minor))
	if d.FileMode != nil {
		m.put("file_mode", nU(uint64(*d.FileMode)))
	}
	if d.UID != nil {
		m.put("uid", nU(uint64(*d.UID)))
	}
	if d.GID != nil {
		m.put("gid", nU(uint64(*d.GID)))
	}
	return m
}

func mntNode(m Mnt) *node {
	n := nM().put("source", nS(m.Source)).put("destination", nS(m.Destination)).put("type", nS(m.Type))
	if m.Options != nil {
		l := nL()
		for _, o := range m.Options {
			l.items = append(l.items, nS(o))
		}
		n.put("options", l)
	}
	return n
}

func rlimNode(r Rlim) *node {
	n := nM().put("type", nS(r.Type))
	if r.Hard != nil {
		n.put("hard", nU(*r.Hard))
	}
	if r.Soft != nil {
		n.put("soft", nU(*r.Soft))
	}
	return n
}

func (a *Ann) node() *node {
	l := nL()
	switch a.Family {
	case famDev:
		for _, d := range a.Devices {
			l.items = append(l.items, devNode(d))
		}
	case famCDI:
		for _, c := range a.CDI {
			l.items = append(l.items, nS(c))
		}
	case famMnt:
		for _, m := range a.Mounts {
			l.items = append(l.items, mntNode(m))
		}
	case famRlim:
		for _, r := range a.Rlimits {
			l.items = append(l.items, rlimNode(r))
		}
	}
	return l
}

// --- rapid-backed style decisions ------------------------------------------------------

type rapidChooser struct{ t *rapid.T }

func (c rapidChooser) intn(n int, label string) int {
	if n <= 1 {
		return 0
	}
	return rapid.IntRange(0, n-1).Draw(c.t, label)
}

// shuffleKeys permutes the fields of every mapping (field order carries no meaning).
func shuffleKeys(t *rapid.T, n *node) {
	for _, it := range n.items {
		shuffleKeys(t, it)
	}
	if n.k != nMap || len(n.keys) < 2 || rapid.IntRange(0, 2).Draw(t, "shuffle") == 0 {
		return
	}
	idx := make([]int, len(n.keys))
	for i := range idx {
		idx[i] = i
	}
	idx = rapid.Permutation(idx).Draw(t, "fieldorder")
	keys, items := make([]string, len(idx)), make([]*node, len(idx))
	for i, j := range idx {
		keys[i], items[i] = n.keys[j], n.items[j]
	}
	n.keys, n.items = keys, items
	anchorBeforeAlias(n)
}

// anchorBeforeAlias keeps "&x value" ahead of "*x" in a mapping (an alias must follow its
// anchor in the text).
func anchorBeforeAlias(n *node) {
	ai, li := -1, -1
	for i, it := range n.items {
		if it.k == nRaw && strings.HasPrefix(it.s, "&") && ai < 0 {
			ai = i
		}
		if it.k == nRaw && strings.HasPrefix(it.s, "*") && li < 0 {
			li = i
		}
	}
	if ai >= 0 && li >= 0 && li < ai {
		n.keys[ai], n.keys[li] = n.keys[li], n.keys[ai]
		n.items[ai], n.items[li] = n.items[li], n.items[ai]
	}
}

func renderDoc(t *rapid.T, n *node, style string) string {
	shuffleKeys(t, n)
	r := &renderer{ch: rapidChooser{t}, style: style}
	if style != "block" {
		r.tight = rapid.Bool().Draw(t, "tight")
	}
	s := r.render(n)
	if style == "json" {
		return s
	}
	// decorations that do not change the document
	switch rapid.IntRange(0, 9).Draw(t, "decor") {
	case 0:
		s = "# generated by the harness\n" + s
	case 1:
		if style == "block" && !strings.HasPrefix(s, " ") {
			s = "---\n" + s
		}
	case 2:
		s = strings.TrimRight(s, "\n")
	case 3:
		s += "\n\n"
	}
	return s
}

// --- value generators ------------------------------------------------------------------

// strings that need quoting (or look like another YAML type when left plain)
var trickyStrings = []string{
	"yes", "no", "on", "off", "null", "~", "true", "False", "123", "0x10", "0644", "1e3", "1.5", "-1", ".inf",
	"a: b", "a #b", " lead", "trail ", "it's", `say "hi"`, "ü-ö", "tab\there", "multi\nline", "[x]", "{y}", "a,b",
	"*star", "&anc", "!tag", "|pipe", ">fold", "%pct", "@at", "`tick", "- dash", "? q", ": c", "k:", "#hash", "'", `"`,
	`back\slash`, "2001-01-01", "",
	"k=v", "a:b", "x y", "/a/b,c", `a"b`, "a,b,c", ",", "a,", ",a", "k=v,w", "k=\"v,w\"",
}

// mount options whose text contains separators: each is ONE option and must arrive as one
var specialOptions = []string{
	`context="system_u:object_r:container_file_t:s0:c100,c200"`, "bind,ro", "ro,", ",", "", "a,b,c", "uid=0,gid=0",
	"size=64k,mode=1777", "lowerdir=/a:/b", "x y", `"quoted"`, "k=v=w", "'", ",ro", "x-mount.mkdir=0755", "fscontext='u:r:t:s0:c1,c2'",
}

func hasSeparator(s string) bool { return s == "" || strings.ContainsAny(s, ",:= \"'") }

func genText() *rapid.Generator[string] {
	return rapid.OneOf(
		rapid.StringMatching(`[a-z][a-z0-9_.=-]{0,8}`),
		rapid.StringMatching(`(/[a-z0-9._-]{1,6}){1,3}`),
		rapid.SampledFrom(trickyStrings),
	)
}

var devLeaf = []string{"null", "zero", "nri-null", "nri-zero", "fuse", "dri/card0", "net/tun", "vfio/7", "dev0", "dev1", "x y", "a:b", "q#r", "yes",
	"a,b", "k=v", `q"r`, "it's", "c:0:1", "bus/usb/001,002"}

func u32opt(t *rapid.T, label string) *uint32 {
	switch rapid.IntRange(0, 5).Draw(t, label) {
	case 0, 1:
		return nil
	case 2:
		v := uint32(0)
		return &v
	case 3:
		v := rapid.SampledFrom([]uint32{1, 0o644, 0o666, 1000, math.MaxInt32, math.MaxUint32}).Draw(t, label+"_b")
		return &v
	}
	v := rapid.Uint32Range(1, 70000).Draw(t, label+"_v")
	return &v
}

func genDev() *rapid.Generator[Dev] {
	return rapid.Custom(func(t *rapid.T) Dev {
		return Dev{
			Path:     "/dev/" + rapid.SampledFrom(devLeaf).Draw(t, "path"),
			Type:     rapid.SampledFrom([]string{"c", "c", "b", "u", "p"}).Draw(t, "type"),
			Major:    rapid.OneOf(rapid.Int64Range(0, 511), rapid.SampledFrom([]int64{0, 1, 4095, 1 << 20, math.MaxUint32, math.MaxInt64})).Draw(t, "major"),
			Minor:    rapid.OneOf(rapid.Int64Range(0, 255), rapid.SampledFrom([]int64{0, 1, 1<<20 - 1, math.MaxInt64})).Draw(t, "minor"),
			FileMode: u32opt(t, "mode"),
			UID:      u32opt(t, "uid"),
			GID:      u32opt(t, "gid"),
		}
	})
}

var cdiNames = []string{"vendor0.com/device=null", "vendor0.com/device=zero", "vendor0.com/device=dev0", "vendor1.com/device=dev0",
	"vendor1.com/device=dev1", "vendor0.com/device=all", "nvidia.com/gpu=0", "nvidia.com/gpu=GPU-8a3f", "example.org/net=eth_0", "k8s.device-plugin.x/class=yes",
	"vendor.com/class=a,b", "vendor.com/class=a:b", "vendor.com/class=a b", `vendor.com/class="q"`, "vendor.com/a/b=c=d", "vendor.com/class=it's"}

var mntDest = []string{"/host-home", "/mnt/a", "/mnt/b", "/var/lib/x", "/etc/conf.d", "/data", "/mnt/with space", "/mnt/a: b", "/mnt/#x", "/opt/ü",
	"/mnt/a,b", "/mnt/k=v", `/mnt/q"r`, "/mnt/c:1", "/mnt/it's"}

func genMnt() *rapid.Generator[Mnt] {
	return rapid.Custom(func(t *rapid.T) Mnt {
		m := Mnt{
			Source:      genText().Draw(t, "source"),
			Destination: rapid.SampledFrom(mntDest).Draw(t, "dest"),
			Type:        rapid.OneOf(rapid.SampledFrom([]string{"bind", "bind", "tmpfs", "proc", "overlay", ""}), genText()).Draw(t, "type"),
		}
		switch rapid.IntRange(0, 4).Draw(t, "optshape") {
		case 0: // omitted
		case 1:
			m.Options = []string{}
		default:
			m.Options = rapid.SliceOfN(rapid.OneOf(
				rapid.SampledFrom([]string{"bind", "ro", "rw", "rbind", "rprivate", "nosuid", "mode=755", "size=64k"}),
				rapid.SampledFrom(specialOptions), rapid.SampledFrom(specialOptions),
				genText()), 1, 4).Draw(t, "opts")
		}
		return m
	})
}

var rlimPrefixes = []string{"", "", "RLIMIT_", "RLIMIT_", "rlimit_", "Rlimit_", "rLiMiT_"}

func spellRlimit(t *rapid.T, base string) string {
	name := base
	switch rapid.IntRange(0, 3).Draw(t, "case") {
	case 0: // upper
	case 1:
		name = strings.ToLower(base)
	case 2:
		name = base[:1] + strings.ToLower(base[1:])
	default:
		var b strings.Builder
		for i, r := range strings.ToLower(base) {
			if i%2 == 1 {
				b.WriteString(strings.ToUpper(string(r)))
			} else {
				b.WriteRune(r)
			}
		}
		name = b.String()
	}
	return rapid.SampledFrom(rlimPrefixes).Draw(t, "prefix") + name
}

func u64p(v uint64) *uint64 { return &v }

func genRlim(base string) *rapid.Generator[Rlim] {
	return rapid.Custom(func(t *rapid.T) Rlim {
		soft := rapid.OneOf(
			rapid.Just(uint64(0)),
			rapid.Uint64Range(0, 100000),
			rapid.SampledFrom([]uint64{1, 1024, 1 << 31, 1 << 32, math.MaxInt64, math.MaxInt64 + 1, math.MaxUint64}),
		).Draw(t, "soft")
		var hard uint64
		switch rapid.IntRange(0, 3).Draw(t, "hardshape") {
		case 0:
			hard = soft
		case 1:
			hard = math.MaxUint64
		default:
			room := math.MaxUint64 - soft
			if room > 1<<40 {
				room = 1 << 40
			}
			hard = soft + rapid.Uint64Range(0, room).Draw(t, "delta")
		}
		r := Rlim{Type: spellRlimit(t, base), Hard: u64p(hard), Soft: u64p(soft)}
		// the README documents missing soft/hard as 0
		if soft == 0 && rapid.Bool().Draw(t, "omitsoft") {
			r.Soft = nil
		}
		if hard == 0 && rapid.Bool().Draw(t, "omithard") {
			r.Hard = nil
		}
		return r
	})
}

func genRlims(t *rapid.T, min, max int) []Rlim {
	n := rapid.IntRange(min, max).Draw(t, "nrlim")
	bases := rapid.Permutation(rlimitNames).Draw(t, "rlimnames")[:n] // distinct types by construction
	out := make([]Rlim, 0, n)
	for _, b := range bases {
		out = append(out, genRlim(b).Draw(t, "rlim"))
	}
	return out
}

// fill draws the well-formed value list of an annotation (at least min elements).
func (a *Ann) fill(t *rapid.T, min int) {
	// now and then a long list (shrinks to the short ones): the number of entries is data too
	if min > 0 && rapid.SampledFrom([]int{0, 0, 0, 0, 0, 0, 0, 0, 0, 0, 0, 0, 0, 1}).Draw(t, "long") == 1 {
		a.fillLong(rapid.SampledFrom([]int{31, 32, 33, 34, 35, 40, 64, 65, 100, 128, 129, 300}).Draw(t, "listlen"), rapid.IntRange(0, 9).Draw(t, "tag"))
		return
	}
	switch a.Family {
	case famDev:
		a.Devices = rapid.SliceOfNDistinct(genDev(), min, 3, func(d Dev) string { return d.Path }).Draw(t, "devices")
	case famCDI:
		a.CDI = rapid.SliceOfNDistinct(rapid.SampledFrom(cdiNames), min, 3, rapid.ID[string]).Draw(t, "cdi")
	case famMnt:
		a.Mounts = rapid.SliceOfNDistinct(genMnt(), min, 3, func(m Mnt) string { return m.Destination }).Draw(t, "mounts")
	case famRlim:
		a.Rlimits = genRlims(t, min, 3)
	}
}

// fillLong sets a well-formed list of n distinct entries (rlimits: as many as there are types).
func (a *Ann) fillLong(n, tag int) {
	a.Devices, a.CDI, a.Mounts, a.Rlimits = nil, nil, nil, nil
	for i := 0; i < n; i++ {
		switch a.Family {
		case famDev:
			a.Devices = append(a.Devices, Dev{Path: fmt.Sprintf("/dev/long%d-%03d", tag, i), Type: "c", Major: int64(100 + tag), Minor: int64(i)})
		case famCDI:
			a.CDI = append(a.CDI, fmt.Sprintf("vendor.com/long%d=dev%03d", tag, i))
		case famMnt:
			a.Mounts = append(a.Mounts, Mnt{Source: fmt.Sprintf("/src/%03d", i), Destination: fmt.Sprintf("/mnt/long%d-%03d", tag, i), Type: "bind", Options: []string{"ro"}})
		case famRlim:
			if i < len(rlimitNames) {
				a.Rlimits = append(a.Rlimits, Rlim{Type: rlimitNames[(i+tag)%len(rlimitNames)], Hard: u64p(uint64(1000 + i)), Soft: u64p(uint64(i))})
			}
		}
	}
}

var illKinds = map[string][]string{
	famDev:  {"scalar", "mapping", "elem_type", "broken_syntax", "str_in_int", "out_of_range", "quoted_number"},
	famCDI:  {"scalar", "mapping", "elem_type", "broken_syntax"},
	famMnt:  {"scalar", "mapping", "elem_type", "broken_syntax", "scalar_options", "seq_in_string"},
	famRlim: {"unknown_type", "hard_lt_soft", "unknown_type", "hard_lt_soft", "unknown_type", "hard_lt_soft", "scalar", "mapping", "elem_type", "broken_syntax", "str_in_int", "out_of_range", "quoted_number", "missing_type"},
}

var unknownRlimits = []string{"NOFILE,NPROC", "RLIMIT_NOFILE:1", "NOFILE=1", "RLIMIT NOFILE", "RLIMIT_/NOFILE", `"NOFILE"`, "NOFILE ", "RLIMIT_NOFILE,",
	"FOO", "RLIMIT_FOO", "nofiles", "", "RLIMIT_", "RLIMIT", "LIMIT_NOFILE", "NOFILE_", "rlimit_core_", "cpus", "memory"}

var nullishTexts = []string{"", "null", "~", " ", "\n", "# nothing here\n"}

// corrupt builds an ill-formed document from the (non-empty) value list of a and returns its
// text. The kinds are ill-formed by construction, independent of any parser:
//
//	scalar / mapping     the document is not a list
//	elem_type            one element has the wrong type (scalar in a list of mappings, ...)
//	broken_syntax        unbalanced flow brackets, unterminated quote, nested "a: b: c"
//	str_in_int           a non-numeric string where an integer is required
//	out_of_range         negative / too large / fractional number in an integer field
//	scalar_options       mount options given as one scalar instead of a list
//	seq_in_string        a list where a string is required
//	unknown_type         not a Linux resource limit name
//	hard_lt_soft         hard limit below the soft limit
func (a *Ann) corrupt(t *rapid.T, kind string) string {
	n := len(a.Devices) + len(a.CDI) + len(a.Mounts) + len(a.Rlimits)
	pick := rapid.IntRange(0, n-1).Draw(t, "victim")
	anchorAt := -1
	if a.has(exAnchor) {
		anchorAt = a.prepareAnchor(pick)
	}
	doc := a.node()
	style := a.Style
	el := doc.items[pick]
	intFields := map[string][]string{famDev: {"major", "minor", "file_mode", "uid", "gid"}, famRlim: {"hard", "soft"}}[a.Family]
	strFields := map[string][]string{famDev: {"path", "type"}, famMnt: {"source", "destination", "type"}, famRlim: {"type"}}[a.Family]
	switch kind {
	case "scalar":
		doc = rapid.SampledFrom([]*node{nS("none"), nR("42"), nS("/dev/null"), nS("RLIMIT_NOFILE"), nR("true")}).Draw(t, "scalar")
	case "mapping":
		if a.Family == famCDI {
			doc = nM().put("name", el)
		} else {
			doc = el
		}
	case "elem_type":
		if a.Family == famCDI {
			if rapid.Bool().Draw(t, "cdishape") {
				doc.items[pick] = nM().put("name", el)
			} else {
				doc.items[pick] = nL(el)
			}
		} else {
			doc.items[pick] = rapid.SampledFrom([]*node{nS("foo"), nR("7"), nL(nS("x"))}).Draw(t, "elem")
		}
	case "str_in_int":
		f := rapid.SampledFrom(intFields).Draw(t, "field")
		el.put(f, rapid.SampledFrom([]*node{nR("abc"), nS("abc"), nR("1x"), nS("twelve"), nS("")}).Draw(t, "badint"))
	case "quoted_number": // a string, not an integer, even if it spells one
		f := rapid.SampledFrom(intFields).Draw(t, "field")
		el.put(f, nR(rapid.SampledFrom([]string{`"1024"`, `'7'`, `"0"`, "100 procs", "1024k", `"-1"`}).Draw(t, "quoted")))
		if a.Family == famRlim {
			if f == "hard" {
				el.put("soft", nU(0))
			} else {
				el.put("hard", nU(math.MaxUint64))
			}
		}
	case "missing_type": // an rlimit without a type names no Linux resource limit
		keys, items := []string{}, []*node{}
		for i, k := range el.keys {
			if k != "type" {
				keys, items = append(keys, k), append(items, el.items[i])
			}
		}
		el.keys, el.items = keys, items
	case "out_of_range":
		f := rapid.SampledFrom(intFields).Draw(t, "field")
		var bad []string
		switch {
		case f == "major" || f == "minor": // int64
			bad = []string{"9223372036854775808", "-9223372036854775809", "1.5", "18446744073709551616"}
		case a.Family == famDev: // uint32
			bad = []string{"-1", "4294967296", "1.5", "9223372036854775808"}
		default: // uint64
			bad = []string{"-1", "18446744073709551616", "1.5"}
		}
		el.put(f, nR(rapid.SampledFrom(bad).Draw(t, "badnum")))
		if a.Family == famRlim {
			// keep hard >= soft out of the picture: the other bound is omitted or maximal
			if f == "hard" {
				el.put("soft", nU(0))
			} else {
				el.put("hard", nU(math.MaxUint64))
			}
		}
	case "scalar_options":
		el.put("options", rapid.SampledFrom([]*node{nS("ro"), nS("bind,ro"), nR("7")}).Draw(t, "opt"))
	case "seq_in_string":
		f := rapid.SampledFrom(strFields).Draw(t, "field")
		el.put(f, nL(nS("a"), nS("b")))
	case "unknown_type":
		el.put("type", nS(rapid.SampledFrom(unknownRlimits).Draw(t, "badtype")))
	case "hard_lt_soft":
		soft := rapid.OneOf(rapid.Uint64Range(1, 100000), rapid.SampledFrom([]uint64{1, 1 << 32, math.MaxInt64 + 1, math.MaxUint64})).Draw(t, "soft")
		hard := rapid.Uint64Range(0, soft-1).Draw(t, "hard")
		if rapid.Bool().Draw(t, "edge") {
			hard = soft - 1
		}
		el.put("soft", nU(soft))
		// keep the offending values in the case (informational; they also let the request
		// context be built around them)
		a.Rlimits[pick].Hard, a.Rlimits[pick].Soft = u64p(hard), u64p(soft)
		if hard == 0 && rapid.Bool().Draw(t, "omithard") {
			// drop the field: documented to mean 0
			keys, items := []string{}, []*node{}
			for i, k := range el.keys {
				if k != "hard" {
					keys, items = append(keys, k), append(items, el.items[i])
				}
			}
			el.keys, el.items = keys, items
		} else {
			el.put("hard", nU(hard))
		}
	case "broken_syntax":
		switch rapid.IntRange(0, 2).Draw(t, "how") {
		case 0: // unbalanced flow collection
			if style == "block" {
				style = "flow"
				a.Style = style
			}
			a.dropExtra(exSecondDoc) // nothing may follow the unbalanced bracket
			a.decorate(t, doc, anchorAt)
			s := strings.TrimRight(renderDoc(t, doc, style), "\n ")
			return s[:len(s)-1]
		case 1: // a last list element whose double quote is never closed
			a.Style = "block"
			a.dropExtra(exSecondDoc) // the open quote must run to the end of the text
			a.decorate(t, doc, anchorAt)
			shuffleKeys(t, doc)
			s := (&renderer{ch: rapidChooser{t}, style: "block"}).render(doc)
			ind := len(s) - len(strings.TrimLeft(s, " "))
			return s + sp(ind) + `- "unterminated` + rapid.SampledFrom([]string{"", "\n"}).Draw(t, "eol")
		default: // "a: b: c" — a mapping value inside a plain scalar
			style = "block"
			a.Style = style
			if a.Family == famCDI {
				doc.items[pick] = nR("a: b: c")
			} else {
				el.put(strFields[0], nR("a: b: c"))
			}
		}
	default:
		panic("unknown ill kind " + kind)
	}
	a.Style = style
	return a.renderAnn(t, doc, anchorAt)
}

// related container names: prefixes, extensions and suffix relatives of the container's name
func relatedNames(ctr string) []string {
	var out []string
	for i := 1; i < len(ctr); i++ {
		if ctr[i-1] != '-' { // keep DNS-label shape
			out = append(out, ctr[:i])
		}
	}
	out = append(out, ctr+"0", ctr+"-x", ctr+ctr, "x"+ctr, ctr+"x")
	if len(ctr) > 1 {
		out = append(out, ctr[1:])
	}
	return out
}

// payload kinds per annotation: mostly well-formed lists, some empty lists, ill-formed
// documents and empty/null documents
var payloadMix = []string{"ok", "ok", "ok", "ok", "ok", "ok", "ok", "ok", "ok", "ok", "ok", "ok", "ok", "ok", "ok", "ok", "ok", "ok", "ok", "ok",
	"empty", "empty", "ill", "ill", "ill", "nullish"}

var payloadMixRlim = []string{"ok", "ok", "ok", "ok", "ok", "ok", "ok", "ok", "ok", "ok", "ok", "ok", "ok", "ok",
	"empty", "ill", "ill", "ill", "ill", "ill", "ill", "nullish"}

var unrelatedNames = []string{"mgmt", "sidecar", "init", "z9", "pod"}

// follow-up patterns: the same request again at once, after one to three other requests,
// for a container of another name
var stepPatterns = [][]string{nil, nil, nil, {"same"}, {"same"}, {"same", "same"}, {"other", "same"}, {"other", "same"}, {"other", "other", "same"},
	{"other", "other", "other", "same"}, {"renamed"}, {"other", "renamed"}, {"same", "renamed", "same"}, {"renamed", "other", "same"}}

func genC20(t *rapid.T) C20Case {
	c := genRequest(t)
	for _, kind := range rapid.SampledFrom(stepPatterns).Draw(t, "then") {
		st := Step{Kind: kind}
		switch kind {
		case "other":
			o := genRequest(t)
			o.Opts = c.Opts
			st.Other = &o
		case "renamed":
			st.Name = rapid.SampledFrom([]string{"other", "c9", c.Ctr + "-2", "x" + c.Ctr}).Draw(t, "newname")
		}
		c.Then = append(c.Then, st)
	}
	return c
}

// genRequest draws one request.
func genRequest(t *rapid.T) C20Case {
	ctr := rapid.OneOf(
		rapid.SampledFrom([]string{"c0", "c", "c0-x", "c1", "app", "sleep", "bash"}),
		rapid.StringMatching(`[a-z][a-z0-9]{0,3}`),
		// names that hardly ever repeat: one plugin process gets to see thousands of them
		rapid.StringMatching(`[a-z][a-z0-9]{5,9}`),
		rapid.StringMatching(`[a-z][a-z0-9]{2,5}-[a-z0-9]{4,6}`),
		rapid.StringMatching(`[a-z][a-z0-9]{0,2}-[a-z0-9]{1,2}`),
		genBoundaryName(),
		genBoundaryName(),
	).Draw(t, "ctr")
	c := C20Case{Ctr: ctr}
	c.Opts = rapid.SampledFrom(optionSets).Draw(t, "opts")

	// other container names that receive annotations
	var pool, hot []string
	if len(ctr) <= 8 {
		pool = append(relatedNames(ctr), ctr+"-debug")
	} else {
		// long names: siblings at the length boundaries rather than every prefix
		hot, pool = boundarySiblings(ctr)
		pool = append(pool, hot...)
	}
	nrel := rapid.IntRange(0, 3).Draw(t, "nrelated")
	others := append([]string{}, rapid.Permutation(pool).Draw(t, "related")[:min(nrel, len(pool))]...)
	if len(hot) > 0 && rapid.IntRange(0, 2).Draw(t, "boundary") != 0 {
		others = append(others, rapid.SampledFrom(hot).Draw(t, "sibling"))
	}
	if rapid.IntRange(0, 2).Draw(t, "unrelated") == 0 {
		others = append(others, rapid.SampledFrom(unrelatedNames).Draw(t, "other"))
	}
	seen := map[string]bool{ctr: true}
	uniq := others[:0]
	for _, o := range others {
		if !seen[o] {
			seen[o] = true
			uniq = append(uniq, o)
		}
	}
	others = uniq

	// One generator draw per annotation (family, key, payload), collected into a slice with
	// distinct keys: rapid can then shrink by deleting whole annotations.
	// In part of the cases the more specific keys are absent altogether, so that the pod key
	// and the bare key get to be the applicable ones (and the adjuster has none).
	var slotKinds []string
	switch rapid.SampledFrom([]string{"any", "any", "any", "no_this", "no_this", "no_this_no_pod"}).Draw(t, "keyset") {
	case "any":
		slotKinds = []string{"this", "this", "this", "pod", "pod", "bare", "bare"}
	case "no_this":
		slotKinds = []string{"pod", "pod", "bare", "bare"}
	default:
		slotKinds = []string{"bare", "bare"}
	}
	if len(others) > 0 {
		slotKinds = append(slotKinds, "other", "other", "other", "other")
	}
	annGen := rapid.Custom(func(t *rapid.T) Ann {
		fam := rapid.SampledFrom(families).Draw(t, "family")
		a := Ann{Family: fam}
		switch rapid.SampledFrom(slotKinds).Draw(t, "slot") {
		case "this":
			a.Scope, a.Target = scopeCtr, ctr
		case "other":
			a.Scope, a.Target = scopeCtr, rapid.SampledFrom(others).Draw(t, "target")
		case "pod":
			a.Scope = scopePod
		default:
			a.Scope = scopeBare
		}
		a.Style = rapid.SampledFrom([]string{"block", "block", "flow", "json"}).Draw(t, "style")
		mix := payloadMix
		if fam == famRlim && a.Scope == scopeCtr && a.Target == ctr {
			mix = payloadMixRlim // the adjuster has a single applicable key: give its error paths more weight
		}
		switch rapid.SampledFrom(mix).Draw(t, "payload") {
		case "nullish":
			a.Ill = "nullish"
			a.Text = rapid.SampledFrom(nullishTexts).Draw(t, "nullish")
		case "ill":
			a.Ill = rapid.SampledFrom(illKinds[fam]).Draw(t, "illkind")
			a.fill(t, 1)
			a.Extra = drawExtras(t, fam)
			a.Text = a.corrupt(t, a.Ill)
			// the values of an ill-formed payload play no role in the expectation
			a.Devices, a.CDI, a.Mounts = nil, nil, nil
			if a.Ill != "hard_lt_soft" {
				a.Rlimits = nil
			}
		case "empty":
			a.Text = renderDoc(t, a.node(), a.Style)
		default:
			a.fill(t, 1)
			a.Extra = drawExtras(t, fam)
			anchorAt := -1
			if a.has(exAnchor) {
				anchorAt = a.prepareAnchor(-1)
			}
			a.Text = a.renderAnn(t, a.node(), anchorAt)
		}
		if len(a.Extra) == 0 {
			a.Extra = nil
		}
		return a
	})
	byKey := func(a Ann) string { return a.key() }
	c.Anns = rapid.OneOf(
		rapid.SliceOfNDistinct(annGen, 0, 12, byKey),
		rapid.SliceOfNDistinct(annGen, 6, 20, byKey),
		rapid.SliceOfNDistinct(annGen, 6, 20, byKey),
	).Draw(t, "anns")
	// the rest of the request: nil = a bare container and pod (shrinks to that)
	c.Req = rapid.OneOf(rapid.Just((*ReqCtx)(nil)), genReqCtx(c), genReqCtx(c), genReqCtx(c)).Draw(t, "req")
	return c
}

func (c C20Case) String() string { return fmt.Sprintf("ctr=%q anns=%d", c.Ctr, len(c.Anns)) }
