package samples

// Irregularities that come ON TOP of a payload, well-formed or malformed: unknown extra
// fields, a duplicated key, a YAML anchor with an alias, a second document after the first.
// None of them is a malformation by itself in the statement's sense (what a parser makes of
// them alone is left open: accepted with the annotated values, or rejected, both allowed);
// none of them can repair a malformation: a malformed payload stays malformed and must fail
// the request whatever else is wrong with it.

import (
	"strings"

	"pgregory.net/rapid"
)

const (
	exUnknown   = "unknown_field"
	exDupKey    = "dup_key"
	exAnchor    = "anchor_alias"
	exSecondDoc = "second_document"
)

// names sorting before, between and after the real field names of every family
// (devices: file_mode gid major minor path type uid; mounts: destination options source
// type; rlimits: hard soft type); decoders that walk the keys in sorted order meet them
// before or after the real fields.
var unknownNames = map[string][]string{
	"before":  {"aaa", "0note", "a-comment", "_x"},
	"between": {"note", "label", "kind", "name", "info"},
	"after":   {"zzz", "x-extra", "~last", "várias"},
}

func unknownValue(t *rapid.T) *node {
	switch rapid.IntRange(0, 5).Draw(t, "uval") {
	case 0:
		return nS("ignored")
	case 1:
		return nR("12")
	case 2:
		return nM().put("a", nR("1")).put("b", nL(nS("x")))
	case 3:
		return nL(nR("1"), nS("two"), nM().put("k", nS("v")))
	case 4:
		return nR("null")
	}
	return nR("true")
}

func (a *Ann) has(extra string) bool {
	for _, e := range a.Extra {
		if strings.HasPrefix(e, extra) {
			return true
		}
	}
	return false
}

func (a *Ann) dropExtra(extra string) {
	out := a.Extra[:0]
	for _, e := range a.Extra {
		if !strings.HasPrefix(e, extra) {
			out = append(out, e)
		}
	}
	a.Extra = out
}

// drawExtras picks the irregularities for a payload (none in most cases; shrinks to none).
func drawExtras(t *rapid.T, fam string) []string {
	sets := [][]string{nil, nil, nil, nil, {exUnknown}, {exUnknown}, {exUnknown}, {exDupKey}, {exAnchor}, {exSecondDoc},
		{exUnknown, exDupKey}, {exUnknown, exSecondDoc}, {exUnknown, exAnchor}, {exUnknown, exDupKey, exAnchor, exSecondDoc}}
	ex := append([]string{}, rapid.SampledFrom(sets).Draw(t, "extras")...)
	if fam == famCDI { // a list of strings: no fields to add, duplicate or alias without changing the list
		out := ex[:0]
		for _, e := range ex {
			if e == exSecondDoc {
				out = append(out, e)
			}
		}
		ex = out
	}
	return ex
}

// prepareAnchor rewrites the VALUES of the element that will carry the anchor so that the
// aliased field has, by definition of an alias, the anchored field's value. Returns the index
// of that element, or -1 when the payload has no second element to spare (the victim of a
// malformation is never touched).
func (a *Ann) prepareAnchor(victim int) int {
	n := len(a.Devices) + len(a.Mounts) + len(a.Rlimits)
	at := -1
	for i := 0; i < n; i++ {
		if i != victim {
			at = i
			break
		}
	}
	if at < 0 {
		return -1
	}
	switch a.Family {
	case famDev:
		a.Devices[at].Minor = a.Devices[at].Major
	case famMnt:
		op := "ro"
		if len(a.Mounts[at].Options) > 0 {
			op = a.Mounts[at].Options[0]
		}
		a.Mounts[at].Options = []string{op, op}
	case famRlim:
		h := u64v(a.Rlimits[at].Hard)
		a.Rlimits[at].Hard, a.Rlimits[at].Soft = u64p(h), u64p(h)
	}
	return at
}

// decorate applies the node-level irregularities to a document about to be rendered.
// anchorAt is the element prepared by prepareAnchor (-1: none).
func (a *Ann) decorate(t *rapid.T, doc *node, anchorAt int) {
	var maps []*node
	switch doc.k {
	case nSeq:
		for _, it := range doc.items {
			if it.k == nMap {
				maps = append(maps, it)
			}
		}
	case nMap:
		maps = []*node{doc}
	}
	if a.has(exAnchor) {
		ok := false
		if doc.k == nSeq && anchorAt >= 0 && anchorAt < len(doc.items) && doc.items[anchorAt].k == nMap && a.Style != "json" {
			el := doc.items[anchorAt]
			switch a.Family {
			case famDev:
				if v := el.get("major"); v != nil && v.k == nRaw {
					el.put("major", nR("&m "+v.s)).put("minor", nR("*m"))
					ok = true
				}
			case famRlim:
				if v := el.get("hard"); v != nil && v.k == nRaw {
					el.put("hard", nR("&lim "+v.s)).put("soft", nR("*lim"))
					ok = true
				}
			case famMnt:
				if v := el.get("options"); v != nil && v.k == nSeq && len(v.items) == 2 && v.items[0].k == nStr {
					v.items[0], v.items[1] = nR("&o "+dq(v.items[0].s)), nR("*o")
					ok = true
				}
			}
		}
		if !ok {
			a.dropExtra(exAnchor)
		}
	}
	if a.has(exUnknown) {
		if len(maps) == 0 {
			a.dropExtra(exUnknown)
		} else {
			for i, n := 0, rapid.IntRange(1, 2).Draw(t, "nunknown"); i < n; i++ {
				el := maps[rapid.IntRange(0, len(maps)-1).Draw(t, "uentry")]
				pos := rapid.SampledFrom([]string{"before", "between", "after"}).Draw(t, "upos")
				name := rapid.SampledFrom(unknownNames[pos]).Draw(t, "uname")
				if el.get(name) == nil {
					el.put(name, unknownValue(t))
				}
			}
		}
	}
	if a.has(exDupKey) {
		if len(maps) == 0 {
			a.dropExtra(exDupKey)
		} else {
			// the same key twice with the same value: whichever occurrence a parser keeps, the
			// entry says the same (and a malformed value stays malformed)
			el := maps[rapid.IntRange(0, len(maps)-1).Draw(t, "dentry")]
			if len(el.keys) == 0 {
				a.dropExtra(exDupKey)
			} else {
				i := rapid.IntRange(0, len(el.keys)-1).Draw(t, "dkey")
				if el.items[i].k == nRaw && (strings.HasPrefix(el.items[i].s, "&") || strings.HasPrefix(el.items[i].s, "*")) { // keep anchor and alias single and in order
					a.dropExtra(exDupKey)
				} else {
					el.keys = append(el.keys, el.keys[i])
					el.items = append(el.items, el.items[i])
				}
			}
		}
	}
}

// second documents: well-formed, and different from anything the first document says
var secondDocs = map[string]string{
	famDev:  "- path: /dev/second-document\n  type: c\n  major: 99\n  minor: 99\n",
	famCDI:  "- vendor.com/device=second-document\n",
	famMnt:  "- source: /second\n  destination: /mnt/second-document\n  type: bind\n",
	famRlim: "- type: RLIMIT_RTTIME\n  hard: 99\n  soft: 9\n",
}

func (a *Ann) appendSecondDoc(s string) string {
	if !a.has(exSecondDoc) {
		return s
	}
	return strings.TrimRight(s, "\n") + "\n---\n" + secondDocs[a.Family]
}

// renderAnn = decorate + render + second document.
func (a *Ann) renderAnn(t *rapid.T, doc *node, anchorAt int) string {
	a.decorate(t, doc, anchorAt)
	if a.Style == "json" && (a.has(exAnchor)) {
		a.dropExtra(exAnchor)
	}
	return a.appendSecondDoc(renderDocNoShuffleDup(t, doc, a.Style))
}

// renderDocNoShuffleDup is renderDoc for documents that may hold duplicated keys (the field
// shuffle keeps them, it permutes positions only).
func renderDocNoShuffleDup(t *rapid.T, doc *node, style string) string {
	return renderDoc(t, doc, style)
}
