package samples

// A raw runtime end for ONE plugin process, built the way pkg/adaptation builds its end of a
// pre-installed plugin's connection (socket pair, multiplexer, ttrpc client for the Plugin
// service, ttrpc server for the Runtime service). pkg/adaptation relays requests one at a
// time; the stub's ttrpc server, however, runs every request on its own goroutine, so a
// plugin's handlers must cope with requests in flight together. This end can issue them so.

import (
	"context"
	"fmt"
	"os"
	"os/exec"
	"path/filepath"
	"sync"
	"testing"
	"time"

	"github.com/containerd/nri/pkg/api"
	nrinet "github.com/containerd/nri/pkg/net"
	"github.com/containerd/nri/pkg/net/multiplex"
	"github.com/containerd/ttrpc"

	"nriverif/ev"
)

type rawRuntime struct {
	regC chan *api.RegisterPluginRequest
}

func (p *rawRuntime) RegisterPlugin(_ context.Context, req *api.RegisterPluginRequest) (*api.Empty, error) {
	select {
	case p.regC <- req:
	default:
	}
	return &api.Empty{}, nil
}

func (p *rawRuntime) UpdateContainers(context.Context, *api.UpdateContainersRequest) (*api.UpdateContainersResponse, error) {
	return &api.UpdateContainersResponse{}, nil
}

type rawPlugin struct {
	name   string
	cmd    *exec.Cmd
	plugin api.PluginService
	close  func()
}

// startRaw launches <VERIF_BIN>/<bin> the way NRI launches a pre-installed plugin (three
// environment variables, the connection as descriptor 3) and takes it through registration,
// configuration and synchronization.
func startRaw(bin, idx string) (*rawPlugin, error) {
	dir := os.Getenv("VERIF_BIN")
	if dir == "" {
		return nil, fmt.Errorf("VERIF_BIN is not set")
	}
	sp, err := nrinet.NewSocketPair()
	if err != nil {
		return nil, err
	}
	local, err := sp.LocalConn()
	if err != nil {
		sp.Close()
		return nil, err
	}
	peer := sp.PeerFile()
	cmd := exec.Command(filepath.Join(dir, bin))
	cmd.ExtraFiles = []*os.File{peer}
	cmd.Env = []string{
		api.PluginNameEnvVar + "=" + bin,
		api.PluginIdxEnvVar + "=" + idx,
		api.PluginSocketEnvVar + "=3",
	}
	if err := cmd.Start(); err != nil {
		local.Close()
		peer.Close()
		return nil, err
	}
	peer.Close()

	rt := &rawRuntime{regC: make(chan *api.RegisterPluginRequest, 1)}
	mux := multiplex.Multiplex(local, multiplex.WithBlockedRead())
	var rpcc *ttrpc.Client
	var rpcs *ttrpc.Server
	var once sync.Once
	p := &rawPlugin{name: bin, cmd: cmd}
	p.close = func() {
		once.Do(func() {
			if rpcc != nil {
				rpcc.Close()
			}
			if rpcs != nil {
				rpcs.Close()
			}
			mux.Close()
			local.Close()
			_ = cmd.Process.Kill()
			_, _ = cmd.Process.Wait()
		})
	}
	pconn, err := mux.Open(multiplex.PluginServiceConn)
	if err != nil {
		p.close()
		return nil, err
	}
	rpcc = ttrpc.NewClient(pconn)
	if rpcs, err = ttrpc.NewServer(); err != nil {
		p.close()
		return nil, err
	}
	rpcl, err := mux.Listen(multiplex.RuntimeServiceConn)
	if err != nil {
		p.close()
		return nil, err
	}
	api.RegisterRuntimeService(rpcs, rt)
	go func() { _ = rpcs.Serve(context.Background(), rpcl) }()
	mux.Unblock()
	p.plugin = api.NewPluginClient(rpcc)

	select {
	case <-rt.regC:
	case <-time.After(60 * time.Second):
		p.close()
		return nil, fmt.Errorf("%s did not register", bin)
	}
	ctx, cancel := context.WithTimeout(context.Background(), 60*time.Second)
	defer cancel()
	if _, err := p.plugin.Configure(ctx, &api.ConfigureRequest{RuntimeName: "verif", RuntimeVersion: "0.0",
		RegistrationTimeout: 60000, RequestTimeout: 60000}); err != nil {
		p.close()
		return nil, fmt.Errorf("%s: Configure: %w", bin, err)
	}
	if _, err := p.plugin.Synchronize(ctx, &api.SynchronizeRequest{}); err != nil {
		p.close()
		return nil, fmt.Errorf("%s: Synchronize: %w", bin, err)
	}
	return p, nil
}

func (p *rawPlugin) create(ctr string, ann map[string]string, rq *ReqCtx) (*api.CreateContainerResponse, error, createNotes) {
	req := &api.CreateContainerRequest{
		Pod:       &api.PodSandbox{Id: "pod0", Name: "pod0", Uid: "uid0", Namespace: "default", Annotations: ann},
		Container: &api.Container{Id: "ctr-" + ctr, PodSandboxId: "pod0", Name: ctr},
	}
	rq.apply(req)
	ctx, cancel := context.WithTimeout(context.Background(), 60*time.Second)
	defer cancel()
	rsp, err := p.plugin.CreateContainer(ctx, req)
	if err != nil {
		rsp = nil
	}
	return rsp, err, createNotes{}
}

// sweepConcurrent: sixteen requests in flight at one plugin process, thousands each, for
// the sibling containers of one pod whose annotations name every sibling (container-scoped,
// every family of the plugin) next to pod-scoped and bare ones; every answer judged by the
// oracle. First the device-injector, then the ulimit-adjuster.
func sweepConcurrent(t *testing.T, r *ev.Recorder) int {
	// The window in which two handlers can step on each other is a few instructions wide: a
	// wrong answer of a plugin that shares state between handlers shows in roughly one request
	// out of 3000 on a heavily loaded machine, so the sample has to be tens of thousands.
	const workers = 16
	siblings := []string{"web", "web-0", "sidecar-proxy", "s", "init-permissions-and-a-rather-long-name", "db", "db-backup", "w"}
	text := func(a *Ann) { a.Text = (&renderer{ch: fixedChooser{}, style: a.Style}).render(a.node()) }
	total := 0
	for _, pl := range []struct {
		bin, idx  string
		fams      []string
		perWorker int
	}{
		{"device-injector", "10", []string{famDev, famCDI, famMnt}, ev.Pick(1500, 6000)},
		{"ulimit-adjuster", "20", []string{famRlim}, ev.Pick(600, 2400)},
	} {
		perWorker := pl.perWorker
		// the pod's annotations, shared by all siblings
		var anns []Ann
		add := func(a Ann) { text(&a); anns = append(anns, a) }
		for i, s := range siblings {
			for _, fam := range pl.fams {
				a := Ann{Family: fam, Scope: scopeCtr, Target: s, Style: []string{"block", "flow", "json"}[i%3]}
				switch fam {
				case famDev:
					a.Devices = []Dev{{Path: "/dev/of-" + s, Type: "c", Major: int64(40 + i), Minor: int64(i)}}
				case famCDI:
					a.CDI = []string{"vendor.com/device=of-" + s}
				case famMnt:
					a.Mounts = []Mnt{{Source: "/src/" + s, Destination: "/mnt/of-" + s, Type: "bind", Options: []string{"ro"}}}
				case famRlim:
					a.Rlimits = []Rlim{{Type: rlimitNames[i], Hard: u64p(uint64(1000 + i)), Soft: u64p(uint64(10 + i))}}
				}
				add(a)
			}
		}
		for _, fam := range pl.fams {
			switch fam {
			case famDev:
				add(Ann{Family: fam, Scope: scopePod, Style: "block", Devices: []Dev{{Path: "/dev/pod-scoped", Type: "c", Major: 2, Minor: 2}}})
				add(Ann{Family: fam, Scope: scopeBare, Style: "block", Devices: []Dev{{Path: "/dev/bare", Type: "c", Major: 3, Minor: 3}}})
			case famCDI:
				add(Ann{Family: fam, Scope: scopePod, Style: "block", CDI: []string{"vendor.com/device=pod-scoped"}})
			case famMnt:
				add(Ann{Family: fam, Scope: scopeBare, Style: "block", Mounts: []Mnt{{Source: "/bare", Destination: "/mnt/bare", Type: "bind"}}})
			case famRlim:
				add(Ann{Family: fam, Scope: scopePod, Style: "block", Rlimits: []Rlim{{Type: "RLIMIT_RTTIME", Hard: u64p(1), Soft: u64p(1)}}})
			}
		}
		// a sibling without container-scoped annotations falls back to the pod-scoped ones
		names := append([]string{"unannotated"}, siblings...)

		p, err := startRaw(pl.bin, pl.idx)
		if err != nil {
			t.Fatalf("C20 raw runtime end: %v", err)
		}
		type res struct {
			c C20Case
			o ev.Outcome
		}
		out := make([][]res, workers)
		var wg sync.WaitGroup
		for w := 0; w < workers; w++ {
			wg.Add(1)
			go func(w int) {
				defer wg.Done()
				for i := 0; i < perWorker; i++ {
					c := C20Case{Ctr: names[(w+i*(w+1))%len(names)], Anns: anns}
					o := judge(p, c)
					out[w] = append(out[w], res{c, o})
					if o.Fail != "" {
						return
					}
				}
			}(w)
		}
		wg.Wait()
		// sequential control on the same process: whatever went wrong above must be due to the
		// requests being in flight together if these pass
		alive := true
		for _, n := range names {
			if o := judge(p, C20Case{Ctr: n, Anns: anns}); o.Fail != "" {
				alive = false
			}
		}
		p.close()
		// evidence: one record per distinct request (the first outcome seen, a failing one if
		// any); the number of requests goes into concurrent_sweep_requests
		seen := map[string]bool{}
		var failed *res
		for w := range out {
			for i := range out[w] {
				x := &out[w][i]
				total++
				if x.o.Fail != "" && failed == nil {
					failed = x
				}
			}
		}
		for w := range out {
			for i := range out[w] {
				x := &out[w][i]
				if x.o.Fail != "" || seen[x.c.Ctr] {
					continue
				}
				seen[x.c.Ctr] = true
				x.o.Classes = append(x.o.Classes, "sweep:concurrent", "concurrent:"+pl.bin)
				r.Record(x.c, x.o)
			}
		}
		if failed != nil {
			failed.o.Classes = append(failed.o.Classes, "sweep:concurrent", "concurrent:"+pl.bin)
			failed.o.Fail = fmt.Sprintf("with %d requests in flight at one %s process (sequential requests to the same process afterwards answered correctly: %v): %s",
				workers, pl.bin, alive, failed.o.Fail)
			r.Record(failed.c, failed.o)
			t.Fatalf("C20: %s", failed.o.Fail)
		}
	}
	return total
}
