package samples

// The rest of a CreateContainer request: what the container and the pod carry besides the
// plugin annotations and the container's name. The statement makes the adjustment a function
// of the applicable POD annotation only, so none of this may change the outcome.

import (
	"math"
	"strings"

	"github.com/containerd/nri/pkg/api"
	"pgregory.net/rapid"
)

type CRlim struct {
	Type string `json:"type"` // RLIMIT_<NAME>, as a runtime sends it
	Hard uint64 `json:"hard"`
	Soft uint64 `json:"soft"`
}

type Res struct {
	MemLimit    *int64            `json:"mem_limit,omitempty"`
	CPUShares   *uint64           `json:"cpu_shares,omitempty"`
	CPUQuota    *int64            `json:"cpu_quota,omitempty"`
	Cpus        string            `json:"cpus,omitempty"`
	Pids        *int64            `json:"pids,omitempty"`
	Unified     map[string]string `json:"unified,omitempty"`
	OomScoreAdj *int64            `json:"oom_score_adj,omitempty"`
	CgroupsPath string            `json:"cgroups_path,omitempty"`
}

type ReqCtx struct {
	Rlimits        []CRlim           `json:"rlimits,omitempty"` // the container's own rlimits
	Mounts         []Mnt             `json:"mounts,omitempty"`
	Devices        []Dev             `json:"devices,omitempty"`
	Env            []string          `json:"env,omitempty"`
	Args           []string          `json:"args,omitempty"`
	Labels         map[string]string `json:"labels,omitempty"`
	Annotations    map[string]string `json:"annotations,omitempty"` // on the container, not the pod
	Res            *Res              `json:"res,omitempty"`
	PodLabels      map[string]string `json:"pod_labels,omitempty"`
	PodAnnotations map[string]string `json:"pod_annotations,omitempty"` // keys that are none of the plugins' keys
}

// wellFormedText renders a fresh well-formed, non-empty payload of a family.
func wellFormedText(t *rapid.T, fam string) string {
	a := Ann{Family: fam, Style: rapid.SampledFrom([]string{"block", "flow", "json"}).Draw(t, "style")}
	a.fill(t, 1)
	return renderDoc(t, a.node(), a.Style)
}

// isPluginKey: one of the documented annotation keys of a family (any container name).
func isPluginKey(k string) bool {
	for _, base := range famKey {
		if k == base || k == base+"/pod" || strings.HasPrefix(k, base+"/container.") {
			return true
		}
	}
	return false
}

func genReqCtx(c C20Case) *rapid.Generator[*ReqCtx] {
	// what the pod annotations talk about
	var annRlims []Rlim
	var annDest, annPath []string
	for i := range c.Anns {
		a := &c.Anns[i]
		annRlims = append(annRlims, a.Rlimits...)
		for _, m := range a.Mounts {
			annDest = append(annDest, m.Destination)
		}
		for _, d := range a.Devices {
			annPath = append(annPath, d.Path)
		}
	}
	return rapid.Custom(func(t *rapid.T) *ReqCtx {
		r := &ReqCtx{}

		// rlimits: of annotated types, with hard/soft equal to, below and above the annotated
		// values and hard == soft; and unrelated ones
		smallVals := []uint64{0, 256, 1024, 4096, 65536, math.MaxUint64}
		rlGen := rapid.Custom(func(t *rapid.T) CRlim {
			if len(annRlims) > 0 && rapid.IntRange(0, 3).Draw(t, "derived") != 0 {
				a := rapid.SampledFrom(annRlims).Draw(t, "of")
				aH, aS := u64v(a.Hard), u64v(a.Soft)
				hard := aH
				switch rapid.SampledFrom([]string{"eq", "eq", "below", "above"}).Draw(t, "hardrel") {
				case "below":
					if aH > 0 {
						hard = aH - rapid.Uint64Range(1, min(aH, 1000)).Draw(t, "d")
					}
				case "above":
					if aH < math.MaxUint64 {
						hard = aH + rapid.Uint64Range(1, min(math.MaxUint64-aH, 1000)).Draw(t, "d")
					}
				}
				soft := hard
				switch rapid.SampledFrom([]string{"same_as_hard", "same_as_hard", "annotated_soft", "lower"}).Draw(t, "softshape") {
				case "annotated_soft":
					soft = min(aS, hard)
				case "lower":
					soft = rapid.Uint64Range(0, hard).Draw(t, "soft")
				}
				return CRlim{Type: normRlimit(a.Type), Hard: hard, Soft: soft}
			}
			hard := rapid.SampledFrom(smallVals).Draw(t, "hard")
			soft := hard
			if rapid.Bool().Draw(t, "lower") {
				soft = rapid.SampledFrom(smallVals).Draw(t, "soft")
				if soft > hard {
					soft = hard
				}
			}
			return CRlim{Type: "RLIMIT_" + rapid.SampledFrom(rlimitNames).Draw(t, "type"), Hard: hard, Soft: soft}
		})
		r.Rlimits = rapid.SliceOfNDistinct(rlGen, 0, 4, func(l CRlim) string { return l.Type }).Draw(t, "rlimits")

		// mounts and devices, also at annotated destinations / paths
		mGen := rapid.Custom(func(t *rapid.T) Mnt {
			m := genMnt().Draw(t, "mount")
			if len(annDest) > 0 && rapid.Bool().Draw(t, "same") {
				m.Destination = rapid.SampledFrom(annDest).Draw(t, "dest")
			}
			return m
		})
		r.Mounts = rapid.SliceOfNDistinct(mGen, 0, 3, func(m Mnt) string { return m.Destination }).Draw(t, "mounts")
		dGen := rapid.Custom(func(t *rapid.T) Dev {
			d := genDev().Draw(t, "device")
			if len(annPath) > 0 && rapid.Bool().Draw(t, "same") {
				d.Path = rapid.SampledFrom(annPath).Draw(t, "path")
			}
			return d
		})
		r.Devices = rapid.SliceOfNDistinct(dGen, 0, 3, func(d Dev) string { return d.Path }).Draw(t, "devices")

		r.Env = rapid.SliceOfN(rapid.Custom(func(t *rapid.T) string {
			return rapid.StringMatching(`[A-Z][A-Z0-9_]{0,6}`).Draw(t, "k") + "=" + rapid.SampledFrom([]string{"", "1", "a=b", "/dev/null", "RLIMIT_NOFILE"}).Draw(t, "v")
		}), 0, 3).Draw(t, "env")
		r.Args = rapid.SliceOfN(rapid.SampledFrom([]string{"sh", "-c", "sleep inf", "--ulimit", "nofile=1024", "/dev/null"}), 0, 3).Draw(t, "args")
		labelGen := rapid.MapOfN(rapid.SampledFrom([]string{"app", "io.kubernetes.container.name", "io.kubernetes.pod.name", "tier", "devices.nri.io"}),
			rapid.SampledFrom([]string{"", "x", "c0", "bbdev0"}), 0, 3)
		r.Labels = labelGen.Draw(t, "labels")
		r.PodLabels = labelGen.Draw(t, "podlabels")

		// annotations on the container itself, including the plugins' own keys: the plugins
		// read the pod's annotations
		r.Annotations = map[string]string{}
		for i, n := 0, rapid.IntRange(0, 3).Draw(t, "nctrann"); i < n; i++ {
			if rapid.Bool().Draw(t, "pluginkey") {
				fam := rapid.SampledFrom(families).Draw(t, "family")
				k := famKey[fam] + rapid.SampledFrom([]string{"/container." + c.Ctr, "/container." + c.Ctr, "/pod", ""}).Draw(t, "scope")
				r.Annotations[k] = wellFormedText(t, fam)
			} else {
				r.Annotations[rapid.SampledFrom([]string{"io.kubernetes.cri.container-type", "io.kubernetes.cri.sandbox-id", "note"}).Draw(t, "key")] =
					rapid.SampledFrom([]string{"container", "pod0", "- path: /dev/null"}).Draw(t, "val")
			}
		}

		// other pod annotations: unrelated keys, and keys that merely resemble the plugins'
		r.PodAnnotations = map[string]string{}
		for i, n := 0, rapid.IntRange(0, 3).Draw(t, "npodann"); i < n; i++ {
			if rapid.Bool().Draw(t, "nearmiss") {
				fam := rapid.SampledFrom(families).Draw(t, "family")
				base := famKey[fam]
				k := rapid.SampledFrom([]string{
					base + "/container", base + "/pods", base + "s", base + "/container/" + c.Ctr, base + "/Container." + c.Ctr,
					"x-" + base + "/container." + c.Ctr, strings.Replace(base, ".nri.", ".nri.example.", 1) + "/container." + c.Ctr,
					"ulimits.nri.io/container." + c.Ctr, "rlimits.nri.containerd.io/container." + c.Ctr,
				}).Draw(t, "key")
				if !isPluginKey(k) {
					r.PodAnnotations[k] = wellFormedText(t, fam)
				}
			} else {
				r.PodAnnotations[rapid.SampledFrom([]string{"kubernetes.io/config.seen", "kubernetes.io/config.source", "app.kubernetes.io/name", "note"}).Draw(t, "key")] =
					rapid.SampledFrom([]string{"2026-01-01T00:00:00Z", "api", "bbdev0", "- type: nofile"}).Draw(t, "val")
			}
		}

		if rapid.Bool().Draw(t, "res") {
			s := &Res{}
			if rapid.Bool().Draw(t, "mem") {
				v := rapid.SampledFrom([]int64{0, 100_000_000, 1 << 30}).Draw(t, "memv")
				s.MemLimit = &v
			}
			if rapid.Bool().Draw(t, "shares") {
				v := rapid.SampledFrom([]uint64{2, 512, 1024}).Draw(t, "sharesv")
				s.CPUShares = &v
			}
			if rapid.Bool().Draw(t, "quota") {
				v := rapid.SampledFrom([]int64{-1, 50000, 100000}).Draw(t, "quotav")
				s.CPUQuota = &v
			}
			s.Cpus = rapid.SampledFrom([]string{"", "0-1", "3"}).Draw(t, "cpus")
			if rapid.Bool().Draw(t, "pids") {
				v := rapid.SampledFrom([]int64{0, 100, 4096}).Draw(t, "pidsv")
				s.Pids = &v
			}
			if rapid.Bool().Draw(t, "unified") {
				s.Unified = map[string]string{"memory.high": "max"}
			}
			if rapid.Bool().Draw(t, "oom") {
				v := rapid.SampledFrom([]int64{-998, 0, 1000}).Draw(t, "oomv")
				s.OomScoreAdj = &v
			}
			s.CgroupsPath = rapid.SampledFrom([]string{"", "/kubepods/burstable/pod0/ctr0", "kubepods-pod0.slice:cri-containerd:ctr0"}).Draw(t, "cgroups")
			r.Res = s
		}
		return r
	})
}

func optU32p(p *uint32) *api.OptionalUInt32 {
	if p == nil {
		return nil
	}
	return &api.OptionalUInt32{Value: *p}
}

// apply copies the context into a request (fresh api values on every call: the adaptation
// edits the request it is given).
func (r *ReqCtx) apply(req *api.CreateContainerRequest) {
	if r == nil {
		return
	}
	cp := func(m map[string]string) map[string]string {
		if len(m) == 0 {
			return nil
		}
		out := make(map[string]string, len(m))
		for k, v := range m {
			out[k] = v
		}
		return out
	}
	ctr, pod := req.Container, req.Pod
	for _, l := range r.Rlimits {
		ctr.Rlimits = append(ctr.Rlimits, &api.POSIXRlimit{Type: l.Type, Hard: l.Hard, Soft: l.Soft})
	}
	for _, m := range r.Mounts {
		ctr.Mounts = append(ctr.Mounts, &api.Mount{Source: m.Source, Destination: m.Destination, Type: m.Type, Options: append([]string{}, m.Options...)})
	}
	if len(r.Devices) > 0 || r.Res != nil {
		ctr.Linux = &api.LinuxContainer{}
	}
	for _, d := range r.Devices {
		nd := &api.LinuxDevice{Path: d.Path, Type: d.Type, Major: d.Major, Minor: d.Minor, Uid: optU32p(d.UID), Gid: optU32p(d.GID)}
		if d.FileMode != nil {
			nd.FileMode = &api.OptionalFileMode{Value: *d.FileMode}
		}
		ctr.Linux.Devices = append(ctr.Linux.Devices, nd)
	}
	ctr.Env = append([]string{}, r.Env...)
	ctr.Args = append([]string{}, r.Args...)
	ctr.Labels = cp(r.Labels)
	ctr.Annotations = cp(r.Annotations)
	pod.Labels = cp(r.PodLabels)
	if s := r.Res; s != nil {
		res := &api.LinuxResources{}
		if s.MemLimit != nil {
			res.Memory = &api.LinuxMemory{Limit: &api.OptionalInt64{Value: *s.MemLimit}}
		}
		if s.CPUShares != nil || s.CPUQuota != nil || s.Cpus != "" {
			res.Cpu = &api.LinuxCPU{Cpus: s.Cpus}
			if s.CPUShares != nil {
				res.Cpu.Shares = &api.OptionalUInt64{Value: *s.CPUShares}
			}
			if s.CPUQuota != nil {
				res.Cpu.Quota = &api.OptionalInt64{Value: *s.CPUQuota}
			}
		}
		if s.Pids != nil {
			res.Pids = &api.LinuxPids{Limit: *s.Pids}
		}
		res.Unified = cp(s.Unified)
		ctr.Linux.Resources = res
		if s.OomScoreAdj != nil {
			ctr.Linux.OomScoreAdj = &api.OptionalInt{Value: *s.OomScoreAdj}
		}
		ctr.Linux.CgroupsPath = s.CgroupsPath
	}
}
