package samples

// C20 — the device-injector and ulimit-adjuster sample plugins apply exactly what the most
// specific matching pod annotation says.
//
// Both plugin binaries (built by the driver from the current sources, $VERIF_BIN) run as
// pre-installed plugins of one in-process Adaptation; every case is one CreateContainer
// request. The oracle is computed from the case's structured values, never from the text.

import (
	"context"
	"fmt"
	"io"
	"os"
	"path/filepath"
	"sort"
	"strings"
	"testing"
	"time"

	"github.com/containerd/nri/pkg/adaptation"
	"github.com/containerd/nri/pkg/api"
	"google.golang.org/protobuf/proto"
	"google.golang.org/protobuf/reflect/protoreflect"

	"nriverif/ev"
	"nriverif/fx"
)

// --- fixture: one adaptation with the two launched plugins per process -------------------

type fixture struct {
	a    *adaptation.Adaptation
	dir  string
	opts PluginOpts

	podChanged bool // the last request's pod differed after the call

	// container names this pair of processes has been asked about: name -> number of distinct
	// names seen when it was last asked about
	seenAt   map[string]int
	distinct int
	recurred bool // the last request's name came back after >= 1024 other distinct names
	probes   int  // health probes sent
}

// noteName records a request for container name n.
func (f *fixture) noteName(n string) {
	if f.seenAt == nil {
		f.seenAt = map[string]int{}
	}
	prev, ok := f.seenAt[n]
	if !ok {
		f.distinct++
		ev.Get("C20").AddExtra("distinct_container_names_sent", 1)
	}
	f.recurred = ok && f.distinct-prev >= 1024
	f.seenAt[n] = f.distinct
}

// one pair of plugin processes per option set in use, started on demand
var fixtures = map[PluginOpts]*fixture{}

// launcher writes the pre-installed "plugin" NN-name as a shell stub that execs the built
// binary with command line flags: pre-installed plugins are launched without arguments, and
// exec keeps the environment and the inherited connection (descriptor 3) intact.
func launcher(dst, bin string, flags []string) error {
	q := func(s string) string { return "'" + strings.ReplaceAll(s, "'", `'\''`) + "'" }
	line := "exec " + q(bin)
	pre := ""
	for _, f := range flags {
		line += " " + q(f)
		if f == "-name" || f == "-idx" {
			// the stub refuses -name / -idx on top of the name and index a pre-installed plugin
			// inherits through its environment: hand them over by flag only, the way an
			// externally started plugin gets them (the connection is still descriptor 3)
			pre = "unset NRI_PLUGIN_NAME NRI_PLUGIN_IDX\n"
		}
	}
	return os.WriteFile(dst, []byte("#!/bin/sh\n"+pre+line+"\n"), 0o755)
}

func linkOrCopy(src, dst string) error {
	if err := os.Link(src, dst); err == nil {
		return nil
	}
	in, err := os.Open(src)
	if err != nil {
		return err
	}
	defer in.Close()
	out, err := os.OpenFile(dst, os.O_CREATE|os.O_WRONLY|os.O_TRUNC, 0o755)
	if err != nil {
		return err
	}
	if _, err := io.Copy(out, in); err != nil {
		out.Close()
		return err
	}
	return out.Close()
}

func startFixture(opts PluginOpts) (*fixture, error) {
	bin := os.Getenv("VERIF_BIN")
	if bin == "" {
		return nil, fmt.Errorf("VERIF_BIN is not set (directory with the built device-injector and ulimit-adjuster)")
	}
	f := &fixture{dir: fx.ShortDir(), opts: opts}
	pd := filepath.Join(f.dir, "plugins")
	if err := os.MkdirAll(pd, 0o755); err != nil {
		return nil, err
	}
	if err := os.MkdirAll(filepath.Join(f.dir, "conf.d"), 0o755); err != nil {
		return nil, err
	}
	for _, pl := range []struct {
		src, dst string
		flags    []string
	}{
		{"device-injector", "10-device-injector", opts.injectorFlags()},
		{"ulimit-adjuster", "20-ulimit-adjuster", opts.adjusterFlags()},
	} {
		var err error
		if len(pl.flags) == 0 {
			err = linkOrCopy(filepath.Join(bin, pl.src), filepath.Join(pd, pl.dst))
		} else {
			err = launcher(filepath.Join(pd, pl.dst), filepath.Join(bin, pl.src), pl.flags)
		}
		if err != nil {
			os.RemoveAll(f.dir)
			return nil, fmt.Errorf("installing %s: %w", pl.src, err)
		}
	}
	// far above the healthy latency (< 1 ms): a slow machine must not drop a plugin
	adaptation.SetPluginRegistrationTimeout(60 * time.Second)
	adaptation.SetPluginRequestTimeout(60 * time.Second)
	a, err := adaptation.New("verif", "0.0",
		func(ctx context.Context, cb adaptation.SyncCB) error { _, err := cb(ctx, nil, nil); return err },
		func(context.Context, []*api.ContainerUpdate) ([]*api.ContainerUpdate, error) { return nil, nil },
		adaptation.WithPluginPath(pd),
		adaptation.WithPluginConfigPath(filepath.Join(f.dir, "conf.d")),
		adaptation.WithSocketPath(filepath.Join(f.dir, "nri.sock")),
		adaptation.WithDisabledExternalConnections(),
	)
	if err != nil {
		os.RemoveAll(f.dir)
		return nil, err
	}
	if err := a.Start(); err != nil {
		os.RemoveAll(f.dir)
		return nil, err
	}
	f.a = a
	ev.Get("C20").AddExtra("plugin_pairs_launched", 1)
	if err := f.healthy(); err != nil {
		f.stop()
		return nil, fmt.Errorf("plugins not serving after start: %w", err)
	}
	return f, nil
}

func (f *fixture) stop() {
	f.a.Stop() // kills and reaps the launched plugins
	os.RemoveAll(f.dir)
}

func getFixture(opts PluginOpts) (*fixture, error) {
	if f := fixtures[opts]; f != nil {
		return f, nil
	}
	f, err := startFixture(opts)
	if err != nil {
		return nil, err
	}
	fixtures[opts] = f
	return f, nil
}

func dropFixture(opts PluginOpts) {
	if f := fixtures[opts]; f != nil {
		f.stop()
		delete(fixtures, opts)
	}
}

func dropAllFixtures() {
	for o := range fixtures {
		dropFixture(o)
	}
}

func (f *fixture) send(ctr string, ann map[string]string, rq *ReqCtx) (*api.CreateContainerResponse, error) {
	req := &api.CreateContainerRequest{
		Pod:       &api.PodSandbox{Id: "pod0", Name: "pod0", Uid: "uid0", Namespace: "default", Annotations: ann},
		Container: &api.Container{Id: "ctr0", PodSandboxId: "pod0", Name: ctr},
	}
	rq.apply(req)
	f.noteName(ctr)
	before := proto.Clone(req.Pod)
	rsp, err := f.a.CreateContainer(context.Background(), req)
	// The plugins only read the request. They run out of process, so all that can be observed
	// here is the runtime-side pod object (the adaptation edits the container part of a request
	// by design); a change is counted, not judged.
	f.podChanged = !proto.Equal(before, req.Pod)
	return rsp, err
}

// healthy tells whether both plugin processes still answer requests. It must not depend on
// the plugins being right (that is the property's business): a plugin counts as serving when
// the README's canonical annotation yields its contribution or any error, or when a payload
// that is not a list yields an error; a plugin that is gone yields neither (the adaptation
// drops it and the request succeeds without it).
func (f *fixture) healthy() error {
	probes := []struct {
		name, key, good, bad string
		n                    func(*api.ContainerAdjustment) int
	}{
		{"device-injector", "devices.nri.io/container.hc", "- path: /dev/hc\n  type: c\n  major: 1\n  minor: 3\n", "x",
			func(a *api.ContainerAdjustment) int { return len(a.GetLinux().GetDevices()) }},
		{"ulimit-adjuster", "ulimits.nri.containerd.io/container.hc", "- type: RLIMIT_NOFILE\n  hard: 4096\n  soft: 1024\n", "x",
			func(a *api.ContainerAdjustment) int { return len(a.GetRlimits()) }},
	}
	// a container name the processes have never been asked about: the probe must not depend
	// on what the plugins remember
	f.probes++
	hc := fmt.Sprintf("hc-%d-%d", os.Getpid(), f.probes)
	for _, p := range probes {
		p.key = strings.Replace(p.key, "container.hc", "container."+hc, 1)
		rsp, err := f.send(hc, map[string]string{p.key: p.good}, nil)
		if err != nil || p.n(rsp.GetAdjust()) > 0 {
			continue
		}
		if _, err := f.send(hc, map[string]string{p.key: p.bad}, nil); err != nil {
			continue
		}
		return fmt.Errorf("%s does not answer (neither a contribution nor an error)", p.name)
	}
	return nil
}

func TestMain(m *testing.M) {
	code := m.Run()
	dropAllFixtures()
	os.Exit(code)
}

// --- oracle ---------------------------------------------------------------------------

// applicable returns the annotation that most specifically names container ctr for a
// family: injector families container > pod > bare; the adjuster container-scoped only.
func applicable(c C20Case, fam string) *Ann {
	var byScope [3]*Ann
	for i := range c.Anns {
		a := &c.Anns[i]
		if a.Family != fam {
			continue
		}
		switch {
		case a.Scope == scopeCtr && a.Target == c.Ctr:
			byScope[0] = a
		case a.Scope == scopePod:
			byScope[1] = a
		case a.Scope == scopeBare:
			byScope[2] = a
		}
	}
	if fam == famRlim {
		return byScope[0]
	}
	for _, a := range byScope {
		if a != nil {
			return a
		}
	}
	return nil
}

// unset-or-zero are the same thing for file mode / uid / gid: the annotation cannot tell
// them apart ("can be omitted"), so neither does the oracle.
func wantOpt(p *uint32) uint32 {
	if p == nil {
		return 0
	}
	return *p
}

func diffDevices(want []Dev, got []*api.LinuxDevice) string {
	w := map[string]Dev{}
	for _, d := range want {
		w[d.Path] = d
	}
	seen := map[string]bool{}
	for _, g := range got {
		if g == nil {
			return "nil device in the adjustment"
		}
		d, ok := w[g.Path]
		if !ok {
			return fmt.Sprintf("device %q injected but not in the applicable annotation", g.Path)
		}
		if seen[g.Path] {
			return fmt.Sprintf("device %q injected twice", g.Path)
		}
		seen[g.Path] = true
		var gm, gu, gg uint32
		if g.FileMode != nil {
			gm = g.FileMode.Value
		}
		if g.Uid != nil {
			gu = g.Uid.Value
		}
		if g.Gid != nil {
			gg = g.Gid.Value
		}
		if g.Type != d.Type || g.Major != d.Major || g.Minor != d.Minor || gm != wantOpt(d.FileMode) || gu != wantOpt(d.UID) || gg != wantOpt(d.GID) {
			return fmt.Sprintf("device %q: got type=%q major=%d minor=%d mode=%d uid=%d gid=%d, annotation says type=%q major=%d minor=%d mode=%d uid=%d gid=%d",
				g.Path, g.Type, g.Major, g.Minor, gm, gu, gg, d.Type, d.Major, d.Minor, wantOpt(d.FileMode), wantOpt(d.UID), wantOpt(d.GID))
		}
	}
	for _, d := range want {
		if !seen[d.Path] {
			return fmt.Sprintf("device %q of the applicable annotation was not injected", d.Path)
		}
	}
	return ""
}

func diffCDI(want []string, got []*api.CDIDevice) string {
	w := map[string]bool{}
	for _, n := range want {
		w[n] = true
	}
	seen := map[string]bool{}
	for _, g := range got {
		if g == nil {
			return "nil CDI device in the adjustment"
		}
		if !w[g.Name] {
			return fmt.Sprintf("CDI device %q injected but not in the applicable annotation", g.Name)
		}
		if seen[g.Name] {
			return fmt.Sprintf("CDI device %q injected twice", g.Name)
		}
		seen[g.Name] = true
	}
	for _, n := range want {
		if !seen[n] {
			return fmt.Sprintf("CDI device %q of the applicable annotation was not injected", n)
		}
	}
	return ""
}

func diffMounts(want []Mnt, got []*api.Mount) string {
	w := map[string]Mnt{}
	for _, m := range want {
		w[m.Destination] = m
	}
	seen := map[string]bool{}
	for _, g := range got {
		if g == nil {
			return "nil mount in the adjustment"
		}
		m, ok := w[g.Destination]
		if !ok {
			return fmt.Sprintf("mount to %q injected but not in the applicable annotation", g.Destination)
		}
		if seen[g.Destination] {
			return fmt.Sprintf("mount to %q injected twice", g.Destination)
		}
		seen[g.Destination] = true
		same := g.Source == m.Source && g.Type == m.Type && len(g.Options) == len(m.Options)
		if same {
			for i := range g.Options {
				if g.Options[i] != m.Options[i] {
					same = false
				}
			}
		}
		if !same {
			return fmt.Sprintf("mount to %q: got source=%q type=%q options=%q, annotation says source=%q type=%q options=%q",
				g.Destination, g.Source, g.Type, g.Options, m.Source, m.Type, m.Options)
		}
	}
	for _, m := range want {
		if !seen[m.Destination] {
			return fmt.Sprintf("mount to %q of the applicable annotation was not injected", m.Destination)
		}
	}
	return ""
}

// normRlimit is the harness's own reading of "case-insensitive, optionally prefixed rlimit
// names normalised": RLIMIT_<UPPER>.
func normRlimit(s string) string {
	u := strings.ToUpper(s)
	return "RLIMIT_" + strings.TrimPrefix(u, "RLIMIT_")
}

func u64v(p *uint64) uint64 {
	if p == nil {
		return 0
	}
	return *p
}

func diffRlimits(want []Rlim, got []*api.POSIXRlimit) string {
	w := map[string]Rlim{}
	for _, r := range want {
		w[normRlimit(r.Type)] = r
	}
	seen := map[string]bool{}
	for _, g := range got {
		if g == nil {
			return "nil rlimit in the adjustment"
		}
		r, ok := w[g.Type]
		if !ok {
			return fmt.Sprintf("rlimit %q set but not in the applicable annotation (normalised names wanted: %v)", g.Type, sortedKeys(w))
		}
		if seen[g.Type] {
			return fmt.Sprintf("rlimit %q set twice", g.Type)
		}
		seen[g.Type] = true
		if g.Hard != u64v(r.Hard) || g.Soft != u64v(r.Soft) {
			return fmt.Sprintf("rlimit %q: got hard=%d soft=%d, annotation says hard=%d soft=%d", g.Type, g.Hard, g.Soft, u64v(r.Hard), u64v(r.Soft))
		}
	}
	for k := range w {
		if !seen[k] {
			return fmt.Sprintf("rlimit %q of the applicable annotation was not set", k)
		}
	}
	return ""
}

func sortedKeys[V any](m map[string]V) []string {
	out := make([]string, 0, len(m))
	for k := range m {
		out = append(out, k)
	}
	sort.Strings(out)
	return out
}

// emptyMsg: no scalar, list or map is populated anywhere below m.
func emptyMsg(m protoreflect.Message) bool {
	ok := true
	m.Range(func(fd protoreflect.FieldDescriptor, v protoreflect.Value) bool {
		if fd.Kind() == protoreflect.MessageKind && !fd.IsList() && !fd.IsMap() {
			if !emptyMsg(v.Message()) {
				ok = false
			}
		} else {
			ok = false
		}
		return ok
	})
	return ok
}

func prefixRelated(a, b string) bool {
	return a != b && (strings.HasPrefix(a, b) || strings.HasPrefix(b, a))
}

// judge runs one request and compares it with the expectation.
// transport is where a request goes: the adaptation with its two launched plugins, or the
// raw runtime end of one plugin process.
type transport interface {
	create(ctr string, ann map[string]string, rq *ReqCtx) (*api.CreateContainerResponse, error, createNotes)
}

type createNotes struct {
	podChanged bool // the runtime-side pod differed after the call
	recurred   bool // the name came back after >= 1024 other distinct names
}

func (f *fixture) create(ctr string, ann map[string]string, rq *ReqCtx) (*api.CreateContainerResponse, error, createNotes) {
	rsp, err := f.send(ctr, ann, rq)
	return rsp, err, createNotes{podChanged: f.podChanged, recurred: f.recurred}
}

func judge(f transport, c C20Case) ev.Outcome {
	o := ev.Outcome{}
	ann := map[string]string{}
	perFam := map[string]int{}
	anyIll, related := false, false
	for i := range c.Anns {
		a := &c.Anns[i]
		if _, ok := famKey[a.Family]; !ok || (a.Scope != scopeCtr && a.Scope != scopePod && a.Scope != scopeBare) {
			return ev.Outcome{Excluded: "malformed_case"}
		}
		k := a.key()
		if _, dup := ann[k]; dup {
			return ev.Outcome{Excluded: "duplicate_key"}
		}
		ann[k] = a.Text
		perFam[a.Family]++
		if a.Ill != "" {
			anyIll = true
		}
		if a.Scope == scopeCtr && prefixRelated(a.Target, c.Ctr) {
			related = true
		}
	}

	if c.Req != nil {
		for k, v := range c.Req.PodAnnotations {
			if _, dup := ann[k]; dup || isPluginKey(k) {
				return ev.Outcome{Excluded: "pod_annotation_is_plugin_key"}
			}
			ann[k] = v
		}
	}

	// expectation
	app := map[string]*Ann{}
	wantErr := ""
	nullish := false
	for _, fam := range families {
		a := applicable(c, fam)
		app[fam] = a
		switch {
		case a == nil:
			o.Classes = append(o.Classes, fam+":none")
		default:
			o.Classes = append(o.Classes, fam+":"+a.Scope)
			if perFam[fam] >= 2 {
				o.Classes = append(o.Classes, fam+":competing")
			}
			switch a.Ill {
			case "":
				o.Classes = append(o.Classes, "style:"+a.Style)
			case "nullish":
				nullish = true
				o.Classes = append(o.Classes, "applicable_nullish")
			default:
				if wantErr == "" {
					wantErr = fam + "/" + a.Ill
				}
				o.Classes = append(o.Classes, "applicable_ill:"+fam+"/"+a.Ill)
			}
		}
	}
	decorated := false // a well-formed applicable payload with irregularities on top
	typeErr := map[string]bool{"str_in_int": true, "out_of_range": true, "quoted_number": true, "seq_in_string": true, "scalar_options": true, "elem_type": true}
	for _, fam := range families {
		a := app[fam]
		if a == nil || len(a.Extra) == 0 {
			continue
		}
		for _, e := range a.Extra {
			switch {
			case a.Ill == "":
				decorated = true
				o.Classes = append(o.Classes, "extra:"+e+"_on_wellformed")
			case a.Ill != "nullish":
				o.Classes = append(o.Classes, "extra:"+e+"_on_malformed")
				if strings.HasPrefix(e, exUnknown) && typeErr[a.Ill] {
					o.Classes = append(o.Classes, "extra:unknown_field+type_error:"+fam)
				}
			}
		}
	}
	shadowIll := false // an ill-formed payload under a key that is not the applicable one
	for i := range c.Anns {
		a := &c.Anns[i]
		if a.Ill != "" && a.Ill != "nullish" && app[a.Family] != a {
			shadowIll = true
		}
		if app[a.Family] != a {
			switch {
			case a.Scope == scopeCtr:
				o.Classes = append(o.Classes, "distractor:other_container")
			case a.Family == famRlim:
				o.Classes = append(o.Classes, "distractor:rlim_"+a.Scope)
			default:
				o.Classes = append(o.Classes, "distractor:shadowed_"+a.Scope)
			}
		}
	}
	if shadowIll {
		o.Classes = append(o.Classes, "nonapplicable_ill")
	}
	if related {
		o.Classes = append(o.Classes, "prefix_related_name")
	}
	o.Classes = append(o.Classes, nameLenClass(c.Ctr))
	for _, fam := range families {
		if a := app[fam]; a != nil && a.Ill == "" {
			if n := len(a.Devices) + len(a.CDI) + len(a.Mounts) + len(a.Rlimits); n > 33 {
				o.Classes = append(o.Classes, "listlen:over_33:"+fam)
			} else if n >= 16 {
				o.Classes = append(o.Classes, "listlen:16-33:"+fam)
			}
		}
	}
	if a := app[famMnt]; a != nil && a.Ill == "" {
		optSep, fieldSep := false, false
		for _, m := range a.Mounts {
			for _, op := range m.Options {
				if hasSeparator(op) {
					optSep = true
				}
				if strings.Contains(op, ",") {
					o.Classes = append(o.Classes, "strings:mount_option_with_comma")
				}
			}
			if hasSeparator(m.Source) || hasSeparator(m.Type) || hasSeparator(m.Destination) {
				fieldSep = true
			}
		}
		if optSep {
			o.Classes = append(o.Classes, "strings:mount_option_with_separator")
		}
		if fieldSep {
			o.Classes = append(o.Classes, "strings:mount_field_with_separator")
		}
	}
	if a := app[famDev]; a != nil && a.Ill == "" {
		for _, d := range a.Devices {
			if hasSeparator(strings.TrimPrefix(d.Path, "/dev/")) || hasSeparator(d.Type) {
				o.Classes = append(o.Classes, "strings:device_field_with_separator")
				break
			}
		}
	}
	if a := app[famCDI]; a != nil && a.Ill == "" {
		for _, n := range a.CDI {
			if strings.ContainsAny(strings.Replace(n, "=", "", 1), ",:= \"'") {
				o.Classes = append(o.Classes, "strings:cdi_name_with_separator")
				break
			}
		}
	}
	for i := range c.Anns {
		a := &c.Anns[i]
		if a.Scope == scopeCtr && a.Target != c.Ctr && (atCut(a.Target, c.Ctr) || atCut(c.Ctr, a.Target)) {
			o.Classes = append(o.Classes, "sibling_at_length_cut")
			if app[a.Family] == nil || app[a.Family].Scope != scopeCtr {
				o.Classes = append(o.Classes, "sibling_at_length_cut_without_own_key")
			}
			break
		}
	}
	if a := app[famRlim]; a != nil && a.Ill == "" {
		for _, r := range a.Rlimits {
			u := strings.ToUpper(r.Type)
			if strings.HasPrefix(u, "RLIMIT_") {
				o.Classes = append(o.Classes, "rlimit:prefixed")
			} else {
				o.Classes = append(o.Classes, "rlimit:bare")
			}
			switch r.Type {
			case u:
				o.Classes = append(o.Classes, "rlimit:upper")
			case strings.ToLower(r.Type):
				o.Classes = append(o.Classes, "rlimit:lower")
			default:
				o.Classes = append(o.Classes, "rlimit:mixed")
			}
		}
	}
	competing := false
	for _, n := range perFam {
		if n >= 2 {
			competing = true
		}
	}
	overlap := reqClasses(c, app, &o)
	o.NonTrivial = competing || related || anyIll || overlap

	rsp, err, notes := f.create(c.Ctr, ann, c.Req)
	if notes.podChanged {
		o.Lenient = append(o.Lenient, "request_pod_changed_by_call")
	}
	if notes.recurred {
		o.Classes = append(o.Classes, "recur:name_after_1024_other_names")
	}
	switch {
	case c.Opts == PluginOpts{}:
		o.Classes = append(o.Classes, "opts:default")
	default:
		if c.Opts.InjVerbose {
			o.Classes = append(o.Classes, "opts:injector_verbose")
		}
		if c.Opts.AdjVerbose {
			o.Classes = append(o.Classes, "opts:adjuster_verbose")
		}
		if c.Opts.NameIdx {
			o.Classes = append(o.Classes, "opts:name_idx_flags")
		}
	}
	hist := map[string]any{"annotations": ann, "injector_flags": c.Opts.injectorFlags(), "adjuster_flags": c.Opts.adjusterFlags()}
	if err != nil {
		hist["error"] = err.Error()
	} else {
		hist["response"] = rsp
	}
	fail := func(format string, a ...any) ev.Outcome {
		out := ev.Failf(format, a...)
		out.History = hist
		out.Classes = o.Classes
		out.NonTrivial = o.NonTrivial
		return out
	}

	if wantErr != "" {
		// "Malformed annotations, unknown rlimit types or a hard limit below the soft limit
		// fail the creation request without any partial adjustment."
		if err == nil {
			return fail("the applicable annotation of %s is ill-formed but the creation request succeeded (adjustment: %s)", wantErr, brief(rsp))
		}
		if rsp != nil {
			return fail("the request failed (%v) but still carries a response: %s", err, brief(rsp))
		}
		o.Classes = append([]string{"outcome:rejected"}, o.Classes...)
		return o
	}
	if err != nil {
		switch {
		case nullish:
			// an empty / null document: the statement does not say whether that is "malformed"
			o.Lenient = append(o.Lenient, "nullish_applicable_rejected")
		case decorated:
			// unknown fields, a duplicated key, an alias or a second document on an otherwise
			// well-formed payload: the statement does not say whether that is "malformed"
			o.Lenient = append(o.Lenient, "irregular_wellformed_rejected")
		case shadowIll:
			// a malformed annotation that is not the applicable one: "malformed annotations
			// fail the request" may be read to include it
			o.Lenient = append(o.Lenient, "nonapplicable_ill_rejected")
		default:
			return fail("every applicable annotation is well-formed but the creation request failed: %v", err)
		}
		o.Classes = append([]string{"outcome:rejected_lenient"}, o.Classes...)
		return o
	}
	if nullish {
		o.Lenient = append(o.Lenient, "nullish_applicable_accepted_as_empty")
	}
	if shadowIll {
		o.Lenient = append(o.Lenient, "nonapplicable_ill_ignored")
	}
	if decorated {
		o.Lenient = append(o.Lenient, "irregular_wellformed_accepted")
	}
	if rsp == nil {
		return fail("nil response without error")
	}
	adj := rsp.Adjust
	if adj == nil {
		adj = &api.ContainerAdjustment{}
	}
	var (
		wantDev  []Dev
		wantCDI  []string
		wantMnt  []Mnt
		wantRlim []Rlim
	)
	if a := app[famDev]; a != nil && a.Ill == "" {
		wantDev = a.Devices
	}
	if a := app[famCDI]; a != nil && a.Ill == "" {
		wantCDI = a.CDI
	}
	if a := app[famMnt]; a != nil && a.Ill == "" {
		wantMnt = a.Mounts
	}
	if a := app[famRlim]; a != nil && a.Ill == "" {
		wantRlim = a.Rlimits
	}
	if d := diffDevices(wantDev, adj.GetLinux().GetDevices()); d != "" {
		return fail("devices: %s (applicable: %s)", d, descr(app[famDev]))
	}
	if d := diffCDI(wantCDI, adj.GetCDIDevices()); d != "" {
		return fail("CDI devices: %s (applicable: %s)", d, descr(app[famCDI]))
	}
	if d := diffMounts(wantMnt, adj.GetMounts()); d != "" {
		return fail("mounts: %s (applicable: %s)", d, descr(app[famMnt]))
	}
	if d := diffRlimits(wantRlim, adj.GetRlimits()); d != "" {
		return fail("rlimits: %s (applicable: %s)", d, descr(app[famRlim]))
	}
	// "exactly the devices, CDI devices, mounts and rlimits": nothing else is adjusted
	rest := proto.Clone(adj).(*api.ContainerAdjustment)
	rest.Mounts, rest.Rlimits, rest.CDIDevices = nil, nil, nil
	if rest.Linux != nil {
		rest.Linux.Devices = nil
	}
	if !emptyMsg(rest.ProtoReflect()) {
		return fail("the adjustment carries something besides devices, CDI devices, mounts and rlimits: %s", brief(&api.CreateContainerResponse{Adjust: rest}))
	}
	for _, u := range rsp.Update {
		if u != nil {
			return fail("the response updates another container: %v", u)
		}
	}
	if len(rsp.Evict) != 0 {
		return fail("the response evicts containers: %v", rsp.Evict)
	}
	if len(wantDev)+len(wantCDI)+len(wantMnt)+len(wantRlim) == 0 {
		o.Classes = append([]string{"outcome:adjusted_nothing"}, o.Classes...)
	} else {
		o.Classes = append([]string{"outcome:adjusted"}, o.Classes...)
	}
	return o
}

// reqClasses labels how the rest of the request relates to the applicable annotations; it
// returns whether the container's own spec shares an rlimit type, mount destination or device
// path with them. (Labels only: the expectation never looks at the request context.)
func reqClasses(c C20Case, app map[string]*Ann, o *ev.Outcome) bool {
	r := c.Req
	if r == nil {
		o.Classes = append(o.Classes, "req:bare")
		return false
	}
	o.Classes = append(o.Classes, "req:populated")
	overlap := false
	add := func(k string) { o.Classes = append(o.Classes, k) }
	if a := app[famRlim]; a != nil {
		cur := map[string]CRlim{}
		for _, l := range r.Rlimits {
			cur[l.Type] = l
		}
		same, seedShape, eqBoth := false, false, false
		for _, u := range a.Rlimits { // values are kept for well-formed and hard_lt_soft payloads
			l, ok := cur[normRlimit(u.Type)]
			if !ok {
				continue
			}
			same = true
			if l.Hard == u64v(u.Hard) && l.Soft == u64v(u.Soft) {
				eqBoth = true
			}
			if l.Hard == l.Soft && l.Hard == u64v(u.Hard) && u64v(u.Soft) != u64v(u.Hard) {
				seedShape = true
			}
		}
		if same {
			overlap = true
			add("req:rlimit_of_annotated_type")
		}
		if eqBoth {
			add("req:rlimit_equal_to_annotated")
		}
		if seedShape {
			add("req:rlimit_hard_eq_soft_eq_annotated_hard_soft_differs")
			if a.Ill == "hard_lt_soft" {
				add("req:rlimit_hard_eq_soft_eq_annotated_hard_below_soft")
			}
		}
	}
	if a := app[famMnt]; a != nil {
		cur := map[string]bool{}
		for _, m := range r.Mounts {
			cur[m.Destination] = true
		}
		for _, m := range a.Mounts {
			if cur[m.Destination] {
				overlap = true
				add("req:mount_at_annotated_destination")
				break
			}
		}
	}
	if a := app[famDev]; a != nil {
		cur := map[string]bool{}
		for _, d := range r.Devices {
			cur[d.Path] = true
		}
		for _, d := range a.Devices {
			if cur[d.Path] {
				overlap = true
				add("req:device_at_annotated_path")
				break
			}
		}
	}
	for k := range r.Annotations {
		if isPluginKey(k) {
			add("req:container_annotation_with_plugin_key")
			break
		}
	}
	for k := range r.PodAnnotations {
		if strings.Contains(k, "nri") {
			add("req:pod_annotation_resembling_plugin_key")
			break
		}
	}
	if len(r.Rlimits) > 0 {
		add("req:has_rlimits")
	}
	if r.Res != nil {
		add("req:has_resources")
	}
	return overlap
}

func descr(a *Ann) string {
	if a == nil {
		return "none"
	}
	return a.key()
}

func brief(rsp *api.CreateContainerResponse) string {
	if rsp == nil {
		return "<nil>"
	}
	a := rsp.Adjust
	var parts []string
	for _, d := range a.GetLinux().GetDevices() {
		parts = append(parts, "dev "+d.GetPath())
	}
	for _, d := range a.GetCDIDevices() {
		parts = append(parts, "cdi "+d.GetName())
	}
	for _, m := range a.GetMounts() {
		parts = append(parts, "mount "+m.GetDestination())
	}
	for _, r := range a.GetRlimits() {
		parts = append(parts, fmt.Sprintf("rlimit %s %d/%d", r.GetType(), r.GetHard(), r.GetSoft()))
	}
	if len(parts) == 0 {
		s := fmt.Sprint(a)
		if len(s) > 300 {
			s = s[:300] + "…"
		}
		return "no devices/mounts/rlimits; " + s
	}
	return strings.Join(parts, ", ")
}

// runC20 sends the request of the case and then its follow-up requests, all to the same pair
// of plugin processes; every request is judged on its own.
func runC20(c C20Case) ev.Outcome {
	ev.Get("C20").AddExtra("requests", 1+len(c.Then))
	first := c
	first.Then = nil
	o := runOne(first)
	if o.Fail != "" || len(c.Then) == 0 {
		return o
	}
	since := 0 // requests since the last one with the first request's texts
	for i, st := range c.Then {
		o2 := runOne(c.stepCase(st))
		if o2.Fail != "" {
			o2.Fail = fmt.Sprintf("follow-up request %d (%s, %d request(s) after the same annotation texts were sent): %s", i+1, st.Kind, since+1, o2.Fail)
			o2.Classes, o2.NonTrivial = o.Classes, true
			return o2
		}
		o.Lenient = append(o.Lenient, o2.Lenient...)
		o.Overloaded = o.Overloaded || o2.Overloaded
		if st.Kind == "other" {
			since++
			continue
		}
		tag := "repeat:" + st.Kind
		if since == 0 {
			tag += "_at_once"
		} else {
			tag += "_after_others"
		}
		o.Classes = append(o.Classes, tag)
		expectsError := false
		for _, k := range o2.Classes {
			if k == "outcome:rejected" {
				expectsError = true
			}
		}
		if expectsError {
			o.Classes = append(o.Classes, "repeat:malformed_again")
		} else {
			o.Classes = append(o.Classes, "repeat:wellformed_again")
		}
		since = 0
	}
	o.NonTrivial = true
	return o
}

func runOne(c C20Case) ev.Outcome {
	f, err := getFixture(c.Opts)
	if err != nil {
		// infrastructure, not a verdict: make the shard end inconclusive
		panic(fmt.Sprintf("C20 fixture: %v", err))
	}
	o := judge(f, c)
	if o.Fail == "" {
		return o
	}
	// A failure is only attributed to this case if both plugins are (still) serving;
	// otherwise an earlier event (a crash, an overload-induced drop) is responsible: judge
	// the case again on a fresh pair of plugin processes.
	herr := f.healthy()
	if herr == nil {
		return o
	}
	dropFixture(c.Opts)
	f, err = getFixture(c.Opts)
	if err != nil {
		panic(fmt.Sprintf("C20 fixture (restart after %q; first verdict %q): %v", herr, o.Fail, err))
	}
	ev.Get("C20").AddExtra("fixture_restarts", 1)
	o2 := judge(f, c)
	if o2.Fail != "" {
		if herr2 := f.healthy(); herr2 != nil {
			o2.Fail += fmt.Sprintf(" [after this request the plugins stopped serving: %v]", herr2)
			dropFixture(c.Opts)
		}
		return o2
	}
	o2.Overloaded = true
	return o2
}

func TestProp_C20(t *testing.T) {
	if _, err := getFixture(PluginOpts{}); err != nil {
		t.Fatalf("C20 fixture: %v", err)
	}
	ev.Run(t, "C20", genC20, runC20)
}

// TestExh_C20 enumerates, per key family, all 2^5 presence combinations of the five kinds of
// key {this container, a container whose name is a proper prefix, a container whose name is
// an extension, pod scope, bare key} with distinct single-element payloads.
func TestExh_C20(t *testing.T) {
	r := ev.Get("C20")
	defer r.Flush()
	const ctr = "c0"
	slots := []struct{ scope, target string }{{scopeCtr, ctr}, {scopeCtr, "c"}, {scopeCtr, "c0-x"}, {scopePod, ""}, {scopeBare, ""}}
	n := 0
	for _, opts := range optionSets {
		for _, fam := range families {
			for mask := 0; mask < 1<<len(slots); mask++ {
				c := C20Case{Ctr: ctr, Opts: opts}
				for i, s := range slots {
					if mask&(1<<i) == 0 {
						continue
					}
					a := Ann{Family: fam, Scope: s.scope, Target: s.target, Style: "block"}
					tag := fmt.Sprintf("exh%d", i)
					switch fam {
					case famDev:
						a.Devices = []Dev{{Path: "/dev/" + tag, Type: "c", Major: int64(10 + i), Minor: int64(i)}}
					case famCDI:
						a.CDI = []string{"vendor.com/device=" + tag}
					case famMnt:
						a.Mounts = []Mnt{{Source: "/src/" + tag, Destination: "/mnt/" + tag, Type: "bind", Options: []string{"bind", "ro"}}}
					case famRlim:
						a.Rlimits = []Rlim{{Type: rlimitNames[i], Hard: u64p(uint64(100 + i)), Soft: u64p(uint64(i))}}
					}
					a.Text = (&renderer{ch: fixedChooser{}, style: "block"}).render(a.node())
					c.Anns = append(c.Anns, a)
				}
				raw := ev.Snapshot(c)
				r.Journal(raw)
				o := runC20(c)
				r.ClearJournal()
				o.Classes = append(o.Classes, "sweep:key_presence")
				r.Record(raw, o)
				if o.Fail != "" {
					t.Fatalf("C20: %s", o.Fail)
				}
				n++
			}
		}
	}
	r.SetExtra("exhaustive_key_presence_combinations", n)
	r.SetExtra("name_length_sweep_requests", sweepNameLengths(t, r))
	r.SetExtra("separator_sweep_requests", sweepSeparators(t, r))
	r.SetExtra("combination_sweep_requests", sweepCombinations(t, r))
	r.SetExtra("repetition_sweep_cases", sweepRepetition(t, r))
	r.SetExtra("many_names_sweep_requests", sweepManyNames(t, r))
	r.SetExtra("concurrent_sweep_requests", sweepConcurrent(t, r))
	r.SetExtra("long_list_sweep_requests", sweepLongLists(t, r))
	r.SetExtra("exhaustive", false) // only the key-presence sub-domain is enumerated
	r.SetExtra("exhaustive_subdomain", "per plugin option set (6) and key family (4), all 32 presence combinations of {container key for this container, for a prefix-named container, for an extension-named container, pod key, bare key}")
}

// sweepNameLengths: created containers with names of every boundary length (plain, and a
// boundary-length stem plus separator and suffix), each with every sibling at the cut points
// and its extensions; per family the container-scoped key is present for the sibling only,
// for both, or for neither, with and without a pod-scoped key. Default plugin options.
func sweepNameLengths(t *testing.T, r *ev.Recorder) int {
	var created []string
	for _, l := range nameLengths {
		created = append(created, fillName(0, l))
	}
	for _, l := range []int{51, 52, 53, 62, 63} {
		for _, sep := range []string{"-", ".", "_"} {
			created = append(created, fillName(1, l)+sep+"debug")
		}
	}
	payload := func(fam, scope, target, tag string, i int) Ann {
		a := Ann{Family: fam, Scope: scope, Target: target, Style: "block"}
		switch fam {
		case famDev:
			a.Devices = []Dev{{Path: "/dev/" + tag, Type: "c", Major: int64(20 + i), Minor: int64(i)}}
		case famCDI:
			a.CDI = []string{"vendor.com/device=" + tag}
		case famMnt:
			a.Mounts = []Mnt{{Source: "/src/" + tag, Destination: "/mnt/" + tag, Type: "bind", Options: []string{"ro"}}}
		case famRlim:
			a.Rlimits = []Rlim{{Type: rlimitNames[i], Hard: u64p(uint64(200 + i)), Soft: u64p(uint64(i))}}
		}
		a.Text = (&renderer{ch: fixedChooser{}, style: "block"}).render(a.node())
		return a
	}
	n := 0
	for _, ctr := range created {
		hot, rest := boundarySiblings(ctr)
		run := func(fam, sib, presence string, pod bool) {
			c := C20Case{Ctr: ctr}
			if presence != "neither" {
				c.Anns = append(c.Anns, payload(fam, scopeCtr, sib, "sibling", 1))
			}
			if presence == "both" {
				c.Anns = append(c.Anns, payload(fam, scopeCtr, ctr, "own", 2))
			}
			if pod {
				c.Anns = append(c.Anns, payload(fam, scopePod, "", "pod", 3))
			}
			raw := ev.Snapshot(c)
			r.Journal(raw)
			o := runC20(c)
			r.ClearJournal()
			o.Classes = append(o.Classes, "sweep:name_length")
			r.Record(raw, o)
			if o.Fail != "" {
				t.Fatalf("C20: %s", o.Fail)
			}
			n++
		}
		for _, fam := range families {
			run(fam, "", "neither", false)
			run(fam, "", "neither", true)
			for _, sib := range hot { // what is left of the name at a cut point, "-debug", "x"
				run(fam, sib, "sibling", false)
				run(fam, sib, "sibling", true)
				run(fam, sib, "both", false)
			}
			for _, sib := range rest { // untrimmed cuts and other relatives
				run(fam, sib, "sibling", false)
			}
		}
	}
	return n
}

// cycleChooser makes the writer go through its alternatives in turn (deterministic).
type cycleChooser struct{ n *int }

func (c cycleChooser) intn(n int, _ string) int {
	if n <= 1 {
		return 0
	}
	*c.n++
	return *c.n % n
}

// sweepSeparators: directed cases for the string-valued parts of the annotations. Strings
// with ',', ':', '=', ' ', '/', quotes (and the empty string) must reach the adjustment
// exactly as annotated, element by element; rlimit type names with separators are not Linux
// resource limit names and must fail the request. Every scope that can be the applicable
// one, every writer style, default plugin options.
func sweepSeparators(t *testing.T, r *ev.Recorder) int {
	const ctr = "c0"
	n, turn := 0, 0
	run := func(c C20Case) {
		raw := ev.Snapshot(c)
		r.Journal(raw)
		o := runC20(c)
		r.ClearJournal()
		o.Classes = append(o.Classes, "sweep:separators")
		r.Record(raw, o)
		if o.Fail != "" {
			t.Fatalf("C20: %s", o.Fail)
		}
		n++
	}
	text := func(a *Ann) {
		a.Text = (&renderer{ch: cycleChooser{&turn}, style: a.Style}).render(a.node())
	}
	u32 := func(v uint32) *uint32 { return &v }
	mounts := [][]Mnt{
		{{Source: "/home", Destination: "/host-home", Type: "bind", Options: []string{"bind", `context="system_u:object_r:container_file_t:s0:c100,c200"`, "ro"}}},
		{{Source: "tmpfs", Destination: "/scratch", Type: "tmpfs", Options: []string{"ro,", ",", "bind,ro", "", "size=64k,mode=1777"}}},
		{{Source: "/a,b", Destination: "/mnt/a,b", Type: "bind,ro", Options: []string{"uid=0,gid=0"}},
			{Source: "a:b=c d", Destination: "/mnt/k=v w", Type: `"q"`, Options: []string{"lowerdir=/a:/b", "x y", `"quoted"`, "'"}}},
		{{Source: ",", Destination: "/mnt/,", Type: ",", Options: []string{","}}},
		{{Source: "", Destination: "/mnt/empty", Type: "", Options: []string{"", ""}}},
	}
	devices := [][]Dev{
		{{Path: "/dev/a,b", Type: "c", Major: 1, Minor: 3}, {Path: "/dev/k=v", Type: "b", Major: 8, Minor: 0, FileMode: u32(0o660)}},
		{{Path: "/dev/x y", Type: "c,b", Major: 1, Minor: 5}, {Path: `/dev/q"r`, Type: "c:b", Major: 1, Minor: 7, UID: u32(1000), GID: u32(1000)}},
		{{Path: "/dev/bus/usb/001,002", Type: "c b", Major: 189, Minor: 1}, {Path: "/dev/it's", Type: `"c"`, Major: 10, Minor: 200}, {Path: "/dev/c:0:1", Type: "c=b", Major: 4, Minor: 64}},
	}
	cdis := [][]string{
		{"vendor.com/class=a,b", "vendor.com/class=a:b"},
		{"vendor.com/class=a b", `vendor.com/class="q"`, "vendor.com/a/b=c=d", "vendor.com/class=it's", ","},
	}
	for _, scope := range []string{scopeCtr, scopePod, scopeBare} {
		target := ""
		if scope == scopeCtr {
			target = ctr
		}
		for _, style := range []string{"block", "flow", "json"} {
			for rep := 0; rep < 3; rep++ { // three turns of the quoting alternatives
				for _, m := range mounts {
					a := Ann{Family: famMnt, Scope: scope, Target: target, Style: style, Mounts: m}
					text(&a)
					run(C20Case{Ctr: ctr, Anns: []Ann{a}})
				}
				for _, d := range devices {
					a := Ann{Family: famDev, Scope: scope, Target: target, Style: style, Devices: d}
					text(&a)
					run(C20Case{Ctr: ctr, Anns: []Ann{a}})
				}
				for _, l := range cdis {
					a := Ann{Family: famCDI, Scope: scope, Target: target, Style: style, CDI: l}
					text(&a)
					run(C20Case{Ctr: ctr, Anns: []Ann{a}})
				}
			}
		}
	}
	// rlimit type names: every spelling of a valid name is accepted next to a neighbour, a name
	// with a separator in it is unknown
	for _, style := range []string{"block", "flow", "json"} {
		for _, bad := range unknownRlimits {
			a := Ann{Family: famRlim, Scope: scopeCtr, Target: ctr, Style: style, Ill: "unknown_type",
				Rlimits: []Rlim{{Type: "RLIMIT_CORE", Hard: u64p(10), Soft: u64p(5)}, {Type: bad, Hard: u64p(4096), Soft: u64p(1024)}}}
			text(&a)
			a.Rlimits = nil
			run(C20Case{Ctr: ctr, Anns: []Ann{a}})
		}
		for _, pre := range rlimPrefixes {
			for i, base := range rlimitNames {
				next := strings.ToLower(rlimitNames[(i+1)%len(rlimitNames)])
				a := Ann{Family: famRlim, Scope: scopeCtr, Target: ctr, Style: style,
					Rlimits: []Rlim{{Type: pre + base, Hard: u64p(4096), Soft: u64p(1024)}, {Type: strings.ToLower(pre) + next, Hard: u64p(1)}}}
				text(&a)
				run(C20Case{Ctr: ctr, Anns: []Ann{a}})
			}
		}
	}
	return n
}

type entry = func() *node

// malform is one way of making a device / mount / rlimit entry malformed.
type malform struct {
	name string
	do   func(el *node) *node // returns the entry to use (possibly replaced)
}

// malformTable: per struct-valued family a good entry, the entry that gets malformed, and
// the malformations.
func malformTable() (good, victim map[string]entry, malforms map[string][]malform) {
	good = map[string]entry{
		famDev: func() *node { return devNode(Dev{Path: "/dev/good", Type: "c", Major: 1, Minor: 3}) },
		famMnt: func() *node {
			return mntNode(Mnt{Source: "/good", Destination: "/mnt/good", Type: "bind", Options: []string{"ro"}})
		},
		famRlim: func() *node { return rlimNode(Rlim{Type: "RLIMIT_CORE", Hard: u64p(10), Soft: u64p(5)}) },
	}
	victim = map[string]entry{
		famDev: func() *node { return devNode(Dev{Path: "/dev/victim", Type: "b", Major: 8, Minor: 1}) },
		famMnt: func() *node {
			return mntNode(Mnt{Source: "/victim", Destination: "/mnt/victim", Type: "bind", Options: []string{"rw"}})
		},
		famRlim: func() *node { return rlimNode(Rlim{Type: "nofile", Hard: u64p(4096), Soft: u64p(1024)}) },
	}
	set := func(k string, v *node) func(*node) *node {
		return func(el *node) *node { el.put(k, v); return el }
	}
	del := func(k string) func(*node) *node {
		return func(el *node) *node {
			keys, items := []string{}, []*node{}
			for i, key := range el.keys {
				if key != k {
					keys, items = append(keys, key), append(items, el.items[i])
				}
			}
			el.keys, el.items = keys, items
			return el
		}
	}
	malforms = map[string][]malform{
		famDev: {
			{"str_in_int", set("major", nR("abc"))}, {"quoted_number", set("minor", nR(`"3"`))}, {"out_of_range", set("uid", nR("-1"))},
			{"out_of_range", set("file_mode", nR("4294967296"))}, {"out_of_range", set("major", nR("1.5"))}, {"quoted_number", set("gid", nR("10 users"))},
			{"seq_in_string", set("path", nL(nS("a")))}, {"seq_in_string", set("type", nM().put("a", nS("b")))},
			{"elem_type", func(*node) *node { return nS("foo") }},
		},
		famMnt: {
			{"scalar_options", set("options", nS("ro"))}, {"seq_in_string", set("source", nL(nS("a"), nS("b")))}, {"seq_in_string", set("destination", nM().put("a", nS("b")))},
			{"elem_type", set("options", nL(nL(nS("a"))))}, {"seq_in_string", set("type", nL(nS("x")))}, {"elem_type", func(*node) *node { return nR("7") }},
		},
		famRlim: {
			{"str_in_int", set("soft", nR("abc"))}, {"quoted_number", set("soft", nR(`"1024"`))}, {"quoted_number", set("soft", nR("100 procs"))},
			{"out_of_range", set("hard", nR("-1"))}, {"out_of_range", set("hard", nR("18446744073709551616"))}, {"out_of_range", set("soft", nR("1.5"))},
			{"str_in_int", set("hard", nR("unlimited"))}, {"unknown_type", set("type", nS("FOO"))}, {"missing_type", del("type")},
			{"hard_lt_soft", func(el *node) *node { el.put("hard", nR("1")); el.put("soft", nR("2")); return el }},
			{"seq_in_string", set("type", nL(nS("nofile")))}, {"elem_type", func(*node) *node { return nS("nofile") }},
		},
	}
	return good, victim, malforms
}

// sweepCombinations: every malformation of an entry combined with an unknown field that a
// decoder meets in an earlier entry, in the same entry before the bad field, between the real
// fields, or after them (scalar, mapping and list values in turn); and with a duplicated
// key, an anchor/alias pair in a neighbouring entry and a trailing second document. A
// malformed payload must fail the request whatever else it carries. Controls: each
// irregularity alone on a well-formed payload (outcome left open; when accepted, the
// annotated values must be applied). Container-scoped keys, every writer style.
func sweepCombinations(t *testing.T, r *ev.Recorder) int {
	const ctr = "c0"
	n, turn := 0, 0
	good, victim, malforms := malformTable()
	uvals := []func() *node{
		func() *node { return nS("ignored") },
		func() *node { return nM().put("a", nR("1")).put("b", nL(nS("x"))) },
		func() *node { return nL(nR("1"), nS("two")) },
	}
	run := func(a Ann, doc *node, second bool) {
		a.Scope, a.Target = scopeCtr, ctr
		a.Text = (&renderer{ch: cycleChooser{&turn}, style: a.Style}).render(doc)
		if second {
			a.Text = strings.TrimRight(a.Text, "\n") + "\n---\n" + secondDocs[a.Family]
		}
		c := C20Case{Ctr: ctr, Anns: []Ann{a}}
		raw := ev.Snapshot(c)
		r.Journal(raw)
		o := runC20(c)
		r.ClearJournal()
		o.Classes = append(o.Classes, "sweep:combinations")
		r.Record(raw, o)
		if o.Fail != "" {
			t.Fatalf("C20: %s", o.Fail)
		}
		n++
	}
	for _, fam := range []string{famDev, famMnt, famRlim} {
		for _, style := range []string{"block", "flow", "json"} {
			for mi, m := range malforms[fam] {
				bad := func() *node { return m.do(victim[fam]()) }
				uv := uvals[(mi+len(style))%len(uvals)]
				// the malformation alone, then with an unknown field at each place
				run(Ann{Family: fam, Style: style, Ill: m.name}, nL(good[fam](), bad()), false)
				g := good[fam]()
				g.put("note", uv())
				run(Ann{Family: fam, Style: style, Ill: m.name, Extra: []string{exUnknown + ":earlier_entry"}}, nL(g, bad()), false)
				for _, where := range []struct{ tag, name string }{{"same_entry_before", "aaa"}, {"same_entry_between", "note"}, {"same_entry_after", "zzz"}} {
					b := bad()
					if b.k != nMap {
						continue
					}
					b.put(where.name, uv())
					run(Ann{Family: fam, Style: style, Ill: m.name, Extra: []string{exUnknown + ":" + where.tag}}, nL(good[fam](), b), false)
				}
				g = good[fam]()
				g.put("zzz", uv())
				run(Ann{Family: fam, Style: style, Ill: m.name, Extra: []string{exUnknown + ":later_entry"}}, nL(bad(), g), false)
				// duplicated key (same value twice) in the good entry and in the bad one
				g = good[fam]()
				g.keys, g.items = append(g.keys, g.keys[0]), append(g.items, g.items[0])
				run(Ann{Family: fam, Style: style, Ill: m.name, Extra: []string{exDupKey}}, nL(g, bad()), false)
				if b := bad(); b.k == nMap && len(b.keys) > 0 {
					b.keys, b.items = append(b.keys, b.keys[len(b.keys)-1]), append(b.items, b.items[len(b.items)-1])
					run(Ann{Family: fam, Style: style, Ill: m.name, Extra: []string{exDupKey}}, nL(good[fam](), b), false)
				}
				// a second, well-formed document after the malformed one
				run(Ann{Family: fam, Style: style, Ill: m.name, Extra: []string{exSecondDoc}}, nL(good[fam](), bad()), true)
				// an anchor/alias pair in the neighbouring entry
				if style != "json" {
					a := Ann{Family: fam, Style: style, Ill: m.name, Extra: []string{exAnchor}}
					switch fam {
					case famDev:
						a.Devices = []Dev{{Path: "/dev/good", Type: "c", Major: 1, Minor: 3}}
					case famMnt:
						a.Mounts = []Mnt{{Source: "/good", Destination: "/mnt/good", Type: "bind", Options: []string{"ro"}}}
					case famRlim:
						a.Rlimits = []Rlim{{Type: "RLIMIT_CORE", Hard: u64p(10), Soft: u64p(5)}}
					}
					at := a.prepareAnchor(-1)
					doc := nL(a.node().items[0], bad())
					a.decorate(nil, doc, at)
					a.Devices, a.Mounts, a.Rlimits = nil, nil, nil
					run(a, doc, false)
				}
			}
			// controls: each irregularity alone on a well-formed payload
			wf := func(extra ...string) Ann {
				a := Ann{Family: fam, Style: style, Extra: extra}
				switch fam {
				case famDev:
					a.Devices = []Dev{{Path: "/dev/good", Type: "c", Major: 1, Minor: 3}, {Path: "/dev/victim", Type: "b", Major: 8, Minor: 1}}
				case famMnt:
					a.Mounts = []Mnt{{Source: "/good", Destination: "/mnt/good", Type: "bind", Options: []string{"ro"}}, {Source: "/victim", Destination: "/mnt/victim", Type: "bind", Options: []string{"rw"}}}
				case famRlim:
					a.Rlimits = []Rlim{{Type: "RLIMIT_CORE", Hard: u64p(10), Soft: u64p(5)}, {Type: "nofile", Hard: u64p(4096), Soft: u64p(1024)}}
				}
				return a
			}
			for _, name := range []string{"aaa", "note", "zzz"} {
				for _, uv := range uvals {
					a := wf(exUnknown)
					doc := a.node()
					doc.items[1].put(name, uv())
					run(a, doc, false)
				}
			}
			a := wf(exDupKey)
			doc := a.node()
			doc.items[0].keys, doc.items[0].items = append(doc.items[0].keys, doc.items[0].keys[1]), append(doc.items[0].items, doc.items[0].items[1])
			run(a, doc, false)
			a = wf(exSecondDoc)
			run(a, a.node(), true)
			if style != "json" {
				a = wf(exAnchor)
				at := a.prepareAnchor(-1)
				doc = a.node()
				a.decorate(nil, doc, at)
				run(a, doc, false)
			}
		}
	}
	// CDI names are plain strings: two malformations at once, and a second document
	for _, style := range []string{"block", "flow", "json"} {
		name := func(s string) *node { return nS("vendor.com/device=" + s) }
		for _, doc := range []*node{
			nL(name("a"), nM().put("name", name("b"))),
			nL(nL(name("a")), name("b")),
			nL(name("a"), nL(name("b")), nM().put("k", nS("v"))),
			nL(nM().put("k", nS("v")), nR("[")),
		} {
			if doc.items[len(doc.items)-1].s == "[" && style != "block" {
				continue
			}
			run(Ann{Family: famCDI, Style: style, Ill: "elem_type"}, doc, false)
			if doc.items[len(doc.items)-1].s != "[" {
				run(Ann{Family: famCDI, Style: style, Ill: "elem_type", Extra: []string{exSecondDoc}}, doc, true)
			}
		}
		a := Ann{Family: famCDI, Style: style, CDI: []string{"vendor.com/device=a", "vendor.com/device=b"}, Extra: []string{exSecondDoc}}
		run(a, a.node(), true)
	}
	return n
}

// sweepRepetition: every kind of malformed payload (and a well-formed one) of every family
// sent twice in a row, with one other request in between, and once more for a container of
// another name; every request is judged on its own — a malformed payload fails every time, a
// well-formed one is applied every time.
func sweepRepetition(t *testing.T, r *ev.Recorder) int {
	const ctr = "c0"
	n, turn := 0, 0
	good, victim, malforms := malformTable()
	other := C20Case{Ctr: "between", Anns: []Ann{
		{Family: famDev, Scope: scopeCtr, Target: "between", Style: "block", Devices: []Dev{{Path: "/dev/between", Type: "c", Major: 1, Minor: 9}}},
		{Family: famRlim, Scope: scopeCtr, Target: "between", Style: "block", Rlimits: []Rlim{{Type: "RLIMIT_NPROC", Hard: u64p(64), Soft: u64p(32)}}},
	}}
	for i := range other.Anns {
		other.Anns[i].Text = (&renderer{ch: fixedChooser{}, style: "block"}).render(other.Anns[i].node())
	}
	patterns := [][]Step{{{Kind: "same"}}, {{Kind: "other", Other: &other}, {Kind: "same"}}, {{Kind: "renamed", Name: "c0-again"}, {Kind: "same"}}}
	run := func(a Ann, text string) {
		a.Text = text
		for _, scope := range []string{scopeCtr, scopePod, scopeBare} {
			if scope != scopeCtr && a.Family == famRlim {
				continue // pod and bare keys are not the adjuster's
			}
			a.Scope, a.Target = scope, ""
			if scope == scopeCtr {
				a.Target = ctr
			}
			for _, then := range patterns {
				c := C20Case{Ctr: ctr, Anns: []Ann{a}, Then: then}
				raw := ev.Snapshot(c)
				r.Journal(raw)
				o := runC20(c)
				r.ClearJournal()
				o.Classes = append(o.Classes, "sweep:repetition")
				r.Record(raw, o)
				if o.Fail != "" {
					t.Fatalf("C20: %s", o.Fail)
				}
				n++
			}
		}
	}
	render := func(style string, doc *node) string {
		return (&renderer{ch: cycleChooser{&turn}, style: style}).render(doc)
	}
	for _, style := range []string{"block", "flow", "json"} {
		for _, fam := range []string{famDev, famMnt, famRlim} {
			for _, m := range malforms[fam] {
				run(Ann{Family: fam, Style: style, Ill: m.name}, render(style, nL(good[fam](), m.do(victim[fam]()))))
			}
			// the document is not a list
			run(Ann{Family: fam, Style: style, Ill: "scalar"}, render(style, nS("none")))
			run(Ann{Family: fam, Style: style, Ill: "mapping"}, render(style, good[fam]()))
			// well-formed
			a := Ann{Family: fam, Style: style}
			switch fam {
			case famDev:
				a.Devices = []Dev{{Path: "/dev/good", Type: "c", Major: 1, Minor: 3}, {Path: "/dev/victim", Type: "b", Major: 8, Minor: 1}}
			case famMnt:
				a.Mounts = []Mnt{{Source: "/good", Destination: "/mnt/good", Type: "bind", Options: []string{"ro"}}}
			case famRlim:
				a.Rlimits = []Rlim{{Type: "RLIMIT_CORE", Hard: u64p(10), Soft: u64p(5)}, {Type: "nofile", Hard: u64p(4096), Soft: u64p(1024)}}
			}
			run(a, render(style, a.node()))
		}
		name := func(s string) *node { return nS("vendor.com/device=" + s) }
		run(Ann{Family: famCDI, Style: style, Ill: "elem_type"}, render(style, nL(name("a"), nM().put("name", name("b")))))
		run(Ann{Family: famCDI, Style: style, Ill: "elem_type"}, render(style, nL(nL(name("a")), name("b"))))
		run(Ann{Family: famCDI, Style: style, Ill: "scalar"}, render(style, name("a")))
		run(Ann{Family: famCDI, Style: style, Ill: "mapping"}, render(style, nM().put("name", name("a"))))
		a := Ann{Family: famCDI, Style: style, CDI: []string{"vendor.com/device=a", "vendor.com/device=b"}}
		run(a, render(style, a.node()))
	}
	// broken syntax (block text)
	for _, fam := range families {
		run(Ann{Family: fam, Style: "block", Ill: "broken_syntax"}, "- \"unterminated\n")
		run(Ann{Family: fam, Style: "flow", Ill: "broken_syntax"}, "[{type: a, path: b}")
		run(Ann{Family: fam, Style: "block", Ill: "broken_syntax"}, "- type: a: b: c\n")
	}
	return n
}

// sweepManyNames: the number of distinct container names one pair of plugin processes is
// asked about. A few names are served first with container-scoped annotations of every
// family (one of them with a malformed one), then 1100 requests for fresh, distinct names
// follow (each with its own container-scoped device annotation, every tenth with rlimits), then
// the first names come back — in a pod that also annotates some of the fresh names — and once
// more for good measure. Every request is judged by the oracle; the plugins must treat a name
// the same however many other names they have seen since.
func sweepManyNames(t *testing.T, r *ev.Recorder) int {
	n := 0
	text := func(a *Ann) { a.Text = (&renderer{ch: fixedChooser{}, style: a.Style}).render(a.node()) }
	run := func(c C20Case, class string) {
		raw := ev.Snapshot(c)
		r.Journal(raw)
		o := runC20(c)
		r.ClearJournal()
		o.Classes = append(o.Classes, "sweep:many_names", class)
		r.Record(raw, o)
		if o.Fail != "" {
			t.Fatalf("C20: %s", o.Fail)
		}
		n++
	}
	own := func(name string, i int, others []string) C20Case {
		c := C20Case{Ctr: name}
		add := func(a Ann) { text(&a); c.Anns = append(c.Anns, a) }
		tag := fmt.Sprintf("%s-own", name)
		add(Ann{Family: famDev, Scope: scopeCtr, Target: name, Style: "block", Devices: []Dev{{Path: "/dev/" + tag, Type: "c", Major: int64(30 + i), Minor: 1}}})
		add(Ann{Family: famCDI, Scope: scopeCtr, Target: name, Style: "flow", CDI: []string{"vendor.com/device=" + tag}})
		add(Ann{Family: famMnt, Scope: scopeCtr, Target: name, Style: "json", Mounts: []Mnt{{Source: "/src/" + tag, Destination: "/mnt/" + tag, Type: "bind", Options: []string{"ro"}}}})
		add(Ann{Family: famRlim, Scope: scopeCtr, Target: name, Style: "block", Rlimits: []Rlim{{Type: rlimitNames[i%len(rlimitNames)], Hard: u64p(uint64(500 + i)), Soft: u64p(uint64(i))}}})
		// what the container must NOT get: the pod-scoped and bare ones, and other containers'
		add(Ann{Family: famDev, Scope: scopePod, Style: "block", Devices: []Dev{{Path: "/dev/pod-scoped", Type: "c", Major: 2, Minor: 2}}})
		add(Ann{Family: famCDI, Scope: scopeBare, Style: "block", CDI: []string{"vendor.com/device=bare"}})
		add(Ann{Family: famMnt, Scope: scopePod, Style: "block", Mounts: []Mnt{{Source: "/pod", Destination: "/mnt/pod-scoped", Type: "bind"}}})
		for j, o := range others {
			add(Ann{Family: famDev, Scope: scopeCtr, Target: o, Style: "flow", Devices: []Dev{{Path: "/dev/of-" + o, Type: "b", Major: 7, Minor: int64(j)}}})
			if j%4 == 0 {
				add(Ann{Family: famRlim, Scope: scopeCtr, Target: o, Style: "flow", Rlimits: []Rlim{{Type: "RLIMIT_NPROC", Hard: u64p(7), Soft: u64p(7)}}})
				add(Ann{Family: famMnt, Scope: scopeCtr, Target: o, Style: "flow", Mounts: []Mnt{{Source: "/of", Destination: "/mnt/of-" + o, Type: "bind"}}})
			}
		}
		return c
	}
	malformed := func(name string) C20Case {
		c := C20Case{Ctr: name}
		c.Anns = []Ann{
			{Family: famMnt, Scope: scopeCtr, Target: name, Style: "block", Ill: "scalar_options", Text: "- source: /a\n  destination: /mnt/a\n  type: bind\n  options: ro\n"},
			{Family: famMnt, Scope: scopePod, Style: "block", Mounts: []Mnt{{Source: "/pod", Destination: "/mnt/pod-scoped", Type: "bind"}}},
		}
		text(&c.Anns[1])
		return c
	}
	malformedRlim := func(name string) C20Case {
		return C20Case{Ctr: name, Anns: []Ann{{Family: famRlim, Scope: scopeCtr, Target: name, Style: "block", Ill: "hard_lt_soft", Text: "- type: nofile\n  hard: 1\n  soft: 2\n"}}}
	}
	fresh := func(i int) string { return fmt.Sprintf("fresh-%04d", i) }
	const nFresh = 1100
	first := []string{"early-a", "early-b", "early-c", "early-d"}
	// the fresh names that come to sit where the early ones sat, if slots of 1024 names are
	// reused in order (and a few around them)
	var neighbours []string
	for i := 1000; i < 1048; i++ {
		neighbours = append(neighbours, fresh(i))
	}
	for i, name := range first {
		run(own(name, i, nil), "many_names:first_visit")
	}
	run(malformed("early-bad"), "many_names:first_visit")
	run(malformedRlim("early-bad-rlim"), "many_names:first_visit")
	for i := 0; i < nFresh; i++ {
		name := fresh(i)
		c := C20Case{Ctr: name}
		a := Ann{Family: famDev, Scope: scopeCtr, Target: name, Style: "flow", Devices: []Dev{{Path: "/dev/of-" + name, Type: "b", Major: 7, Minor: int64(i)}}}
		text(&a)
		c.Anns = append(c.Anns, a)
		if i%10 == 0 {
			b := Ann{Family: famRlim, Scope: scopeCtr, Target: name, Style: "flow", Rlimits: []Rlim{{Type: rlimitNames[i%len(rlimitNames)], Hard: u64p(uint64(i)), Soft: u64p(uint64(i / 2))}}}
			text(&b)
			c.Anns = append(c.Anns, b)
		}
		run(c, "many_names:fresh_name")
	}
	for round := 0; round < 2; round++ {
		for i, name := range first {
			run(own(name, i, neighbours), "many_names:return_visit")
		}
		run(malformed("early-bad"), "many_names:return_visit")
		run(malformedRlim("early-bad-rlim"), "many_names:return_visit")
	}
	return n
}

// sweepLongLists: lists of 1, 16, 32, 33, 34, 40, 100 and 300 distinct entries per kind (all 16
// types for rlimits), in every scope that can apply and every writer style, with the plugins
// at default verbosity and with -verbose: exactly the annotated entries must arrive.
func sweepLongLists(t *testing.T, r *ev.Recorder) int {
	const ctr = "c0"
	n, turn := 0, 0
	for _, opts := range []PluginOpts{{}, {InjVerbose: true, AdjVerbose: true}} {
		for _, fam := range families {
			for li, length := range []int{1, 16, 32, 33, 34, 40, 100, 300} {
				if fam == famRlim && length > 16 {
					continue
				}
				for si, scope := range []string{scopeCtr, scopePod, scopeBare} {
					if fam == famRlim && scope != scopeCtr {
						continue
					}
					a := Ann{Family: fam, Scope: scope, Style: []string{"block", "flow", "json"}[(li+si)%3]}
					if scope == scopeCtr {
						a.Target = ctr
					}
					a.fillLong(length, li)
					a.Text = (&renderer{ch: cycleChooser{&turn}, style: a.Style}).render(a.node())
					c := C20Case{Ctr: ctr, Opts: opts, Anns: []Ann{a}}
					raw := ev.Snapshot(c)
					r.Journal(raw)
					o := runC20(c)
					r.ClearJournal()
					o.Classes = append(o.Classes, "sweep:long_lists")
					r.Record(raw, o)
					if o.Fail != "" {
						t.Fatalf("C20: %s", o.Fail)
					}
					n++
				}
			}
		}
	}
	return n
}
