package samples

// Container names by length. Kubernetes caps the name part of an annotation key at 63
// characters ("container.<name>" fits for names of up to 53), DNS labels at 63 and DNS
// subdomains at 253; the plugins' keys are plain map lookups for which none of this matters:
// a container is named by its exact, full name only.

import (
	"strings"

	"pgregory.net/rapid"
)

var nameLengths = []int{1, 2, 52, 53, 54, 62, 63, 64, 100, 253}

// cut points at which a "shortened" name could be formed (name part / label limits, with and
// without the 10 characters of "container.")
var nameCuts = []int{42, 43, 52, 53, 54, 62, 63, 64}

const fillAlphabet = "abcdefghijklmnopqrstuvwxyz0123456789"

// fillName returns a name of n characters, alphanumeric, every position recognisable.
func fillName(off, n int) string {
	var b strings.Builder
	for i := 0; i < n; i++ {
		b.WriteByte(fillAlphabet[(off+i*7)%len(fillAlphabet)])
	}
	return b.String()
}

func trimPunct(s string) string { return strings.TrimRight(s, "-_.") }

// genBoundaryName draws a name of one of the boundary lengths, optionally with a '-', '.'
// or '_' right at a cut point, or a stem of boundary length followed by a separator and a
// suffix ("<52 characters>-debug").
func genBoundaryName() *rapid.Generator[string] {
	return rapid.Custom(func(t *rapid.T) string {
		off := rapid.IntRange(0, 5).Draw(t, "fill")
		switch rapid.IntRange(0, 2).Draw(t, "shape") {
		case 0:
			return fillName(off, rapid.SampledFrom(nameLengths).Draw(t, "len"))
		case 1:
			stem := fillName(off, rapid.SampledFrom([]int{41, 42, 51, 52, 53, 61, 62, 63}).Draw(t, "stem"))
			return stem + rapid.SampledFrom([]string{"-", "-", ".", "_", ""}).Draw(t, "sep") + rapid.SampledFrom([]string{"debug", "x", "0", "init-1"}).Draw(t, "suffix")
		}
		n := rapid.SampledFrom(nameLengths[4:]).Draw(t, "len") // >= 54
		b := []byte(fillName(off, n))
		at := rapid.SampledFrom([]int{51, 52, 61, 62}).Draw(t, "punctat")
		if at < n-1 {
			b[at] = rapid.SampledFrom([]byte{'-', '-', '.', '_'}).Draw(t, "punct")
		}
		return string(b)
	})
}

// boundarySiblings: names related to ctr at the cut points — its first 42..64 characters (as
// cut, and with trailing punctuation removed), and its extensions.
func boundarySiblings(ctr string) (hot, rest []string) {
	seen := map[string]bool{ctr: true, "": true}
	add := func(dst *[]string, s string) {
		if !seen[s] {
			seen[s] = true
			*dst = append(*dst, s)
		}
	}
	for _, n := range nameCuts {
		if n < len(ctr) {
			add(&hot, trimPunct(ctr[:n]))
			add(&rest, ctr[:n])
		}
	}
	add(&hot, ctr+"-debug")
	add(&hot, ctr+"x")
	for _, s := range []string{ctr + "0", ctr + ".x", ctr + "_x", ctr + "-x", "x" + ctr, ctr[1:], ctr[:len(ctr)-1], trimPunct(ctr[:len(ctr)-1])} {
		add(&rest, s)
	}
	return hot, rest
}

// nameLenClass labels a container name by length.
func nameLenClass(s string) string {
	n := len(s)
	for _, l := range nameLengths {
		if n == l {
			return "namelen:" + itoa(l)
		}
	}
	switch {
	case n < 52:
		return "namelen:3-51"
	case n < 64:
		return "namelen:55-61"
	case n < 253:
		return "namelen:65-252"
	}
	return "namelen:254+"
}

func itoa(n int) string {
	if n == 0 {
		return "0"
	}
	var b []byte
	for ; n > 0; n /= 10 {
		b = append([]byte{byte('0' + n%10)}, b...)
	}
	return string(b)
}

// atCut: a is what is left of b when b is cut at one of the cut points (trailing punctuation
// removed or not).
func atCut(a, b string) bool {
	for _, n := range nameCuts {
		if n < len(b) && (a == b[:n] || a == trimPunct(b[:n])) {
			return true
		}
	}
	return false
}
