package samples

// A small YAML/JSON writer owned by the harness. Annotation payloads are generated as values
// and rendered here, so the expectation of a case never passes through the parser of the
// plugin under test. The writer is deliberately conservative: a string is written as a plain
// scalar only when it is made of [A-Za-z0-9/_.=-], starts with a letter or '/', and is not
// one of the YAML 1.1 boolean/null words; everything else is single- or double-quoted
// (double-quoted = JSON escaping, which is a subset of YAML's).

import (
	"encoding/json"
	"regexp"
	"strconv"
	"strings"
)

// chooser abstracts the source of style decisions: rapid draws while generating, constants
// in the deterministic sweep.
type chooser interface {
	intn(n int, label string) int // uniform in [0,n)
}

type fixedChooser struct{}

func (fixedChooser) intn(int, string) int { return 0 }

type nkind int

const (
	nStr nkind = iota // a string value, quoted as needed
	nRaw              // text emitted verbatim (numbers, deliberately wrong tokens)
	nSeq
	nMap
)

type node struct {
	k     nkind
	s     string
	items []*node  // nSeq: elements; nMap: values (parallel to keys)
	keys  []string // nMap
}

func nS(s string) *node       { return &node{k: nStr, s: s} }
func nR(s string) *node       { return &node{k: nRaw, s: s} }
func nI(v int64) *node        { return nR(strconv.FormatInt(v, 10)) }
func nU(v uint64) *node       { return nR(strconv.FormatUint(v, 10)) }
func nL(items ...*node) *node { return &node{k: nSeq, items: items} }
func nM() *node               { return &node{k: nMap} }
func (n *node) put(k string, v *node) *node {
	for i, key := range n.keys {
		if key == k {
			n.items[i] = v
			return n
		}
	}
	n.keys = append(n.keys, k)
	n.items = append(n.items, v)
	return n
}
func (n *node) get(k string) *node {
	for i, key := range n.keys {
		if key == k {
			return n.items[i]
		}
	}
	return nil
}

var plainRe = regexp.MustCompile(`^[A-Za-z/][A-Za-z0-9/_.=-]*$`)

var reservedPlain = map[string]bool{
	"y": true, "n": true, "yes": true, "no": true, "on": true, "off": true,
	"true": true, "false": true, "null": true, "nan": true, "inf": true,
}

func plainOK(s string) bool {
	return plainRe.MatchString(s) && !reservedPlain[strings.ToLower(s)]
}

func singleOK(s string) bool {
	if s == "" {
		return true
	}
	for _, r := range s {
		if r < 0x20 || r == 0x7f || (r >= 0x80 && r < 0xa0) || r == 0xfeff || r == 0x2028 || r == 0x2029 {
			return false
		}
	}
	return true
}

func dq(s string) string {
	b, _ := json.Marshal(s)
	return string(b)
}

func sq(s string) string { return "'" + strings.ReplaceAll(s, "'", "''") + "'" }

type renderer struct {
	ch    chooser
	style string // "block", "flow", "json"
	tight bool   // flow/json: no blanks after separators (json only: also after ':')
}

func (r *renderer) str(s string) string {
	if r.style == "json" {
		return dq(s)
	}
	var forms []int // 0 plain, 1 single, 2 double
	if plainOK(s) {
		forms = append(forms, 0, 0, 0)
	}
	if singleOK(s) {
		forms = append(forms, 1)
	}
	forms = append(forms, 2)
	switch forms[r.ch.intn(len(forms), "quote")] {
	case 0:
		return s
	case 1:
		return sq(s)
	}
	return dq(s)
}

func (r *renderer) key(k string) string {
	if r.style == "json" {
		return dq(k)
	}
	return k
}

func (r *renderer) scalar(n *node) string {
	if n.k == nRaw {
		return n.s
	}
	return r.str(n.s)
}

func (r *renderer) flow(n *node) string {
	sep, colon := ", ", ": "
	if r.tight {
		sep = ","
		if r.style == "json" {
			colon = ":"
		}
	}
	switch n.k {
	case nSeq:
		parts := make([]string, len(n.items))
		for i, it := range n.items {
			parts[i] = r.flow(it)
		}
		return "[" + strings.Join(parts, sep) + "]"
	case nMap:
		parts := make([]string, len(n.items))
		for i, it := range n.items {
			parts[i] = r.key(n.keys[i]) + colon + r.flow(it)
		}
		return "{" + strings.Join(parts, sep) + "}"
	}
	return r.scalar(n)
}

func sp(n int) string { return strings.Repeat(" ", n) }

func (r *renderer) blockSeq(b *strings.Builder, n *node, ind int) {
	for _, it := range n.items {
		prefix := sp(ind) + "- "
		switch it.k {
		case nMap:
			if len(it.keys) == 0 {
				b.WriteString(prefix + "{}\n")
			} else {
				r.blockMap(b, it, ind+2, prefix)
			}
		case nSeq:
			b.WriteString(prefix + r.flow(it) + "\n")
		default:
			b.WriteString(prefix + r.scalar(it) + "\n")
		}
	}
}

func (r *renderer) blockMap(b *strings.Builder, n *node, ind int, first string) {
	for i, k := range n.keys {
		p := sp(ind)
		if i == 0 && first != "" {
			p = first
		}
		v := n.items[i]
		switch v.k {
		case nSeq:
			if len(v.items) == 0 {
				b.WriteString(p + k + ": []\n")
				continue
			}
			switch r.ch.intn(3, "nested") {
			case 0: // block sequence at the column of the key
				b.WriteString(p + k + ":\n")
				r.blockSeq(b, v, ind)
			case 1: // block sequence indented below the key
				b.WriteString(p + k + ":\n")
				r.blockSeq(b, v, ind+2)
			default: // flow sequence inside the block mapping
				b.WriteString(p + k + ": " + r.flow(v) + "\n")
			}
		case nMap:
			b.WriteString(p + k + ":\n")
			r.blockMap(b, v, ind+2, "")
		default:
			b.WriteString(p + k + ": " + r.scalar(v) + "\n")
		}
	}
}

// render writes the document. Empty top-level sequences are always written as "[]".
func (r *renderer) render(n *node) string {
	if n.k == nSeq && len(n.items) == 0 {
		return "[]"
	}
	if r.style != "block" {
		return r.flow(n)
	}
	var b strings.Builder
	ind := 2 * r.ch.intn(2, "indent")
	switch n.k {
	case nSeq:
		r.blockSeq(&b, n, ind)
	case nMap:
		r.blockMap(&b, n, ind, "")
	default:
		b.WriteString(sp(ind) + r.scalar(n) + "\n")
	}
	return b.String()
}
