// Package gen holds rapid generators shared by several engines.
package gen

import (
	"math"
	"os"

	"github.com/containerd/nri/pkg/api"
	rspec "github.com/opencontainers/runtime-spec/specs-go"
	"pgregory.net/rapid"
)

// I64 draws an int64 with boundary values over-represented.
func I64() *rapid.Generator[int64] {
	return rapid.OneOf(
		rapid.SampledFrom([]int64{0, 1, -1, math.MaxInt64, math.MinInt64, math.MaxInt32, math.MinInt32, 1 << 32}),
		rapid.SampledFrom(magicI64),
		rapid.Int64(),
		rapid.Int64Range(-1000, 1000),
	)
}

// magicI64 are values with a meaning somewhere in the container stack which a well-meant
// sanitising step might rewrite: "unlimited" read-backs of cgroup v1 (the page-rounded
// maximum) and v2, kernel and runtime defaults, sentinels, powers of two and their
// neighbours.
var magicI64 = []int64{
	9223372036854771712, 9223372036854771711, 9223372036854771713, 9223372036854767616, // cgroup v1 "no limit" and neighbours
	math.MaxInt64 - 1, -2, 1<<53 - 1, 1 << 53, 1<<63 - 4096, 1<<31 - 1, 1 << 31, 1<<32 - 1, 1<<32 + 1,
	4096, 4095, 65536, 1 << 20, 1 << 30, 1 << 40, 100000, 1000000, 1024, 1000, 100, 262144, 18446744073709551615 >> 1,
	2, 6 << 20, 60, 100, -1000, 1000, -999, 999, 0x7ffffffffffff000,
}

// U64 draws a uint64 with boundary values over-represented.
func U64() *rapid.Generator[uint64] {
	return rapid.OneOf(
		rapid.SampledFrom([]uint64{0, 1, math.MaxUint64, math.MaxInt64, math.MaxInt64 + 1, math.MaxUint32, 1 << 32}),
		rapid.SampledFrom([]uint64{9223372036854771712, 18446744073709547520, 18446744073709551614, 1 << 53, 4096, 1024, 2, 100, 262144, 10000, 100000, 1000000, 1 << 20, 1 << 30}),
		rapid.Uint64(),
		rapid.Uint64Range(0, 1000),
	)
}

func U32() *rapid.Generator[uint32] {
	return rapid.OneOf(
		rapid.SampledFrom([]uint32{0, 1, math.MaxUint32, math.MaxInt32, math.MaxInt32 + 1}),
		rapid.Uint32(),
	)
}

func I32() *rapid.Generator[int32] {
	return rapid.OneOf(
		rapid.SampledFrom([]int32{0, 1, -1, math.MaxInt32, math.MinInt32}),
		rapid.Int32(),
	)
}

// Str draws short printable strings (valid UTF-8), often empty.
func Str() *rapid.Generator[string] {
	return rapid.OneOf(
		rapid.Just(""),
		rapid.StringMatching(`[a-zA-Z0-9_./=,:-]{1,12}`),
		rapid.StringN(0, 8, 24),
		rapid.SampledFrom(normalisable),
	)
}

// normalisable are spellings that a well-meant "canonicalisation" would rewrite: units,
// numbers, case, white space, unclean paths, things that look like the code's own markers.
var normalisable = []string{" x", "x ", "\tx", "X", "Bind", "RO", "a//b", "a/./b", "a/../b", "/a/", "./a", "2Mi", "2048kB", "1Gi",
	"1536Ki", "2MiB", "2mb", "1M", "1e3", "0x10", "+1", "-1", "001", "1.0", "true", "True", "nil", "null", "-", "--x", "=",
	"a=b=c", "a,b", "a b", "\u00a0", "%s", "$HOME", "~", "*"}

// PageSize draws hugepage page sizes in the canonical and in other unit spellings.
func PageSize() *rapid.Generator[string] {
	return rapid.SampledFrom([]string{"2MB", "1GB", "64KB", "", "2Mi", "2048kB", "1Gi", "1536Ki", "2MiB", "2mb", "1M", "4M", "0Ki", " 2MB", "2MB "})
}

// Word draws a non-empty identifier-like string.
func Word() *rapid.Generator[string] { return rapid.StringMatching(`[a-z][a-z0-9_]{0,7}`) }

func Ptr[T any](g *rapid.Generator[T]) *rapid.Generator[*T] {
	return rapid.Custom(func(t *rapid.T) *T {
		if rapid.IntRange(0, 3).Draw(t, "nil") == 0 {
			return nil
		}
		v := g.Draw(t, "v")
		return &v
	})
}

func StrSlice() *rapid.Generator[[]string] {
	return rapid.Custom(func(t *rapid.T) []string {
		switch rapid.IntRange(0, 3).Draw(t, "shape") {
		case 0:
			return nil
		case 1:
			return []string{}
		}
		return rapid.SliceOfN(Str(), 1, 4).Draw(t, "elems")
	})
}

func StrMap() *rapid.Generator[map[string]string] {
	return rapid.Custom(func(t *rapid.T) map[string]string {
		switch rapid.IntRange(0, 3).Draw(t, "shape") {
		case 0:
			return nil
		case 1:
			return map[string]string{}
		}
		return rapid.MapOfN(Word(), Str(), 1, 4).Draw(t, "elems")
	})
}

// ---- OCI side ---------------------------------------------------------------------

func OCIResources() *rapid.Generator[*rspec.LinuxResources] {
	return rapid.Custom(func(t *rapid.T) *rspec.LinuxResources {
		if rapid.IntRange(0, 9).Draw(t, "nilres") == 0 {
			return nil
		}
		r := &rspec.LinuxResources{}
		if rapid.IntRange(0, 3).Draw(t, "mem") != 0 {
			r.Memory = &rspec.LinuxMemory{
				Limit:            Ptr(I64()).Draw(t, "limit"),
				Reservation:      Ptr(I64()).Draw(t, "reservation"),
				Swap:             Ptr(I64()).Draw(t, "swap"),
				Kernel:           Ptr(I64()).Draw(t, "kernel"),
				KernelTCP:        Ptr(I64()).Draw(t, "kerneltcp"),
				Swappiness:       Ptr(U64()).Draw(t, "swappiness"),
				DisableOOMKiller: Ptr(rapid.Bool()).Draw(t, "oomkill"),
				UseHierarchy:     Ptr(rapid.Bool()).Draw(t, "hier"),
			}
		}
		if rapid.IntRange(0, 3).Draw(t, "cpu") != 0 {
			r.CPU = &rspec.LinuxCPU{
				Shares:          Ptr(U64()).Draw(t, "shares"),
				Quota:           Ptr(I64()).Draw(t, "quota"),
				Period:          Ptr(U64()).Draw(t, "period"),
				RealtimeRuntime: Ptr(I64()).Draw(t, "rtr"),
				RealtimePeriod:  Ptr(U64()).Draw(t, "rtp"),
				Cpus:            rapid.SampledFrom([]string{"", "0", "0-3", "1,3"}).Draw(t, "cpus"),
				Mems:            rapid.SampledFrom([]string{"", "0", "0-1"}).Draw(t, "mems"),
			}
		}
		n := rapid.IntRange(0, 3).Draw(t, "nhuge")
		for i := 0; i < n; i++ {
			r.HugepageLimits = append(r.HugepageLimits, rspec.LinuxHugepageLimit{
				Pagesize: PageSize().Draw(t, "ps"),
				Limit:    U64().Draw(t, "hl"),
			})
		}
		n = rapid.IntRange(0, 3).Draw(t, "ndev")
		for i := 0; i < n; i++ {
			r.Devices = append(r.Devices, rspec.LinuxDeviceCgroup{
				Allow:  rapid.Bool().Draw(t, "allow"),
				Type:   rapid.SampledFrom([]string{"", "a", "b", "c"}).Draw(t, "dtype"),
				Major:  Ptr(I64()).Draw(t, "major"),
				Minor:  Ptr(I64()).Draw(t, "minor"),
				Access: rapid.SampledFrom([]string{"", "r", "rw", "rwm"}).Draw(t, "access"),
			})
		}
		if rapid.Bool().Draw(t, "pids") {
			r.Pids = &rspec.LinuxPids{Limit: I64().Draw(t, "pidlimit")}
		}
		r.Unified = StrMap().Draw(t, "unified")
		var sizes []string
		for _, h := range r.HugepageLimits {
			sizes = append(sizes, h.Pagesize)
		}
		r.Unified = relatedUnified(t, r.Unified, sizes)
		return r
	})
}

// relatedUnified sometimes adds cgroup v2 keys that name what a typed field of the same
// resource set names too (the raw setting next to the typed one): hugetlb.<size>.* for the
// set's own hugepage sizes, memory.*, cpu.*, cpuset.*, pids.max.
func relatedUnified(t *rapid.T, m map[string]string, pageSizes []string) map[string]string {
	if Uniform(t, "relunified", 3) != 0 {
		return m
	}
	keys := []string{"memory.max", "memory.high", "memory.swap.max", "cpu.weight", "cpu.max", "cpuset.cpus", "cpuset.mems", "pids.max"}
	for _, s := range pageSizes {
		keys = append(keys, "hugetlb."+s+".max", "hugetlb."+s+".rsvd.max")
	}
	keys = append(keys, "hugetlb.2MB.max", "hugetlb.1GB.max")
	n := 1 + Uniform(t, "nrel", 3)
	if m == nil {
		m = map[string]string{}
	}
	for i := 0; i < n; i++ {
		m[Pick(t, "relkey", keys)] = Pick(t, "relval", []string{"max", "0", "1", "4096", "0-3", ""})
	}
	return m
}

func OCIMount() *rapid.Generator[rspec.Mount] {
	return rapid.Custom(func(t *rapid.T) rspec.Mount {
		return rspec.Mount{
			Destination: rapid.OneOf(rapid.StringMatching(`(/[a-z]{1,3}){1,4}/?`), Str()).Draw(t, "dst"),
			Type:        rapid.SampledFrom([]string{"", "bind", "tmpfs", "proc"}).Draw(t, "type"),
			Source:      Str().Draw(t, "src"),
			Options: rapid.OneOf(StrSlice(), rapid.SliceOfN(rapid.SampledFrom(
				[]string{"ro", "rw", "rbind", "rprivate", "rshared", "rslave", "nosuid", "relabel"}), 0, 4)).Draw(t, "opts"),
		}
	})
}

func FileModeGen() *rapid.Generator[os.FileMode] {
	return rapid.Custom(func(t *rapid.T) os.FileMode {
		return os.FileMode(rapid.OneOf(rapid.SampledFrom([]uint32{0, 0o644, 0o777, 0o600, math.MaxUint32, uint32(os.ModeDevice | 0o660)}), rapid.Uint32()).Draw(t, "mode"))
	})
}

func OCIDevice() *rapid.Generator[rspec.LinuxDevice] {
	return rapid.Custom(func(t *rapid.T) rspec.LinuxDevice {
		return rspec.LinuxDevice{
			Path:     rapid.OneOf(rapid.StringMatching(`/dev/[a-z]{1,4}[0-9]?`), Str()).Draw(t, "path"),
			Type:     rapid.SampledFrom([]string{"", "b", "c", "u", "p"}).Draw(t, "type"),
			Major:    I64().Draw(t, "major"),
			Minor:    I64().Draw(t, "minor"),
			FileMode: Ptr(FileModeGen()).Draw(t, "mode"),
			UID:      Ptr(U32()).Draw(t, "uid"),
			GID:      Ptr(U32()).Draw(t, "gid"),
		}
	})
}

func OCIHook() *rapid.Generator[rspec.Hook] {
	return rapid.Custom(func(t *rapid.T) rspec.Hook {
		var to *int
		if rapid.Bool().Draw(t, "hasTimeout") {
			v := rapid.OneOf(rapid.SampledFrom([]int{0, 1, -1, math.MaxInt32, math.MaxInt64, math.MinInt64}), rapid.Int()).Draw(t, "timeout")
			to = &v
		}
		return rspec.Hook{
			Path:    Str().Draw(t, "path"),
			Args:    StrSlice().Draw(t, "args"),
			Env:     StrSlice().Draw(t, "env"),
			Timeout: to,
		}
	})
}

func OCIHooks() *rapid.Generator[*rspec.Hooks] {
	return rapid.Custom(func(t *rapid.T) *rspec.Hooks {
		if rapid.IntRange(0, 5).Draw(t, "nilhooks") == 0 {
			return nil
		}
		l := func(name string) []rspec.Hook {
			if rapid.Bool().Draw(t, name+"nil") {
				return nil
			}
			return rapid.SliceOfN(OCIHook(), 0, 3).Draw(t, name)
		}
		h := &rspec.Hooks{
			Prestart: l("prestart"), CreateRuntime: l("createRuntime"), CreateContainer: l("createContainer"),
			StartContainer: l("startContainer"), Poststart: l("poststart"), Poststop: l("poststop"),
		}
		// the same hook under several kinds (a hook configured for several stages) and twice
		// within one list
		if Uniform(t, "samehook", 3) == 0 {
			lists := []*[]rspec.Hook{&h.Prestart, &h.CreateRuntime, &h.CreateContainer, &h.StartContainer, &h.Poststart, &h.Poststop}
			shared := OCIHook().Draw(t, "shared")
			n := 2 + Uniform(t, "nsame", 3)
			for i := 0; i < n; i++ {
				dst := lists[Uniform(t, "samelist", len(lists))]
				cp := shared
				cp.Args = append([]string(nil), shared.Args...)
				cp.Env = append([]string(nil), shared.Env...)
				if shared.Timeout != nil {
					v := *shared.Timeout
					cp.Timeout = &v
				}
				pos := Uniform(t, "samepos", len(*dst)+1)
				*dst = append((*dst)[:pos:pos], append([]rspec.Hook{cp}, (*dst)[pos:]...)...)
			}
		}
		return h
	})
}

// ---- NRI side ---------------------------------------------------------------------

func OptI64() *rapid.Generator[*api.OptionalInt64] {
	return rapid.Custom(func(t *rapid.T) *api.OptionalInt64 {
		if rapid.IntRange(0, 3).Draw(t, "nil") == 0 {
			return nil
		}
		return &api.OptionalInt64{Value: I64().Draw(t, "v")}
	})
}

func OptU64() *rapid.Generator[*api.OptionalUInt64] {
	return rapid.Custom(func(t *rapid.T) *api.OptionalUInt64 {
		if rapid.IntRange(0, 3).Draw(t, "nil") == 0 {
			return nil
		}
		return &api.OptionalUInt64{Value: U64().Draw(t, "v")}
	})
}

func OptBool() *rapid.Generator[*api.OptionalBool] {
	return rapid.Custom(func(t *rapid.T) *api.OptionalBool {
		if rapid.IntRange(0, 3).Draw(t, "nil") == 0 {
			return nil
		}
		return &api.OptionalBool{Value: rapid.Bool().Draw(t, "v")}
	})
}

func OptStr() *rapid.Generator[*api.OptionalString] {
	return rapid.Custom(func(t *rapid.T) *api.OptionalString {
		if rapid.IntRange(0, 3).Draw(t, "nil") == 0 {
			return nil
		}
		return &api.OptionalString{Value: Str().Draw(t, "v")}
	})
}

// NRIResources draws arbitrary resources (every optional independently nil / zero / set).
func NRIResources() *rapid.Generator[*api.LinuxResources] {
	return rapid.Custom(func(t *rapid.T) *api.LinuxResources {
		if rapid.IntRange(0, 9).Draw(t, "nilres") == 0 {
			return nil
		}
		r := &api.LinuxResources{}
		if rapid.IntRange(0, 3).Draw(t, "mem") != 0 {
			r.Memory = &api.LinuxMemory{
				Limit: OptI64().Draw(t, "limit"), Reservation: OptI64().Draw(t, "reservation"),
				Swap: OptI64().Draw(t, "swap"), Kernel: OptI64().Draw(t, "kernel"),
				KernelTcp: OptI64().Draw(t, "kerneltcp"), Swappiness: OptU64().Draw(t, "swappiness"),
				DisableOomKiller: OptBool().Draw(t, "oomkill"), UseHierarchy: OptBool().Draw(t, "hier"),
			}
		}
		if rapid.IntRange(0, 3).Draw(t, "cpu") != 0 {
			r.Cpu = &api.LinuxCPU{
				Shares: OptU64().Draw(t, "shares"), Quota: OptI64().Draw(t, "quota"),
				Period: OptU64().Draw(t, "period"), RealtimeRuntime: OptI64().Draw(t, "rtr"),
				RealtimePeriod: OptU64().Draw(t, "rtp"),
				Cpus:           rapid.SampledFrom([]string{"", "0", "0-3", "1,3"}).Draw(t, "cpus"),
				Mems:           rapid.SampledFrom([]string{"", "0", "0-1"}).Draw(t, "mems"),
			}
		}
		n := rapid.IntRange(0, 3).Draw(t, "nhuge")
		for i := 0; i < n; i++ {
			r.HugepageLimits = append(r.HugepageLimits, &api.HugepageLimit{
				PageSize: PageSize().Draw(t, "ps"),
				Limit:    U64().Draw(t, "hl"),
			})
		}
		n = rapid.IntRange(0, 2).Draw(t, "ndev")
		for i := 0; i < n; i++ {
			r.Devices = append(r.Devices, &api.LinuxDeviceCgroup{
				Allow:  rapid.Bool().Draw(t, "allow"),
				Type:   rapid.SampledFrom([]string{"", "a", "b", "c"}).Draw(t, "dtype"),
				Major:  OptI64().Draw(t, "major"),
				Minor:  OptI64().Draw(t, "minor"),
				Access: rapid.SampledFrom([]string{"", "r", "rw", "rwm"}).Draw(t, "access"),
			})
		}
		if rapid.Bool().Draw(t, "pids") {
			r.Pids = &api.LinuxPids{Limit: I64().Draw(t, "pidlimit")}
		}
		r.Unified = StrMap().Draw(t, "unified")
		var sizes []string
		for _, h := range r.HugepageLimits {
			sizes = append(sizes, h.PageSize)
		}
		r.Unified = relatedUnified(t, r.Unified, sizes)
		r.BlockioClass = OptStr().Draw(t, "blockio")
		r.RdtClass = OptStr().Draw(t, "rdt")
		return r
	})
}

// Uniform draws an index in [0,n) approximately uniformly (rapid's integer and SampledFrom
// generators are deliberately biased towards small values; class coverage needs uniformity).
// n must be <= 4096. Shrinks towards 0.
func Uniform(t *rapid.T, label string, n int) int {
	v := 0
	for i := 0; i < 12; i++ {
		v <<= 1
		if rapid.Bool().Draw(t, label) {
			v |= 1
		}
	}
	return v % n
}

// Pick draws one element of a slice approximately uniformly.
func Pick[T any](t *rapid.T, label string, s []T) T { return s[Uniform(t, label, len(s))] }
