# Per-property configuration for ./check lives in props.d/<ID>.json:
#   pkg          engine package under harness/ holding TestProp_<ID>
#   exh          optional name of an extra (exhaustive / sweep) test run in shard 0
#   quick / thorough: {"checks": rapid cases per shard, "shards": n, "timeout": seconds, "steps": optional}
#   floors       generator-health floors per tier (nontrivial_frac, classes_min, overloaded_max_frac)
#   crash_is_violation: the property promises "no panic/crash": a dead test binary with a journalled case is a violation
#   aux          auxiliary binaries to build: {"name": {"kind": "harness", "pkg": "cmd/x"} | {"kind": "repo-plugin", "dir": "plugins/x"}}
#   rule, assumptions, technique, level_text, level_note: evidence / manifest texts
import glob
import json
import os

COMMON_ASSUME = [
    "the harness is linked against the repository's current working tree (replace => /repo), rebuilt on every run",
    "absence of violations is not established: this is generated-input search, evidence lists what was explored",
]

PROPS = {}
for _f in sorted(glob.glob(os.path.join(os.path.dirname(os.path.abspath(__file__)), "props.d", "C*.json"))):
    _c = json.load(open(_f))
    _c["assumptions"] = COMMON_ASSUME + _c.get("assumptions", [])
    PROPS[os.path.basename(_f)[:-5]] = _c

# properties that are deliberately not claimed, with the reason (none so far)
NOT_APPLICABLE = {}
