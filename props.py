# Per-property configuration for ./check: which engine package holds the property test,
# how many rapid cases per shard and how many shards per tier, generator-health floors,
# and the evidence texts (rule, assumptions).

COMMON_ASSUME = [
    "the harness is linked against the repository's current working tree (replace => /repo), rebuilt on every run",
    "absence of violations is not established: this is generated-input search, evidence lists what was explored",
]

PROPS = {
    "C14": {
        "pkg": "codec",
        "exh": "TestExh_C14",
        "quick": {"checks": 30000, "shards": 1, "timeout": 300},
        "thorough": {"checks": 200000, "shards": 16, "timeout": 1500},
        "rule": "rapid-generated conversion cases (OCI<->NRI resources, mounts, devices, hooks, env, namespaces, "
                "Copy with per-field mutation of the copy and of the original, optional constructors per argument form, "
                "removal-marker helpers, mask Set/Clear/IsSet laws) plus the exhaustive sweep of all 8192 event masks; "
                "a case is non-trivial when its input has an optional set to its zero value, a nil next to a populated "
                "optional/section, an empty collection, or (masks) a non-empty mask; distinct = distinct 64-bit hash of the case JSON",
        "assumptions": COMMON_ASSUME + [
            "env entries without '=' are not valid OCI environment entries and are not generated",
            "struct-nil and all-fields-nil memory/cpu sections are treated as equal (ToOCI always allocates both)",
            "cross-sign optional constructor arguments are only drawn from values both types can hold",
        ],
        "floors": {"quick": {"nontrivial_frac": 0.2}, "thorough": {"nontrivial_frac": 0.2}},
        "technique": "property-based testing (rapid): round-trip and copy-independence oracles over generated values; exhaustive enumeration of the 8192 event masks",
        "level_text": "generated-input search: every conversion pair is checked as a round trip on the fields both sides carry, Copy() by mutating each reachable pointer/slice/map entry of copy and original, each optional constructor per argument form; the event-mask print/parse round trip is enumerated exhaustively. Exploration level: inputs are sampled (except the masks).",
        "level_note": "trusts encoding/json for replay files and the harness's canonical renderers; compares only fields both representations carry",
    },
}

NOT_APPLICABLE = {}
