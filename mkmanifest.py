#!/usr/bin/env python3
"""Regenerates MANIFEST.json from props.py (checks) and properties.jsonl (not_applicable for
whatever is not claimed yet)."""
import json, os, subprocess, sys
V = os.path.dirname(os.path.abspath(__file__))
sys.path.insert(0, V)
from props import PROPS, NOT_APPLICABLE

ids = [json.loads(l)["id"] for l in open(os.path.join(V, "properties.jsonl"))]
# only checks listed in READY (reviewed, silent on the unchanged tree) are claimed
ready = set(open(os.path.join(V, "READY")).read().split())
PROPS = {k: v for k, v in PROPS.items() if k in ready}
hook_commits = subprocess.run(["git", "-C", "/repo", "log", "--format=%H", "--grep=^verif hooks"],
                              capture_output=True, text=True).stdout.split()
checks = []
for pid in ids:
    if pid not in PROPS:
        continue
    c = PROPS[pid]
    checks.append({
        "property_id": pid,
        "quick_cmd": "./check %s --tier quick" % pid,
        "thorough_cmd": "./check %s --tier thorough" % pid,
        "evidence_file": "evidence/%s.json" % pid,
        "replay_cmd_template": "./check %s --replay {path}" % pid,
        "engine": c["pkg"],
        "level_claimed": {"category": "exploration", "text": c["level_text"], "design_ref": c.get("design_ref", "DESIGN.md section 4, " + pid)},
        "level_note": c["level_note"],
        "technique": c["technique"],
    })
engines = {}
for pid in ids:
    if pid in PROPS:
        engines.setdefault(PROPS[pid]["pkg"], []).append(pid)
m = {
    "version": 1,
    "setup_cmd": "./setup.sh",
    "hooks": {
        "guard": "verif",
        "enable": "go build tag: ./check builds the harness (which links /repo's packages) with -tags verif; VERIF_NOHOOKS=1 builds without",
        "baseline_off_cmd": "for m in $(cat /w/out/gomods.txt); do MF=$(cd /repo/$m && . /w/out/goenv.sh && gomodflag); (cd /repo/$m && go test $MF -json -vet=off -count=1 -timeout 25m ./...); done",
        "source_commits": hook_commits,
        "add_only": True,
    },
    "engines": [{"name": k, "path": "harness/" + k, "serves_properties": v,
                 "kind_free_text": "Go test package driven by pgregory.net/rapid v1.3.0 through ./check"} for k, v in engines.items()],
    "checks": checks,
    "not_applicable": [{"property_id": p, "reason": NOT_APPLICABLE[p]} for p in ids if p not in PROPS and p in NOT_APPLICABLE] +
                      [{"property_id": p, "reason": "check not built yet in this round (planned in DESIGN.md section 4); not claimed until it exists"}
                       for p in ids if p not in PROPS and p not in NOT_APPLICABLE],
    "notes": "All checks: property-based testing with rapid against explicit oracles; see DESIGN.md. KNOWN_FINDINGS.txt lists recorded/fixed defects.",
}
json.dump(m, open(os.path.join(V, "MANIFEST.json"), "w"), indent=1)
print("MANIFEST.json: %d checks, %d not claimed" % (len(checks), len(m["not_applicable"])))
