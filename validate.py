#!/usr/bin/env python3
import json, sys, glob
import jsonschema
jsonschema.validate(json.load(open('/verif/MANIFEST.json')), json.load(open('/root/.vp/MANIFEST.schema.json')))
es = json.load(open('/root/.vp/EVIDENCE.schema.json'))
ready=set(open('/verif/READY').read().split())
for f in sorted(glob.glob('/verif/evidence/*.json')):
    if f.split('/')[-1][:-5] not in ready: continue
    jsonschema.validate(json.load(open(f)), es)
print("manifest + %d evidence files valid" % len(glob.glob('/verif/evidence/*.json')))
